#!/venv/bin/python
"""Apply every candidate/kept seeded change to a scratch worktree of /repo HEAD and
report which property checks fire.  usage: seedtest.py <dir with */patch.diff> [props...]"""
import subprocess, sys, os, json, glob, shutil, tempfile
root = sys.argv[1]
props = sys.argv[2:] or None
sys.path.insert(0, "/verif")
from sa import props as P
allp = sorted(P.PROPS)
wt = tempfile.mkdtemp(prefix="seedwt_", dir="/tmp")
os.rmdir(wt)
subprocess.run(["git", "-C", "/repo", "worktree", "add", "-q", "--detach", wt, "HEAD"], check=True)
try:
    for patch in sorted(glob.glob(os.path.join(root, "**", "patch.diff"), recursive=True)):
        sid = os.path.relpath(os.path.dirname(patch), root)
        subprocess.run(["git", "-C", wt, "reset", "-q", "--hard", "HEAD"], check=True)
        subprocess.run(["git", "-C", wt, "clean", "-fdq"], check=True)
        r = subprocess.run(["git", "-C", wt, "apply", patch], capture_output=True, text=True)
        if r.returncode != 0:
            r = subprocess.run(["patch", "-p1", "-F3", "-s", "-d", wt, "-i", patch], capture_output=True, text=True)
            if r.returncode != 0:
                print("%-12s APPLY-FAILED %s" % (sid, (r.stdout + r.stderr).strip().splitlines()[-1] if (r.stdout + r.stderr) else ""))
                continue
        fired = []
        for p in (props or allp):
            env = dict(os.environ, EON_REPO=wt)
            rr = subprocess.run(["/venv/bin/python", "-W", "ignore", "-m", "sa.run", p, "--repo", wt], cwd="/verif", capture_output=True, text=True, env=env)
            if rr.returncode == 1:
                rules = sorted({l.split("[")[1].split("]")[0] for l in rr.stdout.splitlines() if l.startswith("FINDING") and "[" in l})
                fired.append("%s(%s)" % (p, ",".join(rules)))
            elif rr.returncode != 0:
                fired.append("%s(ERR:%s)" % (p, rr.stdout.strip().splitlines()[-1][:80] if rr.stdout.strip() else rr.stderr[-80:]))
        print("%-12s %s" % (sid, " ".join(fired) if fired else "-- missed --"))
finally:
    subprocess.run(["git", "-C", "/repo", "worktree", "remove", "--force", wt])
    # evidence files were rewritten against the scratch tree: restore by rerunning is the caller's job
