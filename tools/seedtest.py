#!/venv/bin/python
"""Apply every candidate/kept change under <dir> (*/patch.diff) to a scratch worktree of /repo HEAD and report which
property checks fire (one process per change, all checks in it: sa.multi).
usage: seedtest.py <dir with */patch.diff> [--jobs N] [props...]"""
import subprocess, sys, os, glob, tempfile
from concurrent.futures import ThreadPoolExecutor
import queue

args = sys.argv[1:]
jobs = 8
if "--jobs" in args:
    i = args.index("--jobs")
    jobs = int(args[i + 1])
    del args[i:i + 2]
root = args[0]
props = args[1:]

patches = sorted(glob.glob(os.path.join(root, "**", "patch.diff"), recursive=True))
jobs = max(1, min(jobs, len(patches)))
pool = queue.Queue()
wts = []
for _ in range(jobs):
    wt = tempfile.mkdtemp(prefix="seedwt_", dir="/tmp")
    os.rmdir(wt)
    subprocess.run(["git", "-C", "/repo", "worktree", "add", "-q", "--detach", wt, "HEAD"], check=True)
    wts.append(wt)
    pool.put(wt)


def one(patch):
    sid = os.path.relpath(os.path.dirname(patch), root)
    wt = pool.get()
    try:
        subprocess.run(["git", "-C", wt, "reset", "-q", "--hard", "HEAD"], check=True)
        subprocess.run(["git", "-C", wt, "clean", "-fdq"], check=True)
        r = subprocess.run(["git", "-C", wt, "apply", patch], capture_output=True, text=True)
        if r.returncode != 0:
            r = subprocess.run(["patch", "-p1", "-F3", "-s", "-d", wt, "-i", patch], capture_output=True, text=True)
            if r.returncode != 0:
                return "%-12s APPLY-FAILED %s" % (sid, (r.stdout + r.stderr).strip().splitlines()[-1] if (r.stdout + r.stderr) else "")
        rr = subprocess.run(["/venv/bin/python", "-W", "ignore", "-m", "sa.multi", "--repo", wt] + props, cwd="/verif", capture_output=True, text=True)
        fired = []
        eq = ""
        for l in rr.stdout.splitlines():
            if l.startswith("EQUIVALENT"):
                eq = l.split(" ", 1)[1]
            elif " rc=" in l:
                p, rc, rules = (l.split(" ", 2) + [""])[:3]
                fired.append("%s(%s)" % (p, rules if rc == "rc=1" else "ERR:" + rules[:70]))
        if rr.returncode != 0 and not fired:
            fired.append("HARNESS-ERROR " + rr.stderr[-300:])
        return "%-12s %s%s" % (sid, " ".join(fired) if fired else "-- silent --", ("   [refactor of reference: %s]" % eq) if eq not in ("", "{}") else "")
    finally:
        pool.put(wt)


try:
    with ThreadPoolExecutor(jobs) as ex:
        for line in ex.map(one, patches):
            print(line, flush=True)
finally:
    for wt in wts:
        subprocess.run(["git", "-C", "/repo", "worktree", "remove", "--force", wt])
