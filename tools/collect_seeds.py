#!/venv/bin/python
"""Copy confirmed seeded changes into /verif/seeded/<prop>-<tag><k>/ and record which checks catch them.
usage: collect_seeds.py <candidates dir> <confirm dir> <tag>"""
import json, os, sys, glob, shutil, subprocess, tempfile
sys.path.insert(0, "/verif")
from sa import props as P
cand, conf, tag = sys.argv[1:4]
head = subprocess.run(["git", "-C", "/repo", "rev-parse", "--short", "HEAD"], capture_output=True, text=True).stdout.strip()
wt = tempfile.mkdtemp(prefix="collect_", dir="/tmp"); os.rmdir(wt)
subprocess.run(["git", "-C", "/repo", "worktree", "add", "-q", "--detach", wt, "HEAD"], check=True)
try:
    for cj in sorted(glob.glob(os.path.join(conf, "*.json"))):
        c = json.load(open(cj))
        if c.get("status") != "confirmed":
            print("skip", c["id"], c.get("status")); continue
        prop, k = c["id"].split("-")
        src = os.path.dirname(c["patch"])
        dst = "/verif/seeded/%s-%s-%s" % (prop, tag, k)
        os.makedirs(dst, exist_ok=True)
        # patch against the current HEAD
        subprocess.run(["git", "-C", wt, "reset", "-q", "--hard", "HEAD"], check=True)
        subprocess.run(["git", "-C", wt, "clean", "-fdq"], check=True)
        tmpd = os.path.join(dst, "patch.diff")
        open(tmpd, "w").write(c["diff_vs_head"])
        r = subprocess.run(["git", "-C", wt, "apply", tmpd], capture_output=True, text=True)
        if r.returncode != 0:
            r = subprocess.run(["patch", "-p1", "-F3", "-s", "-d", wt, "-i", tmpd], capture_output=True, text=True)
            for junk in glob.glob(wt + "/EoN/*.rej") + glob.glob(wt + "/EoN/*.orig"):
                os.remove(junk)
            if r.returncode != 0:
                print("APPLY-FAILED on HEAD", c["id"]); continue
            open(tmpd, "w").write(subprocess.run(["git", "-C", wt, "diff"], capture_output=True, text=True).stdout)
        shutil.copy(os.path.join(src, "demo.py"), os.path.join(dst, "demo.py"))
        caught = {}
        rr = subprocess.run(["/venv/bin/python", "-W", "ignore", "-m", "sa.multi", "--repo", wt], cwd="/verif", capture_output=True, text=True)
        for l in rr.stdout.splitlines():
            if " rc=" in l:
                p, rc, rules = (l.split(" ", 2) + [""])[:3]
                caught[p] = sorted(rules.split(",")) if rc == "rc=1" else ["ANALYSIS-ERROR"]
        try:
            m = json.load(open(os.path.join(src, "meta.json")))
        except Exception:
            m = {}
        meta = {
            "property": prop, "round": tag, "origin": "independent sub-agent given only the property text and a scratch worktree",
            "summary": m.get("summary"), "needs": m.get("needs"), "files": m.get("files"), "functions": m.get("functions"),
            "agent_tests_run": m.get("tests_run"),
            "confirmed_by_me": {
                "repo_head": head,
                "demo_with_change_exit": c.get("demo_patched_exit"), "demo_without_change_exit": c.get("demo_clean_exit"),
                "demo_failure_tail": (c.get("demo_patched_tail") or "")[-300:],
                "baseline_suite": "pytest -q -p no:cacheprovider --timeout=900 --continue-on-collection-errors -n 6 in a scratch worktree with the change applied: all 32 stable tests of BASELINE.json passed (%d tests passed in total)" % c.get("n_passed", 0),
                "how": "tools/confirm_seeds.py (scratch worktree of /repo HEAD under /tmp, removed afterwards)",
            },
            "caught_by": caught,
            "caught_by_own_property_check": prop in caught,
        }
        json.dump(meta, open(os.path.join(dst, "meta.json"), "w"), indent=1)
        print(c["id"], "->", dst, "caught by", " ".join("%s(%s)" % (a, ",".join(b)) for a, b in caught.items()) or "NONE")
finally:
    subprocess.run(["git", "-C", "/repo", "worktree", "remove", "--force", wt])
