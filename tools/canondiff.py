#!/venv/bin/python
"""Show, for a patch, the remaining differences between the canonical forms of changed functions and their reference."""
import sys, os, ast, subprocess, tempfile, difflib, glob, copy
sys.path.insert(0, "/verif")
from sa import canon
from sa.core import MODULES, normalise, canonicalise_calls
import warnings
patch = sys.argv[1]
wt = tempfile.mkdtemp(prefix="cd_", dir="/tmp"); os.rmdir(wt)
subprocess.run(["git", "-C", "/repo", "worktree", "add", "-q", "--detach", wt, "HEAD"], check=True)
try:
    r = subprocess.run(["git", "-C", wt, "apply", patch], capture_output=True)
    if r.returncode:
        subprocess.run(["patch", "-p1", "-F3", "-s", "-d", wt, "-i", patch])
    trees = {}
    for m in MODULES:
        with warnings.catch_warnings():
            warnings.simplefilter("ignore")
            trees[m] = normalise(ast.parse(open(os.path.join(wt, "EoN", m + ".py")).read()))
    canonicalise_calls(trees)
    ref = canon.load_reference()
    csigs, rsigs = canon.signatures_of(trees), canon.signatures_of(ref)
    for m, q, container, idx, n, r, hc, hr in canon.changed_functions(trees, ref):
        dc, fc = canon.canonical(n, hc, csigs, canon._cls_of(canon._classes(trees), m, q))
        dr, fr = canon.canonical(r, hr, rsigs, canon._cls_of(canon._classes(ref), m, q))
        print("==", m, q, "EQUIVALENT" if dc == dr else "DIFFERENT", "helpers:", list(hc), list(hr))
        if dc != dr:
            from sa import alpha as A
            def alpha_text(f):
                f = copy.deepcopy(f)
                a = A._Alpha(f); idx = {k: i for i, k in enumerate(a.order)}
                for node, attr, key in a.sites: setattr(node, attr, "v%d" % idx[key])
                return ast.unparse(f).splitlines()
            for l in list(difflib.unified_diff(alpha_text(fr), alpha_text(fc), "reference", "current", lineterm="", n=1))[:int(sys.argv[2]) if len(sys.argv) > 2 else 60]:
                print(l)
finally:
    subprocess.run(["git", "-C", "/repo", "worktree", "remove", "--force", wt])
