#!/venv/bin/python
"""Markdown table of /verif/seeded: id, what was changed, what it needs, which checks (rules) catch it."""
import json, glob, os
rows = []
for mj in sorted(glob.glob("/verif/seeded/*/meta.json")):
    m = json.load(open(mj))
    sid = os.path.basename(os.path.dirname(mj))
    cb = m.get("caught_by") or {}
    own = m["property"] in cb
    caught = "; ".join("%s (%s)" % (p, ", ".join(r)) for p, r in sorted(cb.items())) or "**missed**"
    summ = (m.get("summary") or "").replace("|", "/").replace("\n", " ")
    if len(summ) > 170:
        summ = summ[:167] + "..."
    rows.append("| %s | %s | %s | %s |" % (sid, summ, "yes" if own else ("other checks only" if cb else "no"), caught))
print("| seed | change (sub-agent's summary) | caught by its own property's check | checks (rules) that report it |")
print("|---|---|---|---|")
print("\n".join(rows))
