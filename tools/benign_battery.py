#!/venv/bin/python
"""Whole-tree behaviour-preserving transformations of /repo's EoN package; every check must stay silent.
usage: benign_battery.py [names...]"""
import ast, os, sys, shutil, tempfile, subprocess, warnings
sys.path.insert(0, "/verif")
from sa.core import MODULES
from sa import props as P

def load(root):
    out = {}
    for m in MODULES:
        with warnings.catch_warnings():
            warnings.simplefilter("ignore")
            out[m] = ast.parse(open(os.path.join(root, "EoN", m + ".py")).read())
    return out

def t_roundtrip(trees):
    return trees

def t_prints(trees):
    """a progress print at the top of every loop body and function body"""
    class T(ast.NodeTransformer):
        def visit_For(self, n):
            self.generic_visit(n); n.body.insert(0, ast.parse("print('.', end='')").body[0]); return n
        def visit_While(self, n):
            self.generic_visit(n); n.body.insert(0, ast.parse("print('.', end='')").body[0]); return n
    for m, t in trees.items():
        T().visit(t); ast.fix_missing_locations(t)
    return trees

def t_extra_param(trees):
    """every public module-level function gains a trailing keyword parameter"""
    for m, t in trees.items():
        for st in t.body:
            if isinstance(st, ast.FunctionDef) and not st.name.startswith("_") and st.args.kwarg is None:
                st.args.kwonlyargs.append(ast.arg("verbose")); st.args.kw_defaults.append(ast.Constant(False))
        ast.fix_missing_locations(t)
    return trees

def t_docstrings(trees):
    """all docstrings replaced"""
    for m, t in trees.items():
        for n in ast.walk(t):
            if isinstance(n, (ast.FunctionDef, ast.ClassDef)) and n.body and isinstance(n.body[0], ast.Expr) and \
                    isinstance(getattr(n.body[0], "value", None), ast.Constant) and isinstance(n.body[0].value.value, str):
                n.body[0].value.value = "doc"
    return trees

def t_helper(trees):
    """unrelated helper functions and a module constant are added to every module"""
    for m, t in trees.items():
        t.body += ast.parse("_VERSION_TAG = 'x'\ndef _unrelated_helper_(a, b=None):\n    if b is None:\n        b = []\n    return [a] + list(b)\n").body
        ast.fix_missing_locations(t)
    return trees

def t_tmp_locals(trees):
    """return expressions are first bound to a temporary"""
    class T(ast.NodeTransformer):
        def visit_FunctionDef(self, n):
            self.generic_visit(n)
            return n
    # only for simple single-name wrappers: skip (kept minimal)
    return trees

def t_compare_mirror(trees):
    """a < b  ->  b > a for comparisons against tmax"""
    class T(ast.NodeTransformer):
        def visit_Compare(self, n):
            self.generic_visit(n)
            if len(n.ops) == 1 and isinstance(n.ops[0], ast.Lt) and isinstance(n.comparators[0], ast.Name) and n.comparators[0].id == "tmax":
                return ast.Compare(left=n.comparators[0], ops=[ast.Gt()], comparators=[n.left])
            return n
    for m, t in trees.items():
        T().visit(t); ast.fix_missing_locations(t)
    return trees

def t_is_not_none_style(trees):
    """`x is not None` -> `not x is None`"""
    class T(ast.NodeTransformer):
        def visit_Compare(self, n):
            self.generic_visit(n)
            if len(n.ops) == 1 and isinstance(n.ops[0], ast.IsNot) and isinstance(n.comparators[0], ast.Constant) and n.comparators[0].value is None:
                return ast.UnaryOp(op=ast.Not(), operand=ast.Compare(left=n.left, ops=[ast.Is()], comparators=n.comparators))
            return n
    for m, t in trees.items():
        T().visit(t); ast.fix_missing_locations(t)
    return trees

def t_rename_locals(trees):
    """every local variable (not a parameter, not a nested function) of every function gets the suffix _x"""
    import builtins
    for m, t in trees.items():
        glob = set()
        for st in t.body:
            for n in ast.walk(st) if isinstance(st, (ast.Import, ast.ImportFrom, ast.Assign)) else []:
                if isinstance(n, ast.alias):
                    glob.add((n.asname or n.name).split(".")[0])
                if isinstance(n, ast.Name):
                    glob.add(n.id)
            if isinstance(st, (ast.FunctionDef, ast.ClassDef)):
                glob.add(st.name)
        def do_func(fn, outer_locals):
            params = {a.arg for a in fn.args.posonlyargs + fn.args.args + fn.args.kwonlyargs}
            if fn.args.vararg: params.add(fn.args.vararg.arg)
            if fn.args.kwarg: params.add(fn.args.kwarg.arg)
            locs = set()
            nested = []
            stack = list(fn.body)
            while stack:
                n = stack.pop()
                if isinstance(n, (ast.FunctionDef, ast.ClassDef)):
                    nested.append(n); continue
                if isinstance(n, ast.Lambda):
                    continue
                if isinstance(n, ast.Name) and isinstance(n.ctx, (ast.Store, ast.Del)):
                    locs.add(n.id)
                stack.extend(ast.iter_child_nodes(n))
            locs -= params
            ren = {x: x + "_x" for x in locs}
            ren.update({k: v for k, v in outer_locals.items() if k not in params and k not in locs})
            stack = list(fn.body)
            while stack:
                n = stack.pop()
                if isinstance(n, (ast.FunctionDef, ast.ClassDef)):
                    continue
                if isinstance(n, ast.Name) and n.id in ren:
                    # lambda parameters shadow: keep simple, lambdas in this code base do not shadow locals
                    n.id = ren[n.id]
                stack.extend(ast.iter_child_nodes(n))
            for nf in nested:
                if isinstance(nf, ast.FunctionDef):
                    do_func(nf, ren)
        for st in t.body:
            if isinstance(st, ast.FunctionDef):
                do_func(st, {})
            elif isinstance(st, ast.ClassDef):
                for b in st.body:
                    if isinstance(b, ast.FunctionDef):
                        do_func(b, {})
        ast.fix_missing_locations(t)
    return trees

def t_augassign(trees):
    """x = x + e  ->  x += e  for plain names (numbers in this code base)"""
    class T(ast.NodeTransformer):
        def visit_Assign(self, n):
            if len(n.targets) == 1 and isinstance(n.targets[0], ast.Name) and isinstance(n.value, ast.BinOp) \
                    and isinstance(n.value.op, (ast.Add, ast.Sub)) and isinstance(n.value.left, ast.Name) \
                    and n.value.left.id == n.targets[0].id and n.targets[0].id in ("t", "r", "n", "k"):
                return ast.copy_location(ast.AugAssign(target=ast.Name(id=n.targets[0].id, ctx=ast.Store()), op=n.value.op, value=n.value.right), n)
            return n
    for m, t in trees.items():
        T().visit(t); ast.fix_missing_locations(t)
    return trees

def t_order_len(trees):
    """G.order() -> len(G)"""
    class T(ast.NodeTransformer):
        def visit_Call(self, n):
            self.generic_visit(n)
            if isinstance(n.func, ast.Attribute) and n.func.attr == "order" and isinstance(n.func.value, ast.Name) and n.func.value.id == "G" and not n.args:
                return ast.copy_location(ast.Call(func=ast.Name(id="len", ctx=ast.Load()), args=[n.func.value], keywords=[]), n)
            return n
    for m, t in trees.items():
        T().visit(t); ast.fix_missing_locations(t)
    return trees

def t_inf_spelling(trees):
    """float('Inf') -> float('inf')"""
    for m, t in trees.items():
        for n in ast.walk(t):
            if isinstance(n, ast.Constant) and n.value == "Inf":
                n.value = "inf"
    return trees

def t_annotations(trees):
    """return annotations and a few parameter annotations are added"""
    for m, t in trees.items():
        for n in ast.walk(t):
            if isinstance(n, ast.FunctionDef):
                for a in n.args.args:
                    if a.arg in ("tmin", "tmax", "tau", "gamma"):
                        a.annotation = ast.Name(id="float", ctx=ast.Load())
        ast.fix_missing_locations(t)
    return trees

def t_keys_iter(trees):
    """for k in d.keys() -> for k in d"""
    class T(ast.NodeTransformer):
        def visit_For(self, n):
            self.generic_visit(n)
            if isinstance(n.iter, ast.Call) and isinstance(n.iter.func, ast.Attribute) and n.iter.func.attr == "keys" and not n.iter.args:
                n.iter = n.iter.func.value
            return n
    for m, t in trees.items():
        T().visit(t); ast.fix_missing_locations(t)
    return trees

def t_positional_to_keyword(trees):
    """calls between package functions pass every positional argument after the first by keyword"""
    sigs = {}
    for m, t in trees.items():
        for st in t.body:
            if isinstance(st, ast.FunctionDef):
                sigs[st.name] = [a.arg for a in st.args.args]
    class T(ast.NodeTransformer):
        def visit_Call(self, n):
            self.generic_visit(n)
            name = n.func.id if isinstance(n.func, ast.Name) else (n.func.attr if isinstance(n.func, ast.Attribute) and isinstance(n.func.value, ast.Name) and n.func.value.id == "EoN" else None)
            if name in sigs and not any(isinstance(a, ast.Starred) for a in n.args) and len(n.args) <= len(sigs[name]) and len(n.args) > 1:
                ps = sigs[name]
                newkw = [ast.keyword(arg=ps[i], value=a) for i, a in enumerate(n.args) if i >= 1]
                n.args = n.args[:1]
                n.keywords = newkw + n.keywords
            return n
    for m, t in trees.items():
        T().visit(t); ast.fix_missing_locations(t)
    return trees

BATTERY = {"roundtrip": t_roundtrip, "prints": t_prints, "extra_param": t_extra_param, "docstrings": t_docstrings,
           "helper": t_helper, "compare_mirror": t_compare_mirror, "is_not_none_style": t_is_not_none_style, "rename_locals": t_rename_locals, "augassign": t_augassign, "order_len": t_order_len,
           "inf_spelling": t_inf_spelling, "annotations": t_annotations, "keys_iter": t_keys_iter, "positional_to_keyword": t_positional_to_keyword}

names = sys.argv[1:] or list(BATTERY)


def run_one(nm):
    tmp = tempfile.mkdtemp(prefix="benign_")
    try:
        os.makedirs(os.path.join(tmp, "EoN"))
        trees = BATTERY[nm](load("/repo"))
        for m, t in trees.items():
            open(os.path.join(tmp, "EoN", m + ".py"), "w").write(ast.unparse(t))
        r = subprocess.run(["/venv/bin/python", "-W", "ignore", "-m", "sa.multi", "--repo", tmp], cwd="/verif", capture_output=True, text=True)
        bad = [l for l in r.stdout.splitlines() if " rc=" in l]
        if r.returncode != 0 and not bad:
            bad = ["HARNESS-ERROR " + r.stderr[-300:]]
        return "%-22s %s" % (nm, "silent on all %d checks" % len(P.PROPS) if not bad else "ALARMS: " + " | ".join(bad))
    finally:
        shutil.rmtree(tmp, ignore_errors=True)


from concurrent.futures import ThreadPoolExecutor
with ThreadPoolExecutor(4) as ex:
    for line in ex.map(run_one, names):
        print(line, flush=True)
