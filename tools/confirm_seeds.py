#!/venv/bin/python
"""Confirm candidate seeded changes: patch applies to /repo HEAD, demo fails with it and passes
without it, the pinned baseline suite (32 stable tests) still passes with it.
usage: confirm_seeds.py <candidates dir> <out dir> [--jobs N] [ids...]"""
import subprocess, sys, os, json, glob, tempfile, time, xml.etree.ElementTree as ET
from concurrent.futures import ThreadPoolExecutor

root, out = sys.argv[1], sys.argv[2]
args = sys.argv[3:]
jobs = 2
if "--jobs" in args:
    jobs = int(args[args.index("--jobs") + 1]); del args[args.index("--jobs"):args.index("--jobs") + 2]
only = set(args)
os.makedirs(out, exist_ok=True)
BASE = json.load(open("/root/.vp/BASELINE.json"))
STABLE = set(BASE["stable_pass"])
ENV = dict(os.environ, MPLBACKEND="Agg", PYTHONWARNINGS="ignore")


def run(cmd, **kw):
    return subprocess.run(cmd, capture_output=True, text=True, **kw)


def confirm(patch):
    sid = os.path.relpath(os.path.dirname(patch), root).replace("/", "-")
    res = {"id": sid, "patch": patch}
    wt = tempfile.mkdtemp(prefix="cs_", dir="/tmp"); os.rmdir(wt)
    run(["git", "-C", "/repo", "worktree", "add", "-q", "--detach", wt, "HEAD"])
    try:
        r = run(["git", "-C", wt, "apply", patch])
        if r.returncode != 0:
            r = run(["patch", "-p1", "-F3", "-s", "-d", wt, "-i", patch])
            for junk in glob.glob(wt + "/EoN/*.rej") + glob.glob(wt + "/EoN/*.orig"):
                os.remove(junk)
            if r.returncode != 0:
                res["status"] = "apply-failed"; return res
        res["diff_vs_head"] = run(["git", "-C", wt, "diff"]).stdout
        env = dict(ENV, PYTHONPATH=wt)
        demo = os.path.join(os.path.dirname(patch), "demo.py")
        t0 = time.time()
        try:
            d1 = run(["/venv/bin/python", "-W", "ignore", demo], env=env, cwd=wt, timeout=300)
            res["demo_patched_exit"] = d1.returncode
            res["demo_patched_tail"] = (d1.stdout + d1.stderr)[-400:]
        except subprocess.TimeoutExpired:
            res["demo_patched_exit"] = "timeout"
        res["demo_s"] = round(time.time() - t0, 1)
        # baseline suite with the change
        junit = os.path.join(out, sid + ".junit.xml")
        t0 = time.time()
        run(["/venv/bin/python", "-m", "pytest", "-q", "-p", "no:cacheprovider", "--timeout=900", "--continue-on-collection-errors",
             "-n", "6", "--junitxml=" + junit], env=env, cwd=wt)
        res["suite_s"] = round(time.time() - t0, 1)
        passed = set()
        try:
            for tc in ET.parse(junit).getroot().iter("testcase"):
                if not list(tc):
                    passed.add("%s::%s" % (tc.get("classname"), tc.get("name")))
        except Exception as e:
            res["junit_error"] = str(e)
        res["stable_missing"] = sorted(STABLE - passed)
        res["n_passed"] = len(passed)
        # demo on the clean tree
        run(["git", "-C", wt, "reset", "-q", "--hard", "HEAD"]); run(["git", "-C", wt, "clean", "-fdq"])
        try:
            d0 = run(["/venv/bin/python", "-W", "ignore", demo], env=env, cwd=wt, timeout=300)
            res["demo_clean_exit"] = d0.returncode
            if d0.returncode != 0:
                res["demo_clean_tail"] = (d0.stdout + d0.stderr)[-400:]
        except subprocess.TimeoutExpired:
            res["demo_clean_exit"] = "timeout"
        ok = res.get("demo_patched_exit") not in (0, "timeout") and res.get("demo_clean_exit") == 0 and not res["stable_missing"]
        res["status"] = "confirmed" if ok else "rejected"
        return res
    finally:
        run(["git", "-C", "/repo", "worktree", "remove", "--force", wt])
        json.dump(res, open(os.path.join(out, sid + ".json"), "w"), indent=1)
        print(sid, res.get("status"), res.get("demo_patched_exit"), res.get("demo_clean_exit"), res.get("stable_missing"), flush=True)


patches = sorted(glob.glob(os.path.join(root, "**", "patch.diff"), recursive=True))
if only:
    patches = [p for p in patches if os.path.relpath(os.path.dirname(p), root).replace("/", "-") in only]
patches = [p for p in patches if not os.path.exists(os.path.join(out, os.path.relpath(os.path.dirname(p), root).replace("/", "-") + ".json"))]
with ThreadPoolExecutor(jobs) as ex:
    list(ex.map(confirm, patches))
