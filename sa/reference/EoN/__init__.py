r'''
EoN (Epidemics on Networks)

EoN is a Python package for the simulation of epidemics on networks 
and ODE models of disease spread.

The algorithms are based on the book
        
`Mathematics of epidemics on networks: from exact to approximate 
models`
by Kiss, Miller & Simon
        http://www.springer.com/book/9783319508047
        
For simulations, we assume that input networks are **NetworkX** 
graphs; see https://networkx.github.io/

The documentation is maintained at 

      https://epidemicsonnetworks.readthedocs.io/en/latest/
      
      

If you use the package in work that leads to a publication, please check 
EoN.__citation__() for citation information.




EoN consists of two sets of algorithms.  

- The first deals with simulation of epidemics on networks.  The most significant of these are `fast_SIS` and `fast_SIR` which significantly outperform Gillespie algorithms (also included).  These algorithms are discussed in more detail in the appendix of the book.


- The second deals with solution of systems of equations derived in the book.  For these it is possible to either provide the degree distribution, or simply use a network and let the code determine the degree distribution.


- There are a few additional algorithms which are not described in the book, but which we believe will be useful. Most notably, the some of the visualization/animation commands.

Distributed under MIT license.  See :download:`license.txt<../license.txt>` for full details.


Auxiliary functions
-------------------
We start with a few useful auxiliary functions

'''

__author__ = "Joel C. Miller, with tests written by Tony Ting"
__version__ = "1.2rc1"
def __citation__():
    print("To cite this software, please use the Journal of Open Source\n" + \
              " Software publication https://doi.org/10.21105/joss.01731" + \
              "\n\n" + \
              "If you use one of the ODE models, you should cite\n" + \
              "a source, such as the text:\n\n" + \
              r"@book{kiss:EoN," + "\n" + \
              r"    title = {Mathematics of Epidemics on Networks: from Exact to Approximate Models}," + "\n" + \
              r"    author={Kiss, Istvan Z and Miller, Joel C and Simon, P{\'e}ter L}," + "\n" + \
              r"    publisher = {Springer}," + "\n" + \
              r"    series = {IAM}," + "\n" + \
              r"    year={2017}" + "\n" + \
              r"}" + "\n\n" + \
              "You should also consider citing networkx:\n\n" + \
              r"@inproceedings{hagberg2008exploring,"+"\n" + \
              r"    title={Exploring network structure, dynamics, and function using NetworkX}," + "\n" + \
              r"    organization={Citeseer}, "+"\n" + \
              r"    author={Hagberg, Aric and Swart, Pieter and Schult, Daniel},"+"\n" + \
              r"    year={2008},"+"\n" + \
              r"    booktitle={Proceedings of the 7th Python in Science Conference (SciPy)}" + "\n" + \
              r"}")

              

#__all__ = 

class EoNError(Exception):
    r'''
    this will be the basic error type for EoN.
    '''
    pass

def _get_rate_functions_(G, tau, gamma, transmission_weight = None, 
                        recovery_weight=None):
    r'''
    Arguments : 
        G : networkx Graph
            the graph disease spreads on

        tau : number
            disease parameter giving edge transmission rate (subject to edge scaling)

        gamma : number (default None)
            disease parameter giving typical recovery rate, 
        
        transmission_weight : string (default None)
            The attribute name under which transmission rates are saved.
            `G.adj[u][v][transmission_weight]` scales up or down the recovery rate.
            (note this is G.edge[u][v][..] in networkx 1.x and
            G.edges[u,v][..] in networkx 2.x.
            The backwards compatible version is G.adj[u][v]
            https://networkx.github.io/documentation/stable/release/migration_guide_from_1.x_to_2.0.html)

        recovery_weight : string       (default None)
            a label for a weight given to the nodes to scale their 
            recovery rates
                `gamma_i = G.node[i][recovery_weight]*gamma`
    Returns : 
        : trans_rate_fxn, rec_rate_fxn
            Two functions such that 
            - `trans_rate_fxn(u,v)` is the transmission rate from u to v and
            - `rec_rate_fxn(u)` is the recovery rate of u.
'''
    if transmission_weight is None:
        trans_rate_fxn = lambda x, y: tau
    else:
        try:
            trans_rate_fxn = lambda x, y: tau*G.adj[x][y][transmission_weight]
        except AttributeError: #apparently you have networkx v1.x not v2.x
            trans_rate_fxn = lambda x, y: tau*G.edge[x][y][transmission_weight]

    if recovery_weight is None:
        rec_rate_fxn = lambda x : gamma
    else:
        rec_rate_fxn = lambda x : gamma*G.nodes[x][recovery_weight]


    return trans_rate_fxn, rec_rate_fxn


import EoN.auxiliary
from EoN.auxiliary import *
import EoN.simulation
from EoN.simulation import *
import EoN.analytic
from EoN.analytic import *
import EoN.simulation_investigation
from EoN.simulation_investigation import *


'''
These are the systems I still want to include:

(8.1) SIS pairwise contact conserving rewiring
(8.5) SIS eff. deg. contact conserving rewiring
(8.7) SIS pairwise random activation/deletion
(8.13) SIS eff. deg. random activation/deletion
(8.15) SIS pairwise link-status dependent act/del
(8.16) SIS link deactivation-activation on fixed networks.
(8.19) EBCM dynamic network

(9.5) SI^{K}R multistage pairwise for homogeneous
(9.27) SIR pairwise, constant infection duration.
(9.35) SIR homogeneous pairwise, general recovery
(9.36) SIR EBCM non-Markovian trans/recovery

'''

