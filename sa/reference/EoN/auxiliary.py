import networkx as nx
import EoN
import numpy as np
import random

def subsample(report_times, times, status1, status2=None, 
                status3 = None):
    r'''
    Given a list/array of times to report at, returns the number of nodes of 
    each status at those times.

    returns them 
      subsampled at specific report_times.
    

    :Arguments: 

    **report_times** iterable (ordered)
        times at which we want to know state of system
                   
    **times** iterable (ordered)
        times at which we have the system state (assumed no change 
        between these times)
            
    **status1**  iterable 
        generally S, I, or R
        
        number of nodes in given status at corresponding time in times.
        
    **status2**  iterable  (optional, default None)
        generally S, I, or R
        
        number of nodes in given status at corresponding time in times.

    **status3**  iterable (optional, default None)
        generally S, I, or R
        
        number of nodes in given status at corresponding time in times.
                                
    :Returns:

    If only status1 is defined
        **report_status1** numpy array 
        gives ``status1`` subsampled just at ``report_times``.
                     
    If more are defined then it returns a list, either
        **[report_status1, report_status2]**
    or
        **[report_status1, report_status2, report_status3]**
    In each case, these are subsampled just at report_times.

    :SAMPLE USE:

    ::

        import networkx as nx
        import EoN
        import numpy as np
        import matplotlib.pyplot as plt

        """ in this example we will run 100 stochastic simulations.
            Each simulation will produce output at a different set
            of times.  In order to calculate an average we will use
            subsample to find the epidemic sizes at a specific set
            of times given by report_times.
        """

        G = nx.fast_gnp_random_graph(10000,0.001)
        tau = 1.
        gamma = 1.
        report_times = np.linspace(0,5,101)
        Ssum = np.zeros(len(report_times))
        Isum = np.zeros(len(report_times))
        Rsum = np.zeros(len(report_times))
        iterations = 100
        for counter in range(iterations): 
            t, S, I, R = EoN.fast_SIR(G, tau, gamma, initial_infecteds = range(10))
            #t, S, I, and R have an entry for every single event.
            newS, newI, newR = EoN.subsample(report_times, t, S, I, R)
            #could also do: newI = EoN.subsample(report_times, t, I)
            plt.plot(report_times, newS, linewidth=1, alpha = 0.4)
            plt.plot(report_times, newI, linewidth=1, alpha = 0.4)
            plt.plot(report_times, newR, linewidth=1, alpha = 0.4)
            Ssum += newS
            Isum += newI
            Rsum += newR
        Save = Ssum / float(iterations)
        Iave = Isum / float(iterations)
        Rave = Rsum / float(iterations)
        plt.plot(report_times, Save, "--", linewidth = 5, label = "average")
        plt.plot(report_times, Iave, "--", linewidth = 5)
        plt.plot(report_times, Rave, "--", linewidth = 5)
        plt.legend(loc = "upper right")
        plt.savefig("tmp.pdf")

    If only one of the sample times is given then returns just that.

    If report_times goes longer than times, then this simply assumes the 
    system freezes in the final state.
    
    This uses a recursive approach if multiple arguments are defined.


    '''
    if report_times[0] < times[0]:
        raise EoN.EoNError("report_times[0]<times[0]")
        
    report_status1 = []
    next_report_index = 0
    next_observation_index = 0
    while next_report_index < len(report_times):
        while next_observation_index < len(times) and \
              times[next_observation_index]<= report_times[next_report_index]:
            candidate = status1[next_observation_index]
            next_observation_index += 1
        report_status1.append(candidate)
        next_report_index +=1
        
    report_status1= np.array(report_status1)
    
    if status2 is not None:
        if status3 is not None:
            report_status2, report_status3 = subsample(report_times, times, status2, status3)
            return report_status1, report_status2, report_status3
        else:
            report_status2 = subsample(report_times, times, status2)
            return report_status1, report_status2
    else:
        return report_status1



def get_time_shift(times, L, threshold):
    r'''
    Identifies the first time at which list/array L crosses a threshold.  
    Useful for shifting times.
    
    :Arguments: 
    **times** list or numpy array (ordered)
        the times we have observations
    **L** a list or numpy array
        order of L corresponds to times
    **threshold** number
        the threshold value

    :Returns:
        
    **t**  number
        the first time at which L reaches or exceeds threshold.

    :SAMPLE USE:

    ::

        import networkx as nx
        import EoN
        import numpy as np
        import matplotlib.pyplot as plt

        """ in this example we will run 20 stochastic simulations.
            We plot the unshifted curves (grey) and the curves shifted 
            so that t=0 when 1% have been infected (I+R = 0.01N) (red)
        """
        plt.clf() # just clearing any previous plotting.
        
        N=100000
        kave = 10.
        G = nx.fast_gnp_random_graph(N,kave/(N-1.))
        tau = 0.2
        gamma = 1.
        report_times = np.linspace(0,5,101)
        Ssum = np.zeros(len(report_times))
        Isum = np.zeros(len(report_times))
        Rsum = np.zeros(len(report_times))
        iterations = 20
        for counter in range(iterations):
            R=[0]
            while R[-1]<1000: #if an epidemic doesn't happen, repeat
                t, S, I, R = EoN.fast_SIR(G, tau, gamma)
                print R[-1]
            plt.plot(t, I, linewidth = 1, color = 'gray', alpha=0.4)
            tshift = EoN.get_time_shift(t, I+R, 0.01*N)
            plt.plot(t-tshift, I, color = 'red', linewidth = 1, alpha = 0.4)
        plt.savefig("timeshift_demonstration.pdf")
    '''
    
    for index, t in enumerate(times):
        if L[index]>= threshold:
            break
    return t

def hierarchy_pos(G, root=None, width=1., vert_gap = 0.2, vert_loc = 0, leaf_vs_root_factor = 0.5):

    '''
    If the graph is a tree this will return the positions to plot this in a 
    hierarchical layout.
    
    Based on Joel's answer at https://stackoverflow.com/a/29597209/2966723,
    but with some modifications.  

    We include this because it may be useful for plotting transmission trees,
    and there is currently no networkx equivalent (though it may be coming soon).
    
    There are two basic approaches we think of to allocate the horizontal 
    location of a node.  
    
    - Top down: we allocate horizontal space to a node.  Then its ``k`` 
      descendants split up that horizontal space equally.  This tends to result
      in overlapping nodes when some have many descendants.
    - Bottom up: we allocate horizontal space to each leaf node.  A node at a 
      higher level gets the entire space allocated to its descendant leaves.
      Based on this, leaf nodes at higher levels get the same space as leaf
      nodes very deep in the tree.  
      
    We use use both of these approaches simultaneously with ``leaf_vs_root_factor`` 
    determining how much of the horizontal space is based on the bottom up 
    or top down approaches.  ``0`` gives pure bottom up, while 1 gives pure top
    down.   
    
    
    :Arguments: 
    
    **G** the graph (must be a tree)

    **root** the root node of the tree 
    - if the tree is directed and this is not given, the root will be found and used
    - if the tree is directed and this is given, then the positions will be 
      just for the descendants of this node.
    - if the tree is undirected and not given, then a random choice will be used.

    **width** horizontal space allocated for this branch - avoids overlap with other branches

    **vert_gap** gap between levels of hierarchy

    **vert_loc** vertical location of root
    
    **leaf_vs_root_factor**

    xcenter: horizontal location of root
    '''
    if not nx.is_tree(G):
        raise TypeError('cannot use hierarchy_pos on a graph that is not a tree')

    if root is None:
        if isinstance(G, nx.DiGraph):
            root = next(iter(nx.topological_sort(G)))  #allows back compatibility with nx version 1.11
        else:
            root = random.choice(list(G.nodes))

    def _hierarchy_pos(G, root, leftmost, width, leafdx = 0.2, vert_gap = 0.2, vert_loc = 0, 
                    xcenter = 0.5, rootpos = None, 
                    leafpos = None, parent = None):
        '''
        see hierarchy_pos docstring for most arguments

        pos: a dict saying where all nodes go if they have been assigned
        parent: parent of this branch. - only affects it if non-directed

        '''

        if rootpos is None:
            rootpos = {root:(xcenter,vert_loc)}
        else:
            rootpos[root] = (xcenter, vert_loc)
        if leafpos is None:
            leafpos = {}
        children = list(G.neighbors(root))
        leaf_count = 0
        if not isinstance(G, nx.DiGraph) and parent is not None:
            children.remove(parent)  
        if len(children)!=0:
            rootdx = width/len(children)
            nextx = xcenter - width/2 - rootdx/2
            for child in children:
                nextx += rootdx
                rootpos, leafpos, newleaves = _hierarchy_pos(G,child, leftmost+leaf_count*leafdx, 
                                    width=rootdx, leafdx=leafdx,
                                    vert_gap = vert_gap, vert_loc = vert_loc-vert_gap, 
                                    xcenter=nextx, rootpos=rootpos, leafpos=leafpos, parent = root)
                leaf_count += newleaves

            leftmostchild = min((x for x,y in [leafpos[child] for child in children]))
            rightmostchild = max((x for x,y in [leafpos[child] for child in children]))
            leafpos[root] = ((leftmostchild+rightmostchild)/2, vert_loc)
        else:
            leaf_count = 1
            leafpos[root]  = (leftmost, vert_loc)
#        pos[root] = (leftmost + (leaf_count-1)*dx/2., vert_loc)
#        print(leaf_count)
        return rootpos, leafpos, leaf_count

    xcenter = width/2.
    if isinstance(G, nx.DiGraph):
        leafcount = len([node for node in nx.descendants(G, root) if G.out_degree(node)==0])
    elif isinstance(G, nx.Graph):
        leafcount = len([node for node in nx.node_connected_component(G, root) if G.degree(node)==1 and node != root])
    rootpos, leafpos, leaf_count = _hierarchy_pos(G, root, 0, width, 
                                                    leafdx=width*1./leafcount, 
                                                    vert_gap=vert_gap, 
                                                    vert_loc = vert_loc, 
                                                    xcenter = xcenter)
    pos = {}
    for node in rootpos:
        pos[node] = (leaf_vs_root_factor*leafpos[node][0] + (1-leaf_vs_root_factor)*rootpos[node][0], leafpos[node][1]) 
#    pos = {node:(leaf_vs_root_factor*x1+(1-leaf_vs_root_factor)*x2, y1) for ((x1,y1), (x2,y2)) in (leafpos[node], rootpos[node]) for node in rootpos}
    xmax = max(x for x,y in pos.values())
    for node in pos:
        pos[node]= (pos[node][0]*width/xmax, pos[node][1])
    return pos




