# Positive fixture for rule R7a: every statement below must be reported.
# (never imported or executed; parsed only)
import time
import os
import secrets
import uuid
from random import random as rnd
import random as r2


def bad(G):
    rng = random.Random(4)
    gen = np.random.default_rng()
    rs = np.random.RandomState(1)
    random.seed(time.time())
    np.random.seed(0)
    x = os.urandom(4)
    y = hash(G) % 7
    z = id(G)
    return secrets.randbelow(3), uuid.uuid4()
