"""Syntax-directed control context: for every statement of a function, the
branch facts that are known to hold whenever it executes.

The code base is structured (no goto, few early exits), so "statement S is
dominated by test T taking its true arm, and no name T reads is reassigned in
between" is computed by one recursive walk instead of a dominator tree:

* entering `if T:` adds (T, True) to the body and (T, False) to the else arm;
* an arm that always leaves (raise / return / continue / break) adds the
  opposite fact to everything after the `if`;
* `while T:` adds (T, True) at the start of its body;
* a fact is dropped as soon as a name it reads is (re)assigned, mutated through
  a subscript/attribute store or a known mutator method, and facts from outside
  a loop that read names assigned anywhere inside the loop do not enter it.
* `and` / `or` / `not` are split into atomic facts.
"""
import ast
from .core import names_in, own_nodes

MUTATORS = {
    "append", "extend", "insert", "pop", "remove", "clear", "sort", "reverse",
    "update", "add", "discard", "setdefault", "popitem", "fill", "resize",
    "itemset", "put", "add_node", "add_nodes_from", "add_edge",
    "add_edges_from", "add_weighted_edges_from", "remove_node",
    "remove_nodes_from", "remove_edge", "remove_edges_from", "clear_edges",
    "random_removal", "appendleft", "popleft", "heappush", "heappop",
}


def atomic_facts(test, pol=True):
    """Split a boolean expression into a list of (expr, polarity) facts that
    all hold when `test` evaluates to `pol`."""
    if isinstance(test, ast.UnaryOp) and isinstance(test.op, ast.Not):
        return atomic_facts(test.operand, not pol)
    if isinstance(test, ast.BoolOp):
        if isinstance(test.op, ast.And) and pol:
            out = []
            for v in test.values:
                out += atomic_facts(v, True)
            return out
        if isinstance(test.op, ast.Or) and not pol:
            out = []
            for v in test.values:
                out += atomic_facts(v, False)
            return out
        return [(test, pol)]
    if isinstance(test, ast.Compare) and len(test.ops) > 1 and pol:
        # a < b < c  ==  a < b and b < c
        out = []
        left = test.left
        for op, right in zip(test.ops, test.comparators):
            out.append((ast.Compare(left=left, ops=[op], comparators=[right]), True))
            left = right
        return out
    return [(test, pol)]


def always_exits(body):
    """True if the statement list cannot fall through."""
    for st in body:
        if isinstance(st, (ast.Return, ast.Raise, ast.Continue, ast.Break)):
            return True
        if isinstance(st, ast.If) and st.orelse and always_exits(st.body) \
                and always_exits(st.orelse):
            return True
    return False


def _chain(e):
    """Dotted path of a Name/Attribute chain (subscripts are skipped:
    a.b[i].c -> 'a.b'), or None."""
    parts = []
    while True:
        if isinstance(e, ast.Attribute):
            parts.append(e.attr)
            e = e.value
        elif isinstance(e, ast.Subscript):
            parts = []          # what is stored through a subscript belongs to the container
            e = e.value
        elif isinstance(e, ast.Name):
            parts.append(e.id)
            return ".".join(reversed(parts))
        else:
            return None


def refs(expr):
    cached = getattr(expr, "_sa_refs", None)
    if cached is None:
        cached = expr._sa_refs = frozenset(_refs(expr))
    return cached


def _refs(expr):
    """All dotted paths an expression reads, with all their prefixes."""
    out = set()
    for n in ast.walk(expr):
        if isinstance(n, (ast.Name, ast.Attribute)):
            parts = []
            e = n
            while isinstance(e, ast.Attribute):
                parts.append(e.attr)
                e = e.value
            if isinstance(e, ast.Name):
                parts.append(e.id)
                parts.reverse()
                for i in range(1, len(parts) + 1):
                    out.add(".".join(parts[:i]))
    return out


def assigned_names(node):
    cached = getattr(node, "_sa_assigned", None)
    if cached is None:
        cached = node._sa_assigned = frozenset(_assigned_names(node))
    return cached


def _assigned_names(node):
    """Paths (names or dotted attribute chains) that are (re)bound or mutated
    anywhere inside `node` (deep, but not inside nested function definitions).
    A store `a.b[i] = v` or `a.b.append(v)` yields 'a.b'; `a.b = v` yields 'a.b';
    a method call `a.m()` with a mutator name yields 'a'."""
    out = set()

    def target(t):
        if isinstance(t, ast.Name):
            out.add(t.id)
        elif isinstance(t, (ast.Tuple, ast.List)):
            for e in t.elts:
                target(e)
        elif isinstance(t, ast.Starred):
            target(t.value)
        elif isinstance(t, ast.Subscript):
            c = _chain(t.value)
            if c:
                out.add(c)
        elif isinstance(t, ast.Attribute):
            c = _chain(t)
            if c:
                out.add(c)

    stack = [node]
    while stack:
        n = stack.pop()
        if isinstance(n, (ast.FunctionDef, ast.AsyncFunctionDef, ast.ClassDef)) and n is not node:
            out.add(n.name)
            continue
        if isinstance(n, ast.Assign):
            for t in n.targets:
                target(t)
        elif isinstance(n, (ast.AugAssign, ast.AnnAssign)):
            target(n.target)
        elif isinstance(n, (ast.For, ast.AsyncFor)):
            target(n.target)
        elif isinstance(n, ast.With):
            for it in n.items:
                if it.optional_vars is not None:
                    target(it.optional_vars)
        elif isinstance(n, ast.Delete):
            for t in n.targets:
                target(t)
        elif isinstance(n, ast.NamedExpr):
            target(n.target)
        elif isinstance(n, ast.Call) and isinstance(n.func, ast.Attribute) \
                and n.func.attr in MUTATORS:
            c = _chain(n.func.value)
            if c:
                out.add(c)
        stack.extend(ast.iter_child_nodes(n))
    return out


class Ctx:
    """Context of one statement."""
    __slots__ = ("stmt", "facts", "loops", "parents")

    def __init__(self, stmt, facts, loops, parents):
        self.stmt = stmt
        self.facts = facts      # tuple of (expr, polarity)
        self.loops = loops      # tuple of enclosing For/While nodes
        self.parents = parents  # tuple of enclosing compound statements

    def enclosing_conditions(self):
        """Facts contributed by the enclosing if/while statements only (no
        early-exit facts): list of (expr, polarity)."""
        out = []
        child = self.stmt
        for par in reversed(self.parents):
            if isinstance(par, ast.If):
                if any(x is child for x in par.body):
                    out = atomic_facts(par.test, True) + out
                elif any(x is child for x in par.orelse):
                    out = atomic_facts(par.test, False) + out
            elif isinstance(par, ast.While):
                if any(x is child for x in par.body):
                    out = atomic_facts(par.test, True) + out
            child = par
        return out


def walk_function(fnode):
    """Ctx for every statement of the function (not nested defs); memoised on the node (rules never mutate the tree)."""
    cached = getattr(fnode, "_sa_ctxs", None)
    if cached is None:
        cached = fnode._sa_ctxs = tuple(_walk(fnode.body, [], (), ()))
    return cached


def _drop(facts, names):
    if not names:
        return facts
    return [f for f in facts if not (refs(f[0]) & names)]


def _walk(body, facts, loops, parents):
    facts = list(facts)
    for st in body:
        yield Ctx(st, tuple(facts), loops, parents)
        par = parents + (st,)
        if isinstance(st, ast.If):
            yield from _walk(st.body, facts + atomic_facts(st.test, True), loops, par)
            yield from _walk(st.orelse, facts + atomic_facts(st.test, False), loops, par)
            mod = assigned_names(st)
            exits_t = always_exits(st.body)
            exits_f = bool(st.orelse) and always_exits(st.orelse)
            facts = _drop(facts, mod)
            if exits_t and not exits_f:
                new = atomic_facts(st.test, False)
                # the else arm ran (if any): facts about names it changed die
                facts += _drop(new, assigned_names(ast.Module(body=st.orelse, type_ignores=[])) if st.orelse else set())
            elif exits_f and not exits_t:
                new = atomic_facts(st.test, True)
                facts += _drop(new, assigned_names(ast.Module(body=st.body, type_ignores=[])))
        elif isinstance(st, ast.While):
            mod = assigned_names(st)
            inner = _drop(facts, mod)
            yield from _walk(st.body, inner + atomic_facts(st.test, True), loops + (st,), par)
            yield from _walk(st.orelse, inner, loops, par)
            facts = _drop(facts, mod)
            has_break = any(isinstance(n, ast.Break) for n in ast.walk(st))
            if not has_break:
                facts += atomic_facts(st.test, False)
        elif isinstance(st, (ast.For, ast.AsyncFor)):
            mod = assigned_names(st)
            inner = _drop(facts, mod)
            yield from _walk(st.body, inner, loops + (st,), par)
            yield from _walk(st.orelse, inner, loops, par)
            facts = _drop(facts, mod)
        elif isinstance(st, ast.Try):
            mod = assigned_names(st)
            yield from _walk(st.body, facts, loops, par)
            base = _drop(facts, mod)
            for h in st.handlers:
                yield from _walk(h.body, base, loops, par)
            yield from _walk(st.orelse, base, loops, par)
            yield from _walk(st.finalbody, base, loops, par)
            facts = base
        elif isinstance(st, (ast.With, ast.AsyncWith)):
            yield from _walk(st.body, facts, loops, par)
            facts = _drop(facts, assigned_names(st))
        elif isinstance(st, (ast.FunctionDef, ast.AsyncFunctionDef, ast.ClassDef)):
            facts = _drop(facts, {st.name})
        else:
            facts = _drop(facts, assigned_names(st))


def stmt_of(fnode, node):
    """Ctx of the innermost statement containing `node`."""
    best = None
    for c in walk_function(fnode):
        for n in _own_expr_nodes(c.stmt):
            if n is node:
                best = c
    return best


def _own_expr_nodes(st):
    """Nodes that belong to statement `st` itself: its expressions, not the
    statements nested in its body."""
    yield st
    for field, value in ast.iter_fields(st):
        if field in ("body", "orelse", "finalbody", "handlers"):
            continue
        vals = value if isinstance(value, list) else [value]
        for v in vals:
            if isinstance(v, ast.AST):
                for n in ast.walk(v):
                    yield n


def contexts_by_node(fnode):
    """Map id(expr node) -> Ctx of the innermost statement that evaluates it."""
    out = {}
    for c in walk_function(fnode):
        for n in _own_expr_nodes(c.stmt):
            out[id(n)] = c
    return out


# ---- small fact matchers ----------------------------------------------------

def same(a, b):
    """Structural equality of two expressions, ignoring Load/Store context."""
    if a is None or b is None:
        return a is b
    return ast.unparse(a) == ast.unparse(b)


def _cmp_parts(expr):
    if isinstance(expr, ast.Compare) and len(expr.ops) == 1:
        return expr.left, expr.ops[0], expr.comparators[0]
    return None


def _is_zero(e):
    return isinstance(e, ast.Constant) and isinstance(e.value, (int, float)) \
        and not isinstance(e.value, bool) and e.value == 0


def _factors(e):
    if isinstance(e, ast.BinOp) and isinstance(e.op, ast.Mult):
        return _factors(e.left) + _factors(e.right)
    return [e]


def fact_nonzero(facts, expr):
    """Is `expr != 0` implied by the facts?  Recognises  e>0, 0<e, e!=0,
    not(e==0), not(e<=0), not(a*e==0), truthiness `if e:`.
    Returns the witnessing fact text or None."""
    for f, pol in facts:
        parts = _cmp_parts(f)
        if parts is None:
            if pol and same(f, expr):
                return "truthy"
            continue
        l, op, r = parts
        mirror = {ast.Lt: ast.Gt, ast.Gt: ast.Lt, ast.LtE: ast.GtE,
                  ast.GtE: ast.LtE, ast.Eq: ast.Eq, ast.NotEq: ast.NotEq}
        if _is_zero(r):
            lhs, o = l, type(op)
        elif _is_zero(l):
            lhs, o = r, mirror.get(type(op))
        else:
            continue
        if o is None:
            continue
        facs = _factors(lhs)
        if not any(same(x, expr) for x in facs):
            continue
        direct = len(facs) == 1
        if pol:
            # e > 0, e < 0, e != 0, a*e > 0, a*e < 0, a*e != 0
            if o in (ast.Gt, ast.Lt, ast.NotEq):
                return ast.unparse(f)
        else:
            # not (a*e == 0);  not (e <= 0);  not (e >= 0)
            if o is ast.Eq:
                return "not (%s)" % ast.unparse(f)
            if o in (ast.LtE, ast.GtE) and direct:
                return "not (%s)" % ast.unparse(f)
    return None


def fact_compare(facts, left, opcls, right):
    """Is `left <op> right` among the facts (also in mirrored form, or as the
    negation of the complementary comparison)?"""
    mirror = {ast.Lt: ast.Gt, ast.Gt: ast.Lt, ast.LtE: ast.GtE, ast.GtE: ast.LtE,
              ast.Eq: ast.Eq, ast.NotEq: ast.NotEq}
    neg = {ast.Lt: ast.GtE, ast.GtE: ast.Lt, ast.Gt: ast.LtE, ast.LtE: ast.Gt,
           ast.Eq: ast.NotEq, ast.NotEq: ast.Eq}
    for f, pol in facts:
        parts = _cmp_parts(f)
        if parts is None:
            continue
        l, op, r = parts
        want = opcls if pol else neg[opcls]
        if isinstance(op, want) and same(l, left) and same(r, right):
            return True
        if isinstance(op, mirror.get(want, ())) and same(l, right) and same(r, left):
            return True
    return False


# ---- path enumeration through a structured block ---------------------------

class PathItem:
    __slots__ = ("stmt", "conds", "loops", "arm")

    def __init__(self, stmt, conds, loops, arm=None):
        self.stmt = stmt      # a simple statement, or the header of an If/For/While
        self.conds = conds    # tuple of (If node, arm bool) taken inside the block
        self.loops = loops    # tuple of For/While nodes entered inside the block
        self.arm = arm        # for an If header: the arm this path takes


def enumerate_paths(body, limit=4096):
    """All acyclic paths through a statement list: every `if` contributes both
    arms, loop bodies are traversed zero times and once (items carry the loop
    they sit in), continue/break leave the innermost loop body, return/raise end
    the path.  Returns a list of (items, terminator)."""
    results = []

    def rec(stmts, acc, conds, loops, k, loopk):
        if len(results) >= limit:
            return
        if not stmts:
            return k(acc)
        st, rest = stmts[0], stmts[1:]
        nxt = lambda a: rec(rest, a, conds, loops, k, loopk)
        if isinstance(st, ast.If):
            rec(st.body, acc + [PathItem(st, conds, loops, True)], conds + ((st, True),), loops, nxt, loopk)
            rec(st.orelse, acc + [PathItem(st, conds, loops, False)], conds + ((st, False),), loops, nxt, loopk)
        elif isinstance(st, (ast.For, ast.While)):
            hdr = PathItem(st, conds, loops)
            nxt(acc + [hdr])                                  # zero iterations
            rec(st.body, acc + [hdr], conds, loops + (st,), nxt, nxt)   # one iteration
        elif isinstance(st, ast.Try):
            rec(st.body + st.orelse + st.finalbody, acc, conds, loops, nxt, loopk)
        elif isinstance(st, ast.With):
            rec(st.body, acc, conds, loops, nxt, loopk)
        elif isinstance(st, (ast.Return, ast.Raise)):
            results.append((acc + [PathItem(st, conds, loops)], st))
        elif isinstance(st, (ast.Continue, ast.Break)):
            if loopk is not None:
                loopk(acc + [PathItem(st, conds, loops)])
            else:
                results.append((acc + [PathItem(st, conds, loops)], st))
        else:
            nxt(acc + [PathItem(st, conds, loops)])

    rec(list(body), [], (), (), lambda a: results.append((a, None)), None)
    return results
