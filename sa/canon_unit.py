"""Unit pairs for the canonicaliser (sa/canon.py): program pairs that MUST be told apart (each was, or could
plausibly be, identified by an unsound rewrite) and pairs that must be recognised as the same behaviour.

    python -m sa.canon_unit        exit 0 when every pair gets the expected verdict

Also run by the thorough tier of every property (a canonicaliser that identifies two different behaviours would
hide violations behind "refactoring")."""
import ast

from . import canon

DIFFERENT = [
    ("rebinding vs in-place update (the caller's array changes)",
     "def f(a, b):\n    a = a * b\n    a.shape = (4, 1)\n    return a\n",
     "def f(a, b):\n    a *= b\n    a.shape = (4, 1)\n    return a\n"),
    ("value read before / after a mutation through an alias",
     "def f(b):\n    a = b\n    x = len(b)\n    a.append(1)\n    return x\n",
     "def f(b):\n    a = b\n    a.append(1)\n    x = len(b)\n    return x\n"),
    ("value read before / after a store into the same slot",
     "def f(d, k):\n    x = d[k] + 1\n    d[k] = 5\n    return x\n",
     "def f(d, k):\n    d[k] = 5\n    x = d[k] + 1\n    return x\n"),
    ("two separately allocated arrays vs one shared array",
     "def f(N, S):\n    a = 0 * N\n    b = 0 * N\n    a[S] += 1\n    return a, b\n",
     "def f(N, S):\n    a = 0 * N\n    b = a\n    a[S] += 1\n    return a, b\n"),
    ("fresh object per use vs one object updated in place",
     "def f(G, lab, d):\n    w = nx.get_edge_attributes(G, lab)\n    w.update(d)\n    return w\n",
     "def f(G, lab, d):\n    nx.get_edge_attributes(G, lab).update(d)\n    return nx.get_edge_attributes(G, lab)\n"),
    ("statement moved across a break",
     "def f(xs, t):\n    for x in xs:\n        if x > t:\n            break\n        t += x\n    return t\n",
     "def f(xs, t):\n    for x in xs:\n        t += x\n        if x > t:\n            break\n    return t\n"),
    ("order of two random draws",
     "def f():\n    a = random.random()\n    b = random.expovariate(2)\n    return a, b\n",
     "def f():\n    b = random.expovariate(2)\n    a = random.random()\n    return a, b\n"),
    ("random draw hoisted out of a loop (one draw shared by all iterations)",
     "def f(xs):\n    out = {}\n    for x in xs:\n        out[x] = random.random()\n    return out\n",
     "def f(xs):\n    r = random.random()\n    out = {}\n    for x in xs:\n        out[x] = r\n    return out\n"),
    ("subscript read hoisted out of its guard (KeyError for a missing key)",
     "def f(d, k):\n    if k in d:\n        v = d[k]\n        return v\n    return None\n",
     "def f(d, k):\n    v = d[k]\n    if k in d:\n        return v\n    return None\n"),
    ("comparison operator flipped at the tie",
     "def f(a, b):\n    if a < b:\n        return 1\n    return 2\n",
     "def f(a, b):\n    if a <= b:\n        return 1\n    return 2\n"),
    ("not (a < b) is not a >= b for NaN: must not be merged with the mirrored test",
     "def f(a, b):\n    if not a < b:\n        return 1\n    return 2\n",
     "def f(a, b):\n    if a >= b:\n        return 1\n    return 2\n"),
    ("else branch lost when flattening",
     "def f(c, x):\n    if c:\n        x += 1\n    else:\n        x -= 1\n    return x\n",
     "def f(c, x):\n    if c:\n        x += 1\n    x -= 1\n    return x\n"),
    ("loop variable captured by a helper (late binding) vs passed value",
     "def f(xs, w):\n    out = []\n    for node in xs:\n        out.append(w(node))\n    for other in xs:\n        out.append(w(other))\n    return out\n",
     "def f(xs, w):\n    out = []\n    for node in xs:\n        out.append(w(node))\n    for other in xs:\n        out.append(w(node))\n    return out\n"),
    ("one-shot iterator hoisted out of a loop",
     "def f(G, n, ts):\n    out = []\n    for t in ts:\n        for p in G.predecessors(n):\n            out.append((t, p))\n    return out\n",
     "def f(G, n, ts):\n    out = []\n    preds = G.predecessors(n)\n    for t in ts:\n        for p in preds:\n            out.append((t, p))\n    return out\n"),
    ("status written before / after the neighbour loop that reads it",
     "def f(G, n, status, L):\n    status[n] = 'I'\n    for v in G.neighbors(n):\n        if status[v] == 'S':\n            L.append((n, v))\n",
     "def f(G, n, status, L):\n    for v in G.neighbors(n):\n        if status[v] == 'S':\n            L.append((n, v))\n    status[n] = 'I'\n"),
    ("dict comprehension keyed by the wrong element (collapses duplicates)",
     "def f(pairs):\n    return {u: v for u, v in pairs}\n",
     "def f(pairs):\n    return {v: u for u, v in pairs}\n"),
]

DIFFERENT += [
    ("counter loop whose bound grows in the body vs range evaluated once",
     "def f(xs):\n    i = 0\n    while i < len(xs):\n        if xs[i] > 3:\n            xs.append(0)\n        i += 1\n    return xs\n",
     "def f(xs):\n    for i in range(len(xs)):\n        if xs[i] > 3:\n            xs.append(0)\n    return xs\n"),
    ("list built per use vs one list appended to twice",
     "def f(a, b):\n    t = a + b\n    u = t\n    v = t\n    u.append(1)\n    return u, v\n",
     "def f(a, b):\n    u = a + b\n    v = a + b\n    u.append(1)\n    return u, v\n"),
    ("len of a comprehension whose element has an effect vs counting",
     "def f(xs, log):\n    return len([log.append(x) for x in xs if x > 0])\n",
     "def f(xs, log):\n    return sum(1 for x in xs if x > 0)\n"),
    ("helper with a mutable default argument vs a fresh list per call",
     "def f(x):\n    acc = []\n    acc.append(x)\n    return acc\n",
     "def f(x, acc=[]):\n    acc.append(x)\n    return acc\n"),
]

DIFFERENT += [
    ("duration drawn once per node vs once per edge inside a generator",
     "def f(G, H, rt, tt):\n    for u in G.nodes():\n        d = rt(u)\n        H.add_node(u)\n        for v in G.neighbors(u):\n            if tt(u, v) <= d:\n                H.add_edge(u, v)\n",
     "def f(G, H, rt, tt):\n    H.add_nodes_from(G.nodes())\n    H.add_edges_from((u, v) for u in G.nodes() for v in G.neighbors(u) if tt(u, v) <= rt(u))\n"),
    ("one shared list for all keys (dict.fromkeys) vs a fresh list per key",
     "def f(ks, t):\n    d = {}\n    for k in ks:\n        d[k] = [t]\n    return d\n",
     "def f(ks, t):\n    return dict.fromkeys(ks, [t])\n"),
    ("lambda binding a loop variable late vs value captured per iteration",
     "def f(labels, G):\n    out = {}\n    for wl in labels:\n        out[wl] = G.adj[0][1][wl]\n    return out\n",
     "def f(labels, G):\n    fs = {}\n    for wl in labels:\n        fs[wl] = lambda: G.adj[0][1][wl]\n    return {k: g() for k, g in fs.items()}\n"),
    ("status written before vs after the neighbour loop (self-loop reads it)",
     "def f(G, r, status, L):\n    status[r] = 'I'\n    for n in G.neighbors(r):\n        if status[n] == 'S':\n            L.update((r, n))\n        elif n != r:\n            L.remove((n, r))\n",
     "def f(G, r, status, L):\n    for n in G.neighbors(r):\n        if status[n] == 'S':\n            L.update((r, n))\n        elif n != r:\n            L.remove((n, r))\n    status[r] = 'I'\n"),
    ("continue that skips the tail of the loop body",
     "def f(L, t, ch):\n    while L.tw() > 0:\n        n = L.choose()\n        s = ch(n)\n        L.insert(n, s)\n        t += random.expovariate(L.tw())\n    return t\n",
     "def f(L, t, ch):\n    while L.tw() > 0:\n        n = L.choose()\n        s = ch(n)\n        if s == 0:\n            continue\n        L.insert(n, s)\n        t += random.expovariate(L.tw())\n    return t\n"),
    ("early return before the weight is popped",
     "def f(self, c):\n    self.items.pop()\n    if self.weighted:\n        w = self.weight.pop(c)\n        self.tw -= w\n        if len(self.items) == 0:\n            self.tw = 0\n",
     "def f(self, c):\n    self.items.pop()\n    if not self.weighted:\n        return\n    if len(self.items) == 0:\n        self.tw = 0\n        return\n    w = self.weight.pop(c)\n    self.tw -= w\n"),
    ("helper default argument that is a shared mutable object",
     "def f(G, rf, status):\n    L = LD(True)\n    for u in G:\n        L.insert(u, rf(u, status))\n    return L\n",
     "def f(G, rf, status, L=LD(True)):\n    for u in G:\n        L.insert(u, rf(u, status))\n    return L\n"),
    ("zip truncates to the shorter list",
     "def f(I, R, h):\n    while I:\n        h.append(I.pop(0))\n        if R:\n            h.append(R.pop(0))\n    return h\n",
     "def f(I, R, h):\n    for a, b in zip(I, R):\n        h.append(a)\n        h.append(b)\n    return h\n"),
    ("cached total read before the updates vs after",
     "def f(c, n, w):\n    c.remove(n)\n    c.update(n, w)\n    if c.tw() < 1e-7 and c.tw() != 0:\n        c.resum()\n",
     "def f(c, n, w):\n    t = c.tw()\n    c.remove(n)\n    c.update(n, w)\n    if t < 1e-7 and t != 0:\n        c.resum()\n"),
    ("in-place += on the dict returned by a callback vs a local sum",
     "def f(fx, a, time, Q):\n    d = fx(a)\n    for v in d:\n        Q.add(time + d[v], v)\n",
     "def f(fx, a, time, Q):\n    d = fx(a)\n    for v in d:\n        d[v] += time\n        Q.add(d[v], v)\n"),
]

DIFFERENT += [
    ("tuple of names built before one of them is rebound vs after",
     "def f(a, b, g, h):\n    t = (a, b)\n    a = g(a)\n    return h(t[0], a)\n",
     "def f(a, b, g, h):\n    a = g(a)\n    t = (a, b)\n    return h(t[0], a)\n"),
    ("shared tuple vs shared list handed to two calls",
     "def f(a, b, h):\n    h(1, [a, b])\n    h(2, [a, b])\n",
     "def f(a, b, h):\n    t = [a, b]\n    h(1, t)\n    h(2, t)\n"),
]

DIFFERENT += [
    ("read X[i] hoisted out of a short-circuit although i ranges over ANOTHER list",
     "def f(rt, ts, n):\n    out = []\n    j = 0\n    for i in range(len(rt)):\n        while j < n and ts[j] <= ts[i]:\n            j += 1\n        out.append(j)\n    return out\n",
     "def f(rt, ts, n):\n    out = []\n    j = 0\n    for i in range(len(rt)):\n        r = ts[i]\n        while j < n and ts[j] <= r:\n            j += 1\n        out.append(j)\n    return out\n"),
]

DIFFERENT += [
    ("call that may change what the test reads, hoisted above the test",
     "def f(L, h, g, k):\n    if len(L) == 0:\n        h(L)\n        return g(L)\n    h(L)\n    return k(L)\n",
     "def f(L, h, g, k):\n    h(L)\n    if len(L) == 0:\n        return g(L)\n    return k(L)\n"),
]

DIFFERENT += [
    ("list copied before vs after the loop that fills it through an object holding it",
     "def f(Q, n, g):\n    times = [0]\n    Q.add(0, g, args=(times,))\n    while Q:\n        Q.pop_and_run()\n    times = times[n:]\n    return times\n",
     "def f(Q, n, g):\n    times = [0]\n    Q.add(0, g, args=(times,))\n    times = times[n:]\n    while Q:\n        Q.pop_and_run()\n    return times\n"),
    ("list read before vs after a call on the dict it was stored in",
     "def f(d, k, h):\n    xs = []\n    d[k] = xs\n    h(d)\n    n = len(xs)\n    return n\n",
     "def f(d, k, h):\n    xs = []\n    d[k] = xs\n    n = len(xs)\n    h(d)\n    return n\n"),
]

DIFFERENT += [
    ("value read through the container before vs after its element is changed through a local alias",
     "def f(table, k):\n    row = table[k]\n    n = len(table[k])\n    row.append(1)\n    return n\n",
     "def f(table, k):\n    row = table[k]\n    row.append(1)\n    n = len(table[k])\n    return n\n"),
    ("alias of an element used after the slot was given a new object",
     "def f(table, k):\n    row = table[k]\n    table[k] = []\n    row.append(1)\n    return table\n",
     "def f(table, k):\n    table[k] = []\n    table[k].append(1)\n    return table\n"),
    ("alias of an object (not of a part) and a later change through the other name",
     "def f(b, c, flag):\n    a = b if flag else c\n    n = len(a)\n    b.append(1)\n    return n\n",
     "def f(b, c, flag):\n    a = b if flag else c\n    b.append(1)\n    n = len(a)\n    return n\n"),
]

DIFFERENT += [
    ("edge added in the stored orientation vs reversed",
     "def f(G, H):\n    for u, v in G.edges():\n        H.add_edge(u, v)\n    return H\n",
     "def f(G, H):\n    for u, v in G.edges():\n        H.add_edge(v, u)\n    return H\n"),
    ("swap by tuple assignment vs two assignments one after the other",
     "def f(a, b):\n    a, b = b, a\n    return (a, b)\n",
     "def f(a, b):\n    a = b\n    b = a\n    return (a, b)\n"),
]

DIFFERENT += [
    ("attribute alias used after the attribute was given a new object",
     "def f(self):\n    a = self.items\n    self.items = []\n    a.append(1)\n    return a\n",
     "def f(self):\n    self.items = []\n    self.items.append(1)\n    return self.items\n"),
    ("length read before vs after an unknown method of the object that was handed the list",
     "def f(Q, g):\n    xs = []\n    Q.add(0, g, args=(xs,))\n    n = len(xs)\n    Q.run()\n    return n\n",
     "def f(Q, g):\n    xs = []\n    Q.add(0, g, args=(xs,))\n    Q.run()\n    n = len(xs)\n    return n\n"),
    ("element appended to a list stored in a dict before vs after the dict is copied deeply by an unknown call",
     "def f(d, k, snap):\n    xs = d[k]\n    xs.append(1)\n    s = snap(d)\n    return s\n",
     "def f(d, k, snap):\n    xs = d[k]\n    s = snap(d)\n    xs.append(1)\n    return s\n"),
]

SAME = [
    ("edge loop with unpacked pair vs starred edge",
     "def f(G, H, p):\n    for e in G.edges():\n        if random.random() < p:\n            H.add_edge(*e)\n    return H\n",
     "def f(G, H, p):\n    for u, v in G.edges():\n        if random.random() < p:\n            H.add_edge(u, v)\n    return H\n"),
    ("tuple assignment whose values only read their own target",
     "def f(t, s, n):\n    t = t[n:]\n    s = s[n:]\n    return (t, s)\n",
     "def f(t, s, n):\n    t, s = t[n:], s[n:]\n    return (t, s)\n"),
    ("local alias of a table row written out although the row's content changes in between",
     "def f(table, k, x, w):\n    table[k].remove(x)\n    table[k].update(x, w)\n    if table[k].total_weight() < 1:\n        table[k].update_total_weight()\n",
     "def f(table, k, x, w):\n    row = table[k]\n    row.remove(x)\n    row.update(x, w)\n    if row.total_weight() < 1:\n        row.update_total_weight()\n"),
    ("common first statement hoisted out of a branch whose else-arm is the tail",
     "def f(a, b, g, k):\n    if a is None:\n        x = b + 1\n        return g(x)\n    x = b + 1\n    return k(x)\n",
     "def f(a, b, g, k):\n    x = b + 1\n    if a is None:\n        return g(x)\n    return k(x)\n"),
    ("read X[i] hoisted out of a short-circuit, i in range(len(X))",
     "def f(rt, ts, n):\n    out = []\n    j = 0\n    for i in range(len(rt)):\n        while j < n and ts[j] <= rt[i]:\n            j += 1\n        out.append(j)\n    return out\n",
     "def f(rt, ts, n):\n    out = []\n    j = 0\n    for i in range(len(rt)):\n        r = rt[i]\n        while j < n and ts[j] <= r:\n            j += 1\n        out.append(j)\n    return out\n"),
    ("argument tuple shared through a name, projected and concatenated",
     "def f(G, S, Q, status, t, v, xs):\n    status[t] = 'I'\n    S.append(1)\n    if xs:\n        Q.add(xs[0], f, args=(G, t, v, S, Q, status))\n",
     "def f(G, S, Q, status, t, v, xs):\n    sh = (G, S, Q, status)\n    status[t] = 'I'\n    S.append(1)\n    if xs:\n        Q.add(xs[0], f, args=(sh[0], t, v) + sh[1:])\n"),
    ("guard clause vs nested if",
     "def f(s, t, L):\n    if s[t] == 'S':\n        s[t] = 'I'\n        L.append(t)\n",
     "def f(s, t, L):\n    if s[t] != 'S':\n        return\n    s[t] = 'I'\n    L.append(t)\n"),
    ("break + return vs return in the loop, arms in either order",
     "def f(self):\n    if self.w:\n        while True:\n            c = random.choice(self.items)\n            if random.random() < self.weight[c] / self.mw:\n                break\n        return c\n    else:\n        return random.choice(self.items)\n",
     "def f(self):\n    if not self.w:\n        return random.choice(self.items)\n    while True:\n        cand = random.choice(self.items)\n        if random.random() < self.weight[cand] / self.mw:\n            return cand\n"),
    ("temporary for an impure single-use value",
     "def f(Q, t, fx, a, b):\n    Q.add(t, fx(a, b), a)\n",
     "def f(Q, t, fx, a, b):\n    rate = fx(a, b)\n    Q.add(t, rate, a)\n"),
    ("loop vs dict comprehension",
     "def f(ns, g, r):\n    d = {}\n    for v in ns:\n        d[v] = g(v, r)\n    return d\n",
     "def f(ns, g, r):\n    return {v: g(v, r) for v in ns}\n"),
    ("items() vs keys and subscript",
     "def f(N, n):\n    return {k: N[k] / float(n) for k in N.keys()}\n",
     "def f(N, n):\n    return {k: c / float(n) for k, c in N.items()}\n"),
    ("continue guards vs nested condition",
     "def f(G, I, p, out):\n    for u in I:\n        for v in G.neighbors(u):\n            if v not in I and random.random() < p:\n                out.add(v)\n",
     "def f(G, I, p, out):\n    for u in I:\n        for v in G.neighbors(u):\n            if v in I:\n                continue\n            if not random.random() < p:\n                continue\n            out.add(v)\n"),
    ("local closure called twice vs duplicated block",
     "def f(a, b, t):\n    r = a.tw() + b.tw()\n    t += random.expovariate(r) if r > 0 else float('Inf')\n    while t < 9:\n        a.step()\n        r = a.tw() + b.tw()\n        t += random.expovariate(r) if r > 0 else float('Inf')\n    return t\n",
     "def f(a, b, t):\n    def delay():\n        r = a.tw() + b.tw()\n        if r > 0:\n            return random.expovariate(r)\n        return float('Inf')\n    t += delay()\n    while t < 9:\n        a.step()\n        t += delay()\n    return t\n"),
    ("store forwarded through a temporary",
     "def f(rt, n, t, d, Q):\n    rt[n] = t + d\n    if rt[n] < Q.tmax:\n        Q.add(rt[n], n)\n",
     "def f(rt, n, t, d, Q):\n    when = t + d\n    rt[n] = when\n    if when < Q.tmax:\n        Q.add(when, n)\n"),
    ("conditional expression with a self branch",
     "def f(G, x, rho):\n    if x is None:\n        x = random.sample(list(G), 1)\n    elif G.has_node(x):\n        x = [x]\n    return x\n",
     "def f(G, x, rho):\n    x = random.sample(list(G), 1) if x is None else ([x] if G.has_node(x) else x)\n    return x\n"),
    ("counter while loop vs for range",
     "def f(r, t, s):\n    out = []\n    i = 0\n    j = 0\n    while i < len(r):\n        while j < len(t) and t[j] <= r[i]:\n            last = s[j]\n            j += 1\n        i += 1\n        out.append(last)\n    return out\n",
     "def f(r, t, s):\n    out = []\n    j = 0\n    for i in range(len(r)):\n        while j < len(t) and t[j] <= r[i]:\n            last = s[j]\n            j += 1\n        out.append(last)\n    return out\n"),
    ("len of a filtered list vs counting generator",
     "def f(h, t):\n    return h[1][len([c for c in h[0] if c <= t]) - 1]\n",
     "def f(h, t):\n    return h[1][sum(1 for c in h[0] if c <= t) - 1]\n"),
    ("shared argument tuple spliced into a call",
     "def f(Q, t, a, b, c, d):\n    Q.add(t, a, args=(a, b, c, d))\n",
     "def f(Q, t, a, b, c, d):\n    shared = (c, d)\n    Q.add(t, a, args=(a, b) + shared)\n"),
    ("add_edges_from(generator) vs loop",
     "def f(G, H, p):\n    for e in G.edges():\n        if random.random() < p:\n            H.add_edge(*e)\n    return H\n",
     "def f(G, H, p):\n    H.add_edges_from(e for e in G.edges() if random.random() < p)\n    return H\n"),
]


def run(verbose=False):
    bad = []
    for kind, pairs in (("different", DIFFERENT), ("same", SAME)):
        for what, a, b in pairs:
            try:
                da = canon.canonical(ast.parse(a).body[0], {}, {})[0]
                db = canon.canonical(ast.parse(b).body[0], {}, {})[0]
            except Exception as e:      # noqa
                bad.append("%s: canonicaliser raised %s: %s" % (what, type(e).__name__, e))
                continue
            ok = (da != db) if kind == "different" else (da == db)
            if verbose:
                print("%-9s %-5s %s" % (kind, "ok" if ok else "FAIL", what))
            if not ok:
                bad.append("%s: pair expected to be %s was judged %s" % (what, kind, "the same" if da == db else "different"))
    return bad


if __name__ == "__main__":
    import sys
    b = run(verbose=True)
    for x in b:
        print("FAIL", x)
    sys.exit(1 if b else 0)
