"""Regenerate MANIFEST.json from sa/meta.py (single source of truth)."""
import json, os
from . import meta, props

VERIF = os.path.dirname(os.path.dirname(os.path.abspath(__file__)))

def build():
    checks = []
    for pid in sorted(props.PROPS):
        m = meta.META[pid]
        checks.append({
            "property_id": pid,
            "quick_cmd": "./check %s" % pid,
            "thorough_cmd": "./check %s --tier thorough" % pid,
            "evidence_file": "/verif/evidence/%s.json" % pid,
            "replay_cmd_template": "./check %s --replay {path}" % pid,
            "engine": "sa",
            "level_claimed": {"category": "other", "text": m["text"], "design_ref": m.get("design_ref", "DESIGN.md section 3, " + pid)},
            "level_note": m["note"],
            "technique": m["technique"],
        })
    na = []
    for pid, reason in sorted(meta.NOT_APPLICABLE.items()):
        if pid not in props.PROPS:
            na.append({"property_id": pid, "reason": reason})
    for pid in sorted(meta.META):
        if pid not in props.PROPS and pid not in meta.NOT_APPLICABLE:
            na.append({"property_id": pid, "reason": "static check for this property is not part of this commit yet (see DESIGN.md); not claimed"})
    man = {
        "version": 1,
        "setup_cmd": "/venv/bin/python -W ignore -m sa.mkmanifest --check",
        "hooks": {
            "guard": "EON_VERIF",
            "enable": "none needed: the analysis parses /repo/EoN/*.py and never runs it; there are no hook commits",
            "baseline_off_cmd": "cd /repo && /venv/bin/python -m pytest -ra -q -p no:cacheprovider --timeout=900 --continue-on-collection-errors",
            "source_commits": [],
            "add_only": True,
        },
        "engines": [{
            "name": "sa",
            "path": "/verif/sa",
            "serves_properties": sorted(props.PROPS),
            "kind_free_text": "repository-specific static analysis on Python ast: resolved call graph with static argument binding (incl. deferred queue calls and ODE right-hand sides), syntax-directed control-context facts, def-use dependency closure, flag-enumerating abstract interpreter, effect analysis, exhaustive abstract case analysis of incremental event-set maintenance",
        }],
        "checks": checks,
        "not_applicable": na,
        "notes": meta.NOTES,
    }
    return man

if __name__ == "__main__":
    import sys
    man = build()
    path = os.path.join(VERIF, "MANIFEST.json")
    if "--check" in sys.argv:
        cur = json.load(open(path))
        ok = cur == man
        print("MANIFEST.json %s" % ("is up to date" if ok else "differs from sa/meta.py (regenerate with python -m sa.mkmanifest)"))
        sys.exit(0)
    json.dump(man, open(path, "w"), indent=1)
    print("wrote", path, len(man["checks"]), "checks", len(man["not_applicable"]), "n/a")
