"""Which rules decide which property (DESIGN.md section 3).

A rule function may serve several properties; `rep.keep(...)` restricts what is
recorded to the rule ids that are necessary conditions of the property at hand."""
from . import tables as T
from .rules import callrules as C
from .rules import effects, listdict, simrules as S, rows as R, handlers as H
from .rules import gillespie as G, misc as M, ode as O, extra as X


def c01(repo, rep):
    G.rate_consistency_sir_sis(repo, rep, "Gillespie_SIR")
    G.r11_sir_sis(repo, rep, "Gillespie_SIR")
    G.rate_functions_rule(repo, rep)
    listdict.r12(repo, rep)
    X.state_rule(repo, rep, modules=("simulation",), only_classes=("_ListDict_",))   # the candidate sets of one run are not those of the last
    X.markov_helper(repo, rep)
    C.r1(repo, rep, callers=T.SIR_EVENT + ["Gillespie_SIR"])
    S.r13(repo, rep)
    H.role_rule(repo, rep, "_process_trans_SIR_", resched_required=False)
    H.sir_guards(repo, rep)
    H.proto_rule(repo, rep, ["fast_SIR", "fast_nonMarkov_SIR"])
    H.adapter_rule(repo, rep)
    with rep.keep("R9"):
        R.r9_gillespie(repo, rep, "Gillespie_SIR")
        R.r9_event_driven(repo, rep, "fast_nonMarkov_SIR")
    S.r17(repo, rep, funcs=T.SIR_EVENT + ["Gillespie_SIR"])
    with rep.keep("R10d"):
        M.r10(repo, rep)
    M.full_data_handoff(repo, rep)       # the trajectory handed back with return_full_data is the one that was simulated
    with rep.keep("HIST"):
        M.transform_history_rule(repo, rep)
    with rep.keep("R10a", "R10b"):
        M.r10(repo, rep)                     # the chain starts from the requested initial condition
    with rep.keep("TRUTHY"):
        X.truthy_rule(repo, rep, ["simulation"])
    M.initial_record_rule(repo, rep)   # the initial condition is recorded at tmin
    X.shared_value_rule(repo, rep, ["simulation"], ["fast_SIR", "Gillespie_SIR"])   # per-node histories / per-edge delays are separate objects / draws


def c02(repo, rep):
    G.rate_consistency_sir_sis(repo, rep, "Gillespie_SIS")
    G.r11_sir_sis(repo, rep, "Gillespie_SIS")
    G.rate_functions_rule(repo, rep)
    listdict.r12(repo, rep)
    X.state_rule(repo, rep, modules=("simulation",), only_classes=("_ListDict_",))   # the candidate sets of one run are not those of the last
    C.r1(repo, rep, callers=T.SIS_EVENT + ["Gillespie_SIS"])
    S.r13(repo, rep)
    H.role_rule(repo, rep, "_process_trans_SIS_Markov", resched_required=True)
    H.sis_markov_guards(repo, rep)
    with rep.keep("R9"):
        R.r9_gillespie(repo, rep, "Gillespie_SIS")
        R.r9_event_driven(repo, rep, "fast_SIS")
    S.r17(repo, rep, funcs=T.SIS_EVENT + ["Gillespie_SIS"])
    with rep.keep("HIST"):
        M.transform_history_rule(repo, rep)   # per-node trajectories are rebuilt from the recorded infection / recovery times
    with rep.keep("R10a", "R10b"):
        M.r10(repo, rep)                      # the chain starts from the requested initial infected set
    with rep.keep("TRUTHY"):
        X.truthy_rule(repo, rep, ["simulation"])
    M.initial_record_rule(repo, rep)   # the initial condition is recorded at tmin
    X.shared_value_rule(repo, rep, ["simulation"], ["fast_SIS", "Gillespie_SIS"])   # per-node histories / per-edge delays are separate objects / draws


def c03(repo, rep):
    G.simple_contagion_rule(repo, rep)
    listdict.r12(repo, rep)
    X.state_rule(repo, rep, modules=("simulation",), only_classes=("_ListDict_",))   # the candidate sets of one run are not those of the last
    with rep.keep("R9"):
        R.r9_generic(repo, rep, "Gillespie_simple_contagion")
    S.r17(repo, rep, funcs=["Gillespie_simple_contagion"])
    C.r1(repo, rep, callers=["Gillespie_simple_contagion"])


def c04(repo, rep):
    with rep.keep("R9", "R9.C04"):
        for n in ("Gillespie_SIR", "Gillespie_SIS"):
            R.r9_gillespie(repo, rep, n)
        for n in ("fast_nonMarkov_SIR", "fast_SIS", "fast_nonMarkov_SIS"):
            R.r9_event_driven(repo, rep, n)
        for n in ("Gillespie_simple_contagion", "Gillespie_complex_contagion"):
            R.r9_generic(repo, rep, n)
        R.r9_discrete(repo, rep)
    S.r13(repo, rep)
    S.r17(repo, rep)
    O.r2r3(repo, rep, ["simulation"])
    C.r1(repo, rep, callers=["fast_SIR", "basic_discrete_SIR", "percolation_based_discrete_SIR"])
    with rep.keep("R10d", "R10c"):
        M.r10(repo, rep)
    M.full_data_handoff(repo, rep)
    with rep.keep("R11s"):
        G.simple_contagion_rule(repo, rep)   # "a spec edge for the generic simulators": the move applied is the chosen transition's
    with rep.keep("R11"):
        G.r11_sir_sis(repo, rep, "Gillespie_SIR")   # "one legal move": a stale or phantom I-S link fires a transmission onto a
        G.r11_sir_sis(repo, rep, "Gillespie_SIS")   # node that is not susceptible (also through a self-loop)
    with rep.keep("HIST"):
        M.transform_history_rule(repo, rep)          # with full data the rows are read off the rebuilt per-node histories
    with rep.keep("R12.I6"):
        listdict.r12(repo, rep)                      # "every simulator returns": an emptied weighted candidate set weighs 0,
                                                     # or the generic loops draw from an empty list at extinction
    X.shared_value_rule(repo, rep, ["simulation"], T.SIMULATORS)   # per-node histories / per-edge delays are separate objects / draws


def c05(repo, rep):
    M.r10(repo, rep)
    with rep.keep("HIST"):
        M.transform_history_rule(repo, rep)
    C.r1(repo, rep, callers=T.SIMULATORS)
    C.r1d(repo, rep, callers=T.SIMULATORS)
    C.r16(repo, rep, T.SIMULATORS)
    X.r16w(repo, rep, ["simulation"])
    X.truthy_rule(repo, rep, ["simulation"])
    with rep.keep("R9.C04"):
        for n in ("Gillespie_SIR", "Gillespie_SIS"):
            R.r9_gillespie(repo, rep, n)
        for n in ("fast_nonMarkov_SIR", "fast_SIS", "fast_nonMarkov_SIS"):
            R.r9_event_driven(repo, rep, n)
        R.r9_discrete(repo, rep)
    with rep.keep("INV"):
        M.investigation_rule(repo, rep)      # "per-node statuses at tmin" are read through node_status / get_statuses
    with rep.keep("R14.gin"):
        M.r14(repo, rep)                     # "initially recovered nodes ... are never infected later" (percolation-based runs)
    M.initial_record_rule(repo, rep)   # the initial condition is recorded at tmin
    X.shared_value_rule(repo, rep, ["simulation"], T.SIMULATORS)   # per-node histories / per-edge delays are separate objects / draws
    M.full_data_handoff(repo, rep)     # get_statuses(time=tmin): the tables the histories are built from hold every initial I / R node


def c06(repo, rep):
    O.r2r3(repo, rep, ["analytic"])
    O.time_grid(repo, rep)
    O.conservation(repo, rep)
    O.ic_guard(repo, rep)
    O.r4(repo, rep)
    O.degree_roles(repo, rep)
    O.index_roles(repo, rep)
    analytic = [f.name for f in repo.public_functions("analytic")]
    C.r1d(repo, rep, callers=analytic)
    C.r1(repo, rep, callers=analytic + ["_get_Nk_and_IC_as_arrays_", "_get_NkNl_and_IC_as_arrays_", "_count_edge_types_",
                                        "_initialize_node_status_"], floor_sites=60)
    C.r16(repo, rep, [n for n in analytic if n not in O.NOTE_ONLY])
    X.r16w(repo, rep, ["analytic"])
    X.truthy_rule(repo, rep, ["analytic"])
    X.converted_before_use(repo, rep)
    X.pure_ic_rule(repo, rep)
    X.nodelist_order_rule(repo, rep)
    O.r4s(repo, rep)
    O.default_status_map_rule(repo, rep)
    effects.r5(repo, rep, modules=("analytic",), rhs_only=True)   # a right-hand side that writes into the solver's state changes the solution
    X.shared_value_rule(repo, rep, ["analytic"])   # per-degree / per-node series are separate objects


def c09(repo, rep):
    C.r8(repo, rep, [n for n in T.SIMULATORS if n not in ("fast_SIR", "basic_discrete_SIR", "percolation_based_discrete_SIR",
                                                           "Gillespie_complex_contagion")])
    with rep.keep("R9.C09", "R9"):
        for n in ("Gillespie_SIR", "Gillespie_SIS"):
            R.r9_gillespie(repo, rep, n)
        for n in ("fast_nonMarkov_SIR", "fast_SIS", "fast_nonMarkov_SIS"):
            R.r9_event_driven(repo, rep, n)
    for h in ("_process_trans_SIR_", "_process_trans_SIS_Markov", "_process_trans_SIS_nonMarkov_"):
        H.role_rule(repo, rep, h, resched_required=(h != "_process_trans_SIR_"))
    with rep.keep("H-guard"):
        H.sir_guards(repo, rep)
        H.sis_markov_guards(repo, rep)
    with rep.keep("H-chain"):
        H.sis_nonmarkov_rules(repo, rep)     # which attempts are queued decides which transmissions can be recorded
    with rep.keep("R11s.C09", "R11s"):
        G.simple_contagion_rule(repo, rep)
    with rep.keep("R11"):
        G.r11_sir_sis(repo, rep, "Gillespie_SIR")
        G.r11_sir_sis(repo, rep, "Gillespie_SIS")
    with rep.keep("DISC"):
        X.discrete_contacts(repo, rep)
        X.discrete_history_guard(repo, rep)
    with rep.keep("INV"):
        M.investigation_rule(repo, rep)
    C.r1(repo, rep, callers=T.SIR_EVENT + T.SIS_EVENT + T.SIS_NONMARKOV)
    M.initial_record_rule(repo, rep)   # the initial condition is recorded at tmin
    X.shared_value_rule(repo, rep, ["simulation"], T.SIMULATORS)   # per-node histories / per-edge delays are separate objects / draws


def c10(repo, rep):
    S.r7c(repo, rep)
    C.r8(repo, rep, [n for n in T.SIMULATORS if n not in ("fast_SIR", "basic_discrete_SIR", "percolation_based_discrete_SIR")])
    with rep.keep("R9.C10", "R9"):
        for n in ("Gillespie_SIR", "Gillespie_SIS"):
            R.r9_gillespie(repo, rep, n)
        for n in ("fast_nonMarkov_SIR", "fast_SIS", "fast_nonMarkov_SIS"):
            R.r9_event_driven(repo, rep, n)
        for n in ("Gillespie_simple_contagion", "Gillespie_complex_contagion"):
            R.r9_generic(repo, rep, n)
        R.r9_discrete(repo, rep)
    M.transform_history_rule(repo, rep)
    M.investigation_rule(repo, rep)
    X.discrete_history_guard(repo, rep)
    with rep.keep("R10e", "R10c"):
        M.r10(repo, rep)
    M.full_data_handoff(repo, rep)
    with rep.keep("H-guard"):
        H.sir_guards(repo, rep)              # pred_inf_time becomes the infection time of the history: only queued events may set it
    M.initial_record_rule(repo, rep)   # the initial condition is recorded at tmin
    X.shared_value_rule(repo, rep, ["simulation"], T.SIMULATORS)   # per-node histories / per-edge delays are separate objects / draws


def c11(repo, rep):
    S.r13(repo, rep)
    H.role_rule(repo, rep, "_process_trans_SIR_", resched_required=False)
    H.sir_guards(repo, rep)
    H.proto_rule(repo, rep, ["fast_SIR", "fast_nonMarkov_SIR", "directed_percolate_network"])
    H.adapter_rule(repo, rep)
    M.r14(repo, rep)
    with rep.keep("MARKOV"):
        X.markov_helper(repo, rep)
    C.r1(repo, rep, callers=T.SIR_EVENT + T.PERCOLATION)
    with rep.keep("R9"):
        R.r9_event_driven(repo, rep, "fast_nonMarkov_SIR")
    with rep.keep("R10d", "R10e", "R10a", "R10b"):
        M.r10(repo, rep)
    M.full_data_handoff(repo, rep)
    M.transform_history_rule(repo, rep)   # the property is observed on the full-data histories: infection and recovery time of every node
    with rep.keep("TRUTHY"):
        X.truthy_rule(repo, rep, ["simulation"])    # "distance from the initially infected set": the set that was requested
    X.shared_value_rule(repo, rep, ["simulation"], ["fast_SIR", "fast_nonMarkov_SIR", "nonMarkov_directed_percolate_network_with_timing", "directed_percolate_network", "get_infected_nodes"])   # per-node histories / per-edge delays are separate objects / draws


def c12(repo, rep):
    C.r1(repo, rep, callers=T.DISCRETE)
    C.r1d(repo, rep, callers=T.DISCRETE)
    X.discrete_contacts(repo, rep)
    X.discrete_history_guard(repo, rep)
    with rep.keep("R9", "R9.C04"):
        R.r9_discrete(repo, rep)
    with rep.keep("R14"):
        M.r14(repo, rep)
    X.r16w(repo, rep, ["simulation"])
    with rep.keep("R10d", "R10c", "R10a", "R10b"):
        M.r10(repo, rep)
    with rep.keep("TRUTHY"):
        X.truthy_rule(repo, rep, ["simulation"])
    X.shared_value_rule(repo, rep, ["simulation"], T.DISCRETE)   # per-node histories / per-edge delays are separate objects / draws


def c13(repo, rep):
    S.r13(repo, rep)
    H.role_rule(repo, rep, "_process_trans_SIS_nonMarkov_", resched_required=True)
    H.sis_nonmarkov_rules(repo, rep)
    H.proto_rule(repo, rep, ["fast_nonMarkov_SIS"])
    H.adapter_rule(repo, rep)
    C.r1(repo, rep, callers=T.SIS_NONMARKOV)
    with rep.keep("R9"):
        R.r9_event_driven(repo, rep, "fast_nonMarkov_SIS")
    with rep.keep("HIST"):
        M.transform_history_rule(repo, rep)   # "produces exactly the history": the per-node history is rebuilt by this helper
    with rep.keep("R10a", "R10b"):
        M.r10(repo, rep)
    with rep.keep("TRUTHY"):
        X.truthy_rule(repo, rep, ["simulation"])
    X.shared_value_rule(repo, rep, ["simulation"], ["fast_nonMarkov_SIS"])   # per-node histories / per-edge delays are separate objects / draws


def c14(repo, rep):
    O.r6(repo, rep)
    O.index_roles(repo, rep)
    X.identity_rule(repo, rep, ["analytic", "simulation"])
    O.degree_roles(repo, rep)
    analytic = [f.name for f in repo.public_functions("analytic")]
    with rep.keep("R1c", "R1b", "R1a"):
        C.r1(repo, rep, callers=analytic)
    with rep.keep("TRUTHY"):
        X.truthy_rule(repo, rep, ["simulation", "analytic"])   # a node labelled 0 / '' / () is a node like any other
    with rep.keep("R10a", "R10b"):
        M.r10(repo, rep)
    with rep.keep("R4o"):
        O.r4(repo, rep)                     # a layout that follows dict order on one side only depends on insertion order
    X.labels_not_in_numpy(repo, rep)
    X.nodelist_order_rule(repo, rep)
    # "leaves the deterministic-rule simulators' per-node histories unchanged up to the relabelling": every contact is tested
    # (not one per exposed node, chosen by iteration order), the percolation builders judge u->v with u's own duration, and the
    # rate functions read the weight of the ordered pair they are asked about
    with rep.keep("DISC"):
        X.discrete_contacts(repo, rep)
    with rep.keep("R14"):
        M.r14(repo, rep)
    with rep.keep("RATE"):
        G.rate_functions_rule(repo, rep)
    X.shared_value_rule(repo, rep, ["analytic"])   # per-degree / per-node series are separate objects


def c15(repo, rep):
    G.complex_contagion_rule(repo, rep)
    listdict.r12(repo, rep)
    X.state_rule(repo, rep, modules=("simulation",), only_classes=("_ListDict_",))   # the candidate sets of one run are not those of the last
    with rep.keep("R9"):
        R.r9_generic(repo, rep, "Gillespie_complex_contagion")


def c16(repo, rep):
    listdict.r12(repo, rep)
    X.state_rule(repo, rep, modules=("simulation",), only_classes=("_ListDict_",))   # the candidate sets of one run are not those of the last
    # "the total rate used for the clock equals the sum of current weights"
    with rep.keep("RATE", "R11s"):
        G.rate_consistency_sir_sis(repo, rep, "Gillespie_SIR")
        G.rate_consistency_sir_sis(repo, rep, "Gillespie_SIS")
        G.simple_contagion_rule(repo, rep)     # R11s: the weighted lists hold exactly the enabled candidates (a stale pair inflates the total)
    with rep.keep("R11"):
        G.r11_sir_sis(repo, rep, "Gillespie_SIR")   # likewise for the infected / I-S lists (a zero-weight carrier must stay listed)
        G.r11_sir_sis(repo, rep, "Gillespie_SIS")
    with rep.keep("R11c"):
        G.complex_contagion_rule(repo, rep)


def c17(repo, rep):
    M.r14(repo, rep)
    C.r1(repo, rep, callers=T.PERCOLATION)
    H.proto_rule(repo, rep, ["directed_percolate_network"], floor=0)


def c18(repo, rep):
    S.r7a(repo, rep)
    S.r7b(repo, rep)
    S.r7c(repo, rep)
    M.full_data_handoff(repo, rep)
    effects.r5(repo, rep, modules=("simulation",))   # "identical output on repeated calls": a call must not change its arguments
    X.state_rule(repo, rep)
    with rep.keep("HIST"):
        M.transform_history_rule(repo, rep)  # "independent of whether full data is requested": histories are rebuilt from every recorded event
    with rep.keep("R10a", "R10b", "R10c", "R10d"):
        M.r10(repo, rep)                     # the initial set is used as given (in the caller's order), and initially recovered
                                             # nodes are marked whether or not full data is requested


def c19(repo, rep):
    effects.r5(repo, rep)
    effects.r5d(repo, rep)
    # containers handed back by the user's callbacks (delay lists, influence sets) are the user's: they may be stored on G
    with rep.keep("H-chain"):
        H.sis_nonmarkov_rules(repo, rep)
    with rep.keep("R11c"):
        G.complex_contagion_rule(repo, rep)
    X.state_rule(repo, rep)
    X.shared_value_rule(repo, rep, ["analytic"])   # per-degree / per-node series are separate objects


def c20(repo, rep):
    M.r15(repo, rep)
    M.subsample_rule(repo, rep)


PROPS = {"C01": c01, "C02": c02, "C03": c03, "C04": c04, "C05": c05, "C06": c06, "C09": c09, "C10": c10,
         "C11": c11, "C12": c12, "C13": c13, "C14": c14, "C15": c15, "C16": c16, "C17": c17, "C18": c18,
         "C19": c19, "C20": c20}


def _with_tmin(fn):
    def wrapped(repo, rep):
        fn(repo, rep)
        M.tmin_relative_defaults(repo, rep)
    return wrapped


for _p in ("C02", "C03", "C04", "C09", "C10", "C13", "C15"):
    PROPS[_p] = _with_tmin(PROPS[_p])
