"""Which rules decide which property (DESIGN.md section 3)."""
from . import tables as T
from .rules import callrules as C


def c05(repo, rep):
    C.r1(repo, rep, callers=T.SIMULATORS + ["fast_SIR"])
    C.r16(repo, rep, T.SIMULATORS)


PROPS = {"C05": c05}


def c19(repo, rep):
    from .rules import effects
    effects.r5(repo, rep)

PROPS["C19"] = c19


def c16(repo, rep):
    from .rules import listdict
    listdict.r12(repo, rep)

PROPS["C16"] = c16


def c18(repo, rep):
    from .rules import simrules as S
    S.r7a(repo, rep)
    S.r7b(repo, rep)
    S.r7c(repo, rep)

PROPS["C18"] = c18


def _c04_tmp(repo, rep):
    from .rules import simrules as S
    S.r13(repo, rep)
    S.r17(repo, rep)

PROPS["C04"] = _c04_tmp


def _rows(repo, rep):
    from .rules import rows as R
    for n in ("Gillespie_SIR", "Gillespie_SIS"):
        R.r9_gillespie(repo, rep, n)
    for n in ("fast_nonMarkov_SIR", "fast_SIS", "fast_nonMarkov_SIS"):
        R.r9_event_driven(repo, rep, n)
    for n in ("Gillespie_simple_contagion", "Gillespie_complex_contagion"):
        R.r9_generic(repo, rep, n)
    R.r9_discrete(repo, rep)

PROPS["C04"] = lambda repo, rep: (_c04_tmp(repo, rep), _rows(repo, rep))
