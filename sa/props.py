"""Which rules decide which property (DESIGN.md section 3)."""
from . import tables as T
from .rules import callrules as C


def c05(repo, rep):
    C.r1(repo, rep, callers=T.SIMULATORS + ["fast_SIR"])
    C.r16(repo, rep, T.SIMULATORS)


PROPS = {"C05": c05}
