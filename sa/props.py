"""Which rules decide which property (DESIGN.md section 3)."""
from . import tables as T
from .rules import callrules as C


def c05(repo, rep):
    C.r1(repo, rep, callers=T.SIMULATORS + ["fast_SIR"])
    C.r16(repo, rep, T.SIMULATORS)


PROPS = {"C05": c05}


def c19(repo, rep):
    from .rules import effects
    effects.r5(repo, rep)

PROPS["C19"] = c19


def c16(repo, rep):
    from .rules import listdict
    listdict.r12(repo, rep)

PROPS["C16"] = c16


def c18(repo, rep):
    from .rules import simrules as S
    S.r7a(repo, rep)
    S.r7b(repo, rep)
    S.r7c(repo, rep)

PROPS["C18"] = c18


def _c04_tmp(repo, rep):
    from .rules import simrules as S
    S.r13(repo, rep)
    S.r17(repo, rep)

PROPS["C04"] = _c04_tmp


def _rows(repo, rep):
    from .rules import rows as R
    for n in ("Gillespie_SIR", "Gillespie_SIS"):
        R.r9_gillespie(repo, rep, n)
    for n in ("fast_nonMarkov_SIR", "fast_SIS", "fast_nonMarkov_SIS"):
        R.r9_event_driven(repo, rep, n)
    for n in ("Gillespie_simple_contagion", "Gillespie_complex_contagion"):
        R.r9_generic(repo, rep, n)
    R.r9_discrete(repo, rep)

PROPS["C04"] = lambda repo, rep: (_c04_tmp(repo, rep), _rows(repo, rep))


def _handlers(repo, rep):
    from .rules import handlers as H
    H.role_rule(repo, rep, "_process_trans_SIR_", resched_required=False)
    H.role_rule(repo, rep, "_process_trans_SIS_Markov", resched_required=True)
    H.role_rule(repo, rep, "_process_trans_SIS_nonMarkov_", resched_required=True)
    H.sir_guards(repo, rep)
    H.sis_markov_guards(repo, rep)
    H.sis_nonmarkov_rules(repo, rep)
    H.proto_rule(repo, rep, ["fast_SIR", "fast_nonMarkov_SIR", "fast_nonMarkov_SIS", "directed_percolate_network"])
    H.adapter_rule(repo, rep)

PROPS["C11"] = _handlers


def _gill(repo, rep):
    from .rules import gillespie as G
    for n in ("Gillespie_SIR", "Gillespie_SIS"):
        G.r11_sir_sis(repo, rep, n)
        G.rate_consistency_sir_sis(repo, rep, n)
    G.rate_functions_rule(repo, rep)
    G.simple_contagion_rule(repo, rep)
    G.complex_contagion_rule(repo, rep)

PROPS["C03"] = _gill


def _misc(repo, rep):
    from .rules import misc as M
    M.r10(repo, rep)
    M.transform_history_rule(repo, rep)
    M.r14(repo, rep)
    M.r15(repo, rep)
    M.subsample_rule(repo, rep)
    M.investigation_rule(repo, rep)

PROPS["C20"] = _misc


def _ode(repo, rep):
    from .rules import ode as O
    O.r2r3(repo, rep, ["analytic"])
    O.time_grid(repo, rep)
    O.conservation(repo, rep)
    O.r4(repo, rep)
    O.r6(repo, rep)
    O.degree_roles(repo, rep)

PROPS["C06"] = _ode
