"""Flag-enumerating abstract interpreter (rules R2 None-flow, R3 definite
assignment).

Domain per name: NONE, TRUE, FALSE, OTHER (some non-None value), UNBOUND.
Every parameter whose default is None / True / False is enumerated over
{NONE, OTHER} resp. {TRUE, FALSE}; all other parameters are OTHER.  Branches
whose test is decided by the abstract values are followed on the decided arm
only; undecided tests fork.  Environments are deduplicated after every
statement, which keeps the number of paths small because the domain is tiny.
Calls into the package are entered with the abstract values of the actuals
(memoised per (callee, abstract binding), depth bounded)."""
import ast
import builtins
import itertools

from .core import own_nodes, Func, resolve_callee, bind_call, BindError, short

NONE, TRUE, FALSE, OTHER, UNBOUND = "None", "True", "False", "other", "UNBOUND"
BUILTINS = set(dir(builtins))
MAX_DEPTH = 4
MAX_ENVS = 256


class Finding:
    __slots__ = ("rule", "func", "node", "what", "path")

    def __init__(self, rule, func, node, what, path):
        self.rule, self.func, self.node, self.what, self.path = rule, func, node, what, path


def module_globals(repo, module):
    names = set()
    for st in repo.mods[module].body:
        if isinstance(st, (ast.FunctionDef, ast.ClassDef)):
            names.add(st.name)
        elif isinstance(st, ast.Import):
            for a in st.names:
                names.add((a.asname or a.name).split(".")[0])
        elif isinstance(st, ast.ImportFrom):
            for a in st.names:
                if a.name == "*":
                    # from EoN.x import * : every public name of that module
                    mod = (st.module or "").split(".")[-1]
                    if mod in repo.mods:
                        for s2 in repo.mods[mod].body:
                            if isinstance(s2, (ast.FunctionDef, ast.ClassDef)) and not s2.name.startswith("_"):
                                names.add(s2.name)
                else:
                    names.add(a.asname or a.name)
        elif isinstance(st, ast.Assign):
            for t in st.targets:
                for n in ast.walk(t):
                    if isinstance(n, ast.Name):
                        names.add(n.id)
    return names


def local_names(fnode):
    """Names bound anywhere in the function (not nested defs' internals)."""
    cached = getattr(fnode, "_sa_local_names", None)
    if cached is not None:
        return cached
    out = _local_names(fnode)
    fnode._sa_local_names = out
    return out


def _local_names(fnode):
    out = set()
    for n in own_nodes(fnode):
        if isinstance(n, ast.Name) and isinstance(n.ctx, (ast.Store, ast.Del)):
            out.add(n.id)
        elif isinstance(n, (ast.FunctionDef, ast.ClassDef)) and n is not fnode:
            out.add(n.name)
        elif isinstance(n, ast.ExceptHandler) and n.name:
            out.add(n.name)
        elif isinstance(n, (ast.Import, ast.ImportFrom)):
            for a in n.names:
                out.add((a.asname or a.name).split(".")[0])
    return out


def comp_targets(node):
    out = set()
    for n in ast.walk(node):
        if isinstance(n, ast.comprehension):
            for m in ast.walk(n.target):
                if isinstance(m, ast.Name):
                    out.add(m.id)
        elif isinstance(n, ast.Lambda):
            for a in n.args.args + n.args.kwonlyargs:
                out.add(a.arg)
            if n.args.vararg:
                out.add(n.args.vararg.arg)
            if n.args.kwarg:
                out.add(n.args.kwarg.arg)
    return out


class Interp:
    def __init__(self, repo):
        self.repo = repo
        self.findings = []
        self.memo = {}
        self.globals = {m: module_globals(repo, m) for m in repo.mods}
        self.calls_entered = 0
        self.paths = 0

    # ------------------------------------------------------------------
    def run_entry(self, func, assignment):
        """assignment: dict param -> abstract value for the flag parameters."""
        env = {}
        for p in func.all_params:
            env[p] = assignment.get(p, OTHER)
        self.call(func, env, (), "%s(%s)" % (func.name, ", ".join("%s=%s" % kv for kv in sorted(assignment.items()))))

    def call(self, func, env, stack, path):
        key = (func.qual, tuple(sorted(env.items())))
        if key in self.memo:
            return
        self.memo[key] = True
        self.calls_entered += 1
        locs = local_names(func.node)
        # enclosing function names are visible (closures): treat as OTHER
        outer = set()
        f = func.parent
        while f is not None:
            outer |= set(f.all_params) | local_names(f.node)
            f = f.parent
        fr = _Frame(self, func, locs, outer, stack, path)
        start = dict(env)
        for n in locs:
            start.setdefault(n, UNBOUND)
        fr.exec_block(func.node.body, [start])

    def report(self, rule, func, node, what, path):
        self.findings.append(Finding(rule, func, node, what, path))


class _Frame:
    def __init__(self, interp, func, locs, outer, stack, path):
        self.I = interp
        self.func = func
        self.locs = locs
        self.outer = outer
        self.stack = stack
        self.path = path
        self.glob = interp.globals[func.module]
        self.loop_exits = []

    # -- environments ------------------------------------------------------
    @staticmethod
    def dedupe(envs):
        seen = {}
        for e in envs:
            seen[tuple(sorted(e.items()))] = e
        out = list(seen.values())
        if len(out) > MAX_ENVS:
            # join everything name-wise (sound for R3: UNBOUND wins; for R2: NONE wins)
            j = {}
            for e in out:
                for k, v in e.items():
                    if k not in j:
                        j[k] = v
                    elif j[k] != v:
                        j[k] = UNBOUND if UNBOUND in (j[k], v) else (NONE if NONE in (j[k], v) else OTHER)
            out = [j]
        return out

    # -- expressions ----------------------------------------------------------
    def ev(self, e, env, scope=()):
        """Abstract value of e; reports uses of None / unbound names."""
        if e is None:
            return OTHER
        if isinstance(e, ast.Constant):
            if e.value is None:
                return NONE
            if e.value is True:
                return TRUE
            if e.value is False:
                return FALSE
            return OTHER
        if isinstance(e, ast.Name):
            if e.id in scope:
                return OTHER
            if e.id in env:
                v = env[e.id]
                if v == UNBOUND:
                    self.I.report("R3", self.func, e, "local name `%s` is read before it is assigned on this path" % e.id, self.path)
                    return OTHER
                return v
            if e.id in self.outer or e.id in self.glob or e.id in BUILTINS:
                return OTHER
            self.I.report("R3", self.func, e, "name `%s` is not defined anywhere (not a local, parameter, module-level name or builtin)" % e.id, self.path)
            return OTHER
        if isinstance(e, ast.NamedExpr):
            v = self.ev(e.value, env, scope)
            if isinstance(e.target, ast.Name):
                env[e.target.id] = v
            return v
        if isinstance(e, ast.BoolOp):
            vals = []
            for x in e.values:
                v = self.ev(x, env, scope)
                vals.append(v)
                t = self.truth(v)
                if isinstance(e.op, ast.And) and t is False:
                    return v
                if isinstance(e.op, ast.Or) and t is True:
                    return v
                if t is None:
                    # later operands may or may not be evaluated: evaluate them on a copy
                    for y in e.values[len(vals):]:
                        self.ev(y, dict(env), scope)
                    return OTHER
            return vals[-1]
        if isinstance(e, ast.UnaryOp):
            v = self.ev(e.operand, env, scope)
            if isinstance(e.op, ast.Not):
                t = self.truth(v)
                return OTHER if t is None else (FALSE if t else TRUE)
            self.use(v, e.operand, "unary operator")
            return OTHER
        if isinstance(e, ast.Compare):
            left = self.ev(e.left, env, scope)
            rights = [self.ev(c, env, scope) for c in e.comparators]
            if len(e.ops) == 1:
                op, r = e.ops[0], rights[0]
                if isinstance(op, (ast.Is, ast.IsNot, ast.Eq, ast.NotEq)) and (NONE in (left, r)):
                    other = r if left == NONE else left
                    if other == NONE:
                        res = True
                    elif other in (TRUE, FALSE, OTHER):
                        res = False
                    else:
                        return OTHER
                    if isinstance(op, (ast.IsNot, ast.NotEq)):
                        res = not res
                    return TRUE if res else FALSE
                if isinstance(op, (ast.Lt, ast.Gt, ast.LtE, ast.GtE)):
                    self.use(left, e.left, "ordering comparison")
                    self.use(r, e.comparators[0], "ordering comparison")
                if isinstance(op, (ast.In, ast.NotIn)):
                    self.use(r, e.comparators[0], "membership test")
            return OTHER
        if isinstance(e, ast.IfExp):
            t = self.truth(self.ev(e.test, env, scope))
            if t is True:
                return self.ev(e.body, env, scope)
            if t is False:
                return self.ev(e.orelse, env, scope)
            a, b = self.ev(e.body, dict(env), scope), self.ev(e.orelse, dict(env), scope)
            return a if a == b else OTHER
        if isinstance(e, ast.BinOp):
            l, r = self.ev(e.left, env, scope), self.ev(e.right, env, scope)
            self.use(l, e.left, "arithmetic")
            self.use(r, e.right, "arithmetic")
            return OTHER
        if isinstance(e, ast.Subscript):
            v = self.ev(e.value, env, scope)
            self.use(v, e.value, "subscript")
            self.ev(e.slice, env, scope)
            return OTHER
        if isinstance(e, ast.Slice):
            for x in (e.lower, e.upper, e.step):
                if x is not None:
                    self.ev(x, env, scope)
            return OTHER
        if isinstance(e, ast.Attribute):
            v = self.ev(e.value, env, scope)
            self.use(v, e.value, "attribute access .%s" % e.attr)
            return OTHER
        if isinstance(e, ast.Starred):
            v = self.ev(e.value, env, scope)
            self.use(v, e.value, "* unpacking")
            return OTHER
        if isinstance(e, (ast.Tuple, ast.List, ast.Set)):
            for x in e.elts:
                self.ev(x, env, scope)
            return OTHER
        if isinstance(e, ast.Dict):
            for k, v in zip(e.keys, e.values):
                if k is None:
                    vv = self.ev(v, env, scope)
                    self.use(vv, v, "** unpacking")
                else:
                    self.ev(k, env, scope)
                    self.ev(v, env, scope)
            return OTHER
        if isinstance(e, (ast.ListComp, ast.SetComp, ast.GeneratorExp, ast.DictComp)):
            sc = set(scope)
            for g in e.generators:
                v = self.ev(g.iter, env, tuple(sc))
                self.use(v, g.iter, "iteration")
                for m in ast.walk(g.target):
                    if isinstance(m, ast.Name):
                        sc.add(m.id)
                for c in g.ifs:
                    self.ev(c, env, tuple(sc))
            if isinstance(e, ast.DictComp):
                self.ev(e.key, env, tuple(sc))
                self.ev(e.value, env, tuple(sc))
            else:
                self.ev(e.elt, env, tuple(sc))
            return OTHER
        if isinstance(e, ast.Lambda):
            sc = set(scope)
            for a in e.args.args + e.args.kwonlyargs:
                sc.add(a.arg)
            if e.args.vararg:
                sc.add(e.args.vararg.arg)
            if e.args.kwarg:
                sc.add(e.args.kwarg.arg)
            # the body runs later: only undefined names are checked, not None-ness
            self.check_names(e.body, env, tuple(sc))
            return OTHER
        if isinstance(e, ast.Call):
            return self.ev_call(e, env, scope)
        if isinstance(e, ast.JoinedStr):
            for v in e.values:
                if isinstance(v, ast.FormattedValue):
                    self.ev(v.value, env, scope)
            return OTHER
        if isinstance(e, ast.FormattedValue):
            self.ev(e.value, env, scope)
            return OTHER
        return OTHER

    def check_names(self, e, env, scope):
        for n in ast.walk(e):
            if isinstance(n, ast.Name) and isinstance(n.ctx, ast.Load):
                if n.id in scope or n.id in env or n.id in self.outer or n.id in self.glob or n.id in BUILTINS:
                    continue
                if n.id in comp_targets(e):
                    continue
                self.I.report("R3", self.func, n, "name `%s` is not defined anywhere (not a local, parameter, module-level name or builtin)" % n.id, self.path)

    NONE_USERS = {"len", "set", "list", "tuple", "sum", "sorted", "iter", "enumerate", "zip", "max", "min",
                  "dict", "frozenset", "reversed", "any", "all"}

    def ev_call(self, e, env, scope):
        fn = e.func
        # value of the callee expression
        if isinstance(fn, ast.Name):
            fv = self.ev(fn, env, scope)
            if fv == NONE:
                self.I.report("R2", self.func, e, "`%s` is None here and is called" % fn.id, self.path)
        else:
            self.ev(fn, env, scope)
        argv = [self.ev(a, env, scope) for a in e.args]
        kwv = {}
        for k in e.keywords:
            v = self.ev(k.value, env, scope)
            if k.arg is None:
                self.use(v, k.value, "** unpacking")
            else:
                kwv[k.arg] = v
        if isinstance(fn, ast.Name) and fn.id in self.NONE_USERS and fn.id not in env:
            for a, v in zip(e.args, argv):
                if not isinstance(a, ast.Starred):
                    self.use(v, a, "%s()" % fn.id)
        # enter package functions
        callee = resolve_callee(self.I.repo, self.func, e)
        if isinstance(callee, Func) and len(self.stack) < MAX_DEPTH and callee.qual not in self.stack:
            try:
                skip = 1 if (callee.cls and callee.params and callee.params[0] == "self") else 0
                b, dflt, star, dstar = bind_call(callee, e.args, e.keywords, skip)
            except BindError:
                return OTHER
            cenv = {}
            for p in callee.all_params:
                if p in b and isinstance(b[p], ast.AST):
                    cenv[p] = self.ev(b[p], dict(env), scope)
                    if cenv[p] == UNBOUND:
                        cenv[p] = OTHER
                elif p in dflt:
                    d = callee.defaults[p]
                    cenv[p] = NONE if (isinstance(d, ast.Constant) and d.value is None) else (
                        TRUE if (isinstance(d, ast.Constant) and d.value is True) else (
                            FALSE if (isinstance(d, ast.Constant) and d.value is False) else OTHER))
                else:
                    cenv[p] = OTHER
            self.I.call(callee, cenv, self.stack + (self.func.qual,), self.path + " -> " + callee.name)
        return OTHER

    def use(self, v, node, how):
        if v == NONE:
            self.I.report("R2", self.func, node, "`%s` is None on this path and is used in %s" % (short(node, 50), how), self.path)

    @staticmethod
    def truth(v):
        if v in (NONE, FALSE):
            return False
        if v == TRUE:
            return True
        return None     # OTHER: truthiness of an unknown non-None value is unknown

    # -- statements --------------------------------------------------------------
    @staticmethod
    def optimistic(env, loop):
        """State after zero iterations of a loop.  Names that the loop itself
        binds (its target, anything assigned in its body) and that are still
        unbound are taken as bound: `for i, x in enumerate(xs): ...; use(x)`
        is an accepted idiom whose emptiness condition is a run-time value the
        domain cannot see.  (Stated limit of R3.)"""
        e = dict(env)
        for n in ast.walk(loop):
            if isinstance(n, ast.Name) and isinstance(n.ctx, ast.Store) and e.get(n.id) == UNBOUND:
                e[n.id] = OTHER
        return e

    def assign(self, target, value, env):
        if isinstance(target, ast.Name):
            env[target.id] = value
        elif isinstance(target, (ast.Tuple, ast.List)):
            for t in target.elts:
                self.assign(t, OTHER, env)
        elif isinstance(target, ast.Starred):
            self.assign(target.value, OTHER, env)
        elif isinstance(target, ast.Subscript):
            v = self.ev(target.value, env)
            self.use(v, target.value, "item assignment")
            self.ev(target.slice, env)
        elif isinstance(target, ast.Attribute):
            v = self.ev(target.value, env)
            self.use(v, target.value, "attribute assignment .%s" % target.attr)

    def refine(self, test, env, pol):
        """Refine env knowing test evaluated to pol (only for simple name tests)."""
        if isinstance(test, ast.UnaryOp) and isinstance(test.op, ast.Not):
            return self.refine(test.operand, env, not pol)
        if isinstance(test, ast.BoolOp):
            if isinstance(test.op, ast.And) and pol:
                for v in test.values:
                    self.refine(v, env, True)
            if isinstance(test.op, ast.Or) and not pol:
                for v in test.values:
                    self.refine(v, env, False)
            return
        if isinstance(test, ast.Compare) and len(test.ops) == 1 and isinstance(test.left, ast.Name) \
                and isinstance(test.comparators[0], ast.Constant) and test.comparators[0].value is None \
                and test.left.id in env:
            isnone = isinstance(test.ops[0], (ast.Is, ast.Eq))
            if isinstance(test.ops[0], (ast.Is, ast.IsNot, ast.Eq, ast.NotEq)):
                if pol == isnone:
                    env[test.left.id] = NONE
                elif env[test.left.id] == NONE:
                    pass
        # `if x:` true -> x is not None
        if isinstance(test, ast.Name) and test.id in env and pol and env[test.id] == NONE:
            pass

    def exec_block(self, stmts, envs):
        """Returns the list of environments that fall through."""
        for st in stmts:
            if not envs:
                return []
            nxt = []
            for env in envs:
                nxt.extend(self.exec_stmt(st, env))
            envs = self.dedupe(nxt)
        return envs

    def exec_stmt(self, st, env):
        self.I.paths += 1
        if isinstance(st, ast.Expr):
            if isinstance(st.value, ast.Constant):
                return [env]
            self.ev(st.value, env)
            return [env]
        if isinstance(st, ast.Assign):
            v = self.ev(st.value, env)
            env = dict(env)
            for t in st.targets:
                self.assign(t, v if isinstance(t, ast.Name) else OTHER, env)
            return [env]
        if isinstance(st, ast.AugAssign):
            v = self.ev(st.value, env)
            self.use(v, st.value, "augmented assignment")
            if isinstance(st.target, ast.Name):
                cur = self.ev(ast.Name(id=st.target.id, ctx=ast.Load(), lineno=st.lineno, col_offset=0), env)
                self.use(cur, st.target, "augmented assignment")
                env = dict(env); env[st.target.id] = OTHER
            else:
                self.assign(st.target, OTHER, env)
            return [env]
        if isinstance(st, ast.AnnAssign):
            if st.value is not None:
                v = self.ev(st.value, env)
                env = dict(env)
                self.assign(st.target, v, env)
            return [env]
        if isinstance(st, (ast.Return,)):
            if st.value is not None:
                self.ev(st.value, env)
            return []
        if isinstance(st, ast.Raise):
            if st.exc is not None:
                self.ev(st.exc, env)
            return []
        if isinstance(st, ast.If):
            t = self.truth(self.ev(st.test, env))
            out = []
            if t is not False:
                e1 = dict(env)
                self.refine(st.test, e1, True)
                out += self.exec_block(st.body, [e1])
            if t is not True:
                e2 = dict(env)
                self.refine(st.test, e2, False)
                out += self.exec_block(st.orelse, [e2])
            return out
        if isinstance(st, (ast.For, ast.AsyncFor)):
            v = self.ev(st.iter, env)
            self.use(v, st.iter, "iteration")
            e1 = dict(env)
            self.assign(st.target, OTHER, e1)
            self.loop_exits.append([])
            body_out = self.exec_block(st.body, [e1])
            body_out = body_out + self.loop_exits.pop()
            # second pass from the joined state is not needed for this domain:
            # values only move towards OTHER / bound
            outs = [self.optimistic(env, st)] + body_out
            outs = self.dedupe(outs)
            if st.orelse:
                outs = self.exec_block(st.orelse, outs)
            return outs
        if isinstance(st, ast.While):
            t = self.truth(self.ev(st.test, env))
            outs = []
            if t is not False:
                self.loop_exits.append([])
                body_out = self.exec_block(st.body, [dict(env)])
                outs += body_out + self.loop_exits.pop()
            if not (isinstance(st.test, ast.Constant) and st.test.value is True):
                outs.append(self.optimistic(env, st))
            else:
                # while True: leaves only through break (approximated by body states)
                outs = outs or [dict(env)]
            outs = self.dedupe(outs)
            if st.orelse:
                outs = self.exec_block(st.orelse, outs)
            return outs
        if isinstance(st, ast.Try):
            body_out = self.exec_block(st.body, [dict(env)])
            outs = list(body_out)
            for h in st.handlers:
                e1 = dict(env)
                # anything assigned in the try body may or may not be bound
                for n in ast.walk(ast.Module(body=st.body, type_ignores=[])):
                    if isinstance(n, ast.Name) and isinstance(n.ctx, ast.Store) and env.get(n.id, UNBOUND) == UNBOUND:
                        e1[n.id] = UNBOUND
                if h.name:
                    e1[h.name] = OTHER
                outs += self.exec_block(h.body, [e1])
            if st.orelse:
                outs = self.exec_block(st.orelse, self.dedupe(outs))
            if st.finalbody:
                outs = self.exec_block(st.finalbody, self.dedupe(outs))
            return outs
        if isinstance(st, (ast.With, ast.AsyncWith)):
            env = dict(env)
            for it in st.items:
                self.ev(it.context_expr, env)
                if it.optional_vars is not None:
                    self.assign(it.optional_vars, OTHER, env)
            return self.exec_block(st.body, [env])
        if isinstance(st, (ast.FunctionDef, ast.AsyncFunctionDef)):
            env = dict(env)
            env[st.name] = OTHER
            # undefined names inside the nested function
            inner_locals = local_names(st) | {a.arg for a in st.args.args + st.args.kwonlyargs + st.args.posonlyargs}
            if st.args.vararg:
                inner_locals.add(st.args.vararg.arg)
            if st.args.kwarg:
                inner_locals.add(st.args.kwarg.arg)
            for n in ast.walk(st):
                if isinstance(n, ast.Name) and isinstance(n.ctx, ast.Load):
                    if n.id in inner_locals or n.id in env or n.id in self.outer or n.id in self.glob or n.id in BUILTINS:
                        continue
                    if n.id in comp_targets(st):
                        continue
                    self.I.report("R3", self.func, n, "name `%s` used in nested function `%s` is not defined anywhere" % (n.id, st.name), self.path)
            for d in st.args.defaults + [d for d in st.args.kw_defaults if d is not None]:
                self.ev(d, env)
            return [env]
        if isinstance(st, ast.ClassDef):
            env = dict(env); env[st.name] = OTHER
            return [env]
        if isinstance(st, ast.Delete):
            env = dict(env)
            for t in st.targets:
                if isinstance(t, ast.Name):
                    env[t.id] = UNBOUND
                else:
                    self.assign(t, OTHER, env)
            return [env]
        if isinstance(st, (ast.Import, ast.ImportFrom)):
            env = dict(env)
            for a in st.names:
                env[(a.asname or a.name).split(".")[0]] = OTHER
            return [env]
        if isinstance(st, ast.Assert):
            self.ev(st.test, env)
            return [env]
        if isinstance(st, (ast.Pass, ast.Global, ast.Nonlocal)):
            return [env]
        if isinstance(st, (ast.Break, ast.Continue)):
            # leaves the loop body: the state flows to the loop exit
            if self.loop_exits:
                self.loop_exits[-1].append(dict(env))
                return []
            return [env]
        return [env]


def flag_params(func):
    """Parameters to enumerate: name -> tuple of abstract values."""
    out = {}
    for p, d in func.defaults.items():
        if isinstance(d, ast.Constant):
            if d.value is None:
                out[p] = (NONE, OTHER)
            elif d.value is True or d.value is False:
                out[p] = (TRUE, FALSE)
    return out


def analyse_entry(repo, func, interp=None, limit=4096):
    interp = interp or Interp(repo)
    flags = flag_params(func)
    names = sorted(flags)
    n = 0
    combos = itertools.product(*[flags[k] for k in names]) if names else [()]
    for combo in combos:
        n += 1
        if n > limit:
            break
        interp.run_entry(func, dict(zip(names, combo)))
    return interp, n
