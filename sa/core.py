"""Loader, symbol tables and small AST utilities shared by every rule.

Nothing under the analysed repository is imported or executed: files are read as
text and parsed with `ast`.
"""
import ast
import os
import hashlib

REPO = os.environ.get("EON_REPO", "/repo")
MODULES = ["__init__", "auxiliary", "simulation", "analytic",
           "simulation_investigation"]


class AnalysisError(Exception):
    """Raised when the analysis itself cannot be carried out (exit 2)."""


def unparse(node):
    try:
        return ast.unparse(node)
    except Exception:  # pragma: no cover
        return ast.dump(node)


def short(node, n=160):
    if node is None:
        return "<missing>"           # an argument / construct the rule looked for is not there: compares unequal to any text
    s = " ".join(unparse(node).split())
    return s if len(s) <= n else s[: n - 3] + "..."


def attr_chain(node):
    """'a.b.c' for Name/Attribute chains, else None."""
    parts = []
    while isinstance(node, ast.Attribute):
        parts.append(node.attr)
        node = node.value
    if isinstance(node, ast.Name):
        parts.append(node.id)
        return ".".join(reversed(parts))
    return None


def names_in(node):
    return {n.id for n in ast.walk(node) if isinstance(n, ast.Name)}


def is_const(node, value=None):
    if not isinstance(node, ast.Constant):
        return False
    return value is None or node.value == value


def is_none(node):
    return isinstance(node, ast.Constant) and node.value is None


class Func:
    """One function / method / nested function definition."""

    def __init__(self, node, module, parent=None, cls=None):
        self.node = node
        self.name = node.name
        self.module = module
        self.parent = parent          # enclosing Func (nested defs)
        self.cls = cls                # enclosing class name
        self.nested = {}              # name -> Func
        a = node.args
        self.posonly = [x.arg for x in a.posonlyargs]
        self.params = [x.arg for x in a.posonlyargs + a.args]
        self.kwonly = [x.arg for x in a.kwonlyargs]
        self.vararg = a.vararg.arg if a.vararg else None
        self.kwarg = a.kwarg.arg if a.kwarg else None
        self.defaults = {}
        nd = len(a.defaults)
        for name, d in zip(self.params[len(self.params) - nd:], a.defaults):
            self.defaults[name] = d
        for x, d in zip(a.kwonlyargs, a.kw_defaults):
            if d is not None:
                self.defaults[x.arg] = d

    @property
    def qual(self):
        parts = [self.name]
        p = self
        if self.cls:
            parts.append(self.cls)
        while p.parent is not None:
            p = p.parent
            parts.append(p.name)
            if p.cls:
                parts.append(p.cls)
        parts.append(self.module)
        return ".".join(reversed(parts))

    @property
    def all_params(self):
        out = list(self.params) + list(self.kwonly)
        if self.vararg:
            out.append(self.vararg)
        if self.kwarg:
            out.append(self.kwarg)
        return out

    @property
    def file(self):
        return "EoN/%s.py" % self.module

    def __repr__(self):
        return "<Func %s>" % self.qual


def own_nodes(fnode, include_lambdas=True):
    """All AST nodes of a function body, not descending into nested def/class (memoised on the node: rules never
    mutate the analysed tree)."""
    key = "_sa_own1" if include_lambdas else "_sa_own0"
    cached = getattr(fnode, key, None)
    if cached is None:
        cached = tuple(_own_nodes(fnode, include_lambdas))
        try:
            setattr(fnode, key, cached)
        except AttributeError:
            pass
    return cached


def _own_nodes(fnode, include_lambdas=True):
    stack = list(reversed(fnode.body))
    while stack:
        n = stack.pop()
        yield n
        if isinstance(n, (ast.FunctionDef, ast.AsyncFunctionDef, ast.ClassDef)):
            # the def statement itself is visible, its body is not
            continue
        for c in reversed(list(ast.iter_child_nodes(n))):
            if not include_lambdas and isinstance(c, ast.Lambda):
                continue
            stack.append(c)


_COMPLEMENT = {ast.Is: ast.IsNot, ast.IsNot: ast.Is, ast.Eq: ast.NotEq, ast.NotEq: ast.Eq,
               ast.In: ast.NotIn, ast.NotIn: ast.In}
_MIRROR = {ast.Lt: ast.Gt, ast.Gt: ast.Lt, ast.LtE: ast.GtE, ast.GtE: ast.LtE}
_INERT_CALLS = {"print", "logging.debug", "logging.info", "logging.warning", "warnings.warn", "logger.debug",
                "logger.info", "logger.warning", "sys.stdout.write", "sys.stdout.flush", "sys.stderr.write"}


def _pure_arg(e):
    """Argument expressions whose evaluation has no effect on anything the rules look at."""
    for n in ast.walk(e):
        if isinstance(n, ast.Call):
            f = attr_chain(n.func) or ""
            if f not in ("str", "len", "repr", "format", "int", "float", "round", "type") and not f.endswith(".format"):
                return False
        if isinstance(n, (ast.NamedExpr, ast.Yield, ast.YieldFrom, ast.Await)):
            return False
    return True


def _inert(st):
    if isinstance(st, ast.Pass):
        return True
    if isinstance(st, ast.Expr) and isinstance(st.value, ast.Call):
        f = attr_chain(st.value.func) or ""
        if f in _INERT_CALLS and all(_pure_arg(a) for a in st.value.args) and all(_pure_arg(k.value) for k in st.value.keywords):
            return True
    return False


class _Normaliser(ast.NodeTransformer):
    """Spelling normalisation applied to every module before analysis (semantics preserving for everything the rules
    read): inert statements (print/logging/pass next to other statements) are dropped; `not (a is b)` becomes
    `a is not b` (likewise ==/!=, in/not in); a numeric constant or `tmax` on the LEFT of an ordering comparison is
    moved to the right (`tmax > t` -> `t < tmax`, `0 < r` -> `r > 0`)."""

    def _clean(self, body):
        out = [s for s in body if not _inert(s)]
        return out or [ast.Pass()]

    def generic_visit(self, node):
        super().generic_visit(node)
        for fld in ("body", "orelse", "finalbody"):
            b = getattr(node, fld, None)
            if isinstance(b, list) and b and isinstance(b[0], ast.stmt):
                cleaned = [s for s in b if not _inert(s)]
                if fld == "body" and not cleaned:
                    cleaned = [ast.copy_location(ast.Pass(), b[0])]
                setattr(node, fld, cleaned)
        return node

    def visit_UnaryOp(self, node):
        self.generic_visit(node)
        if isinstance(node.op, ast.Not) and isinstance(node.operand, ast.Compare) and len(node.operand.ops) == 1 \
                and type(node.operand.ops[0]) in _COMPLEMENT:
            c = node.operand
            return ast.copy_location(ast.Compare(left=c.left, ops=[_COMPLEMENT[type(c.ops[0])]()], comparators=c.comparators), node)
        return node

    def visit_Compare(self, node):
        self.generic_visit(node)
        if len(node.ops) == 1 and type(node.ops[0]) in _MIRROR:
            l, r = node.left, node.comparators[0]
            lnum = isinstance(l, ast.Constant) and isinstance(l.value, (int, float)) and not isinstance(l.value, bool)
            rnum = isinstance(r, ast.Constant) and isinstance(r.value, (int, float)) and not isinstance(r.value, bool)
            ltmax = (attr_chain(l) or "").split(".")[-1] == "tmax"
            rtmax = (attr_chain(r) or "").split(".")[-1] == "tmax"
            if (lnum and not rnum) or (ltmax and not rtmax and not rnum):
                return ast.copy_location(ast.Compare(left=r, ops=[_MIRROR[type(node.ops[0])]()], comparators=[l]), node)
        return node


def normalise(tree):
    tree = _Normaliser().visit(tree)
    ast.fix_missing_locations(tree)
    return tree


class _CallCanon(ast.NodeTransformer):
    """f(a, p2=b, p3=c) -> f(a, b, c) for calls of package-level functions when the keywords name exactly the next
    positional parameters in order (semantics preserving; rules then see one spelling of a call).  The float('inf')
    spellings are unified as well."""

    def __init__(self, sigs, msigs=None):
        self.sigs = sigs
        self.msigs = msigs or {}

    def visit_Call(self, n):
        self.generic_visit(n)
        name = None
        if isinstance(n.func, ast.Name):
            name = n.func.id
        elif isinstance(n.func, ast.Attribute) and isinstance(n.func.value, ast.Name) and n.func.value.id == "EoN":
            name = n.func.attr
        if name is None and isinstance(n.func, ast.Attribute) and n.keywords:
            # method of a package class called with its required parameters by keyword: Q.add(time=t, function=f, args=a).
            # Builtin containers' methods of the same name take no keywords, so the keywords identify the method.
            req = self.msigs.get(n.func.attr)
            kw = [k.arg for k in n.keywords]
            if req and None not in kw and not any(isinstance(a, ast.Starred) for a in n.args) \
                    and kw[:len(req) - len(n.args)] == req[len(n.args):] and len(n.args) < len(req):
                k = len(req) - len(n.args)
                n.args.extend(x.value for x in n.keywords[:k])
                n.keywords = n.keywords[k:]
        if name == "float" and len(n.args) == 1 and isinstance(n.args[0], ast.Constant) and isinstance(n.args[0].value, str) \
                and n.args[0].value.lower() in ("inf", "infinity", "+inf"):
            n.args[0].value = "Inf"
        ps = self.sigs.get(name)
        if ps and not any(isinstance(a, ast.Starred) for a in n.args):
            kws = list(n.keywords)
            while kws and kws[0].arg is not None and len(n.args) < len(ps) and kws[0].arg == ps[len(n.args)]:
                n.args.append(kws.pop(0).value)
            # keywords given out of order: pull the one that names the next positional parameter
            progress = True
            while progress:
                progress = False
                if len(n.args) < len(ps):
                    for k in kws:
                        if k.arg == ps[len(n.args)]:
                            n.args.append(k.value)
                            kws.remove(k)
                            progress = True
                            break
            n.keywords = kws
        return n

    def visit_Attribute(self, n):
        self.generic_visit(n)
        if isinstance(n.value, ast.Name) and n.value.id in ("np", "numpy", "math") and n.attr in ("inf", "Inf", "infty", "Infinity"):
            return ast.copy_location(ast.Call(func=ast.Name(id="float", ctx=ast.Load()), args=[ast.Constant("Inf")], keywords=[]), n)
        return n


def canonicalise_calls(trees):
    sigs = {}
    for m, t in trees.items():
        for st in t.body:
            if isinstance(st, ast.FunctionDef):
                a = st.args
                if a.vararg is None:
                    sigs.setdefault(st.name, [x.arg for x in a.posonlyargs + a.args])
            elif isinstance(st, ast.ClassDef):
                # constructor calls: the parameters of __init__ after self
                for b in st.body:
                    if isinstance(b, ast.FunctionDef) and b.name == "__init__" and b.args.vararg is None:
                        sigs.setdefault(st.name, [x.arg for x in b.args.posonlyargs + b.args.args][1:])
    # methods of package classes: required parameters (after self), when the method name is unique in the package
    msigs, dup = {}, set()
    for m, t in trees.items():
        for st in t.body:
            if isinstance(st, ast.ClassDef):
                for b in st.body:
                    if isinstance(b, ast.FunctionDef) and not b.name.startswith("__") and b.args.vararg is None:
                        ps = [x.arg for x in b.args.posonlyargs + b.args.args][1:]
                        req = ps[:len(ps) - len(b.args.defaults)] if b.args.defaults else ps
                        if b.name in msigs:
                            dup.add(b.name)
                        msigs[b.name] = req
    for d in dup:
        msigs.pop(d, None)
    for m, t in trees.items():
        _CallCanon(sigs, msigs).visit(t)
        ast.fix_missing_locations(t)


class Repo:
    def __init__(self, root=None):
        self.root = root or REPO
        self.mods = {}
        self.src = {}
        self.funcs = {}        # qual -> Func
        self.top = {}          # (module, name) -> Func (module-level functions)
        self.classes = {}      # (module, name) -> ast.ClassDef
        self.methods = {}      # (module, class, name) -> Func
        h = hashlib.sha256()
        import warnings
        from . import alpha
        trees = {}
        for m in MODULES:
            path = os.path.join(self.root, "EoN", m + ".py")
            try:
                with open(path, encoding="utf-8") as fh:
                    text = fh.read()
            except OSError as e:
                raise AnalysisError("cannot read %s: %s" % (path, e))
            h.update(text.encode())
            with warnings.catch_warnings():
                warnings.simplefilter("ignore")
                try:
                    tree = ast.parse(text, filename=path)
                except SyntaxError as e:
                    raise AnalysisError("cannot parse %s: %s" % (path, e))
            trees[m] = normalise(tree)
            self.src[m] = text.split("\n")
        canonicalise_calls(trees)
        from . import canon
        self.equivalent = canon.restore_equivalent(trees, h.hexdigest())
        self.renamed = 0
        for m in MODULES:
            self.renamed += alpha.restore_names(trees[m], m)
            self.mods[m] = trees[m]
            self._index(trees[m], m)
        self.digest = h.hexdigest()

    def _index(self, tree, m):
        def visit_func(node, parent, cls):
            f = Func(node, m, parent, cls)
            self.funcs[f.qual] = f
            for c in own_nodes(node):
                if isinstance(c, ast.FunctionDef) and c is not node:
                    # only direct nested defs (own_nodes yields nested def nodes
                    # without entering them)
                    g = visit_func(c, f, None)
                    # last definition wins but keep all under numbered names
                    if c.name in f.nested:
                        k = 2
                        while "%s#%d" % (c.name, k) in f.nested:
                            k += 1
                        f.nested["%s#%d" % (c.name, k)] = g
                    else:
                        f.nested[c.name] = g
            return f

        def visit_class(cnode, outer):
            self.classes[(m, cnode.name)] = cnode
            for st in cnode.body:
                if isinstance(st, ast.FunctionDef):
                    f = visit_func(st, None, cnode.name)
                    self.methods[(m, cnode.name, st.name)] = f
                elif isinstance(st, ast.ClassDef):
                    visit_class(st, cnode)

        for st in tree.body:
            if isinstance(st, ast.FunctionDef):
                f = visit_func(st, None, None)
                self.top[(m, st.name)] = f
            elif isinstance(st, ast.ClassDef):
                visit_class(st, None)

    # ---- lookup -----------------------------------------------------
    def f(self, name, module=None):
        """Module-level function by name (anchor lookup; vanishing is fatal)."""
        hits = [f for (m, n), f in self.top.items()
                if n == name and (module is None or m == module)]
        if not hits:
            raise AnalysisError("anchor function vanished: %s" % name)
        return hits[0]

    def has(self, name):
        return any(n == name for (m, n) in self.top)

    def method(self, cls, name, module=None):
        hits = [f for (m, c, n), f in self.methods.items()
                if c == cls and n == name and (module is None or m == module)]
        if not hits:
            raise AnalysisError("anchor method vanished: %s.%s" % (cls, name))
        return hits[0]

    def package_level(self, name):
        """What `EoN.<name>` refers to: a Func, a ClassDef or None."""
        for m in MODULES:
            if (m, name) in self.top:
                return self.top[(m, name)]
        for m in MODULES:
            if (m, name) in self.classes:
                return self.classes[(m, name)]
        return None

    def public_functions(self, module):
        return [f for (m, n), f in self.top.items()
                if m == module and not n.startswith("_")]

    def all_funcs(self):
        return list(self.funcs.values())

    def line(self, module, lineno):
        try:
            return self.src[module][lineno - 1]
        except Exception:
            return ""


def resolve_name_call(repo, func, name):
    """Resolve a bare-name callee seen inside `func`."""
    f = func
    while f is not None:
        if name in f.nested:
            return f.nested[name]
        f = f.parent
    if (func.module, name) in repo.top:
        return repo.top[(func.module, name)]
    if (func.module, name) in repo.classes:
        return repo.classes[(func.module, name)]
    return None


def resolve_callee(repo, func, callnode):
    """Resolve the callee expression of an ast.Call to a Func/ClassDef or None."""
    fn = callnode.func if isinstance(callnode, ast.Call) else callnode
    if isinstance(fn, ast.Name):
        return resolve_name_call(repo, func, fn.id)
    ch = attr_chain(fn)
    if ch and ch.startswith("EoN.") and ch.count(".") == 1:
        return repo.package_level(ch.split(".")[1])
    if ch and ch.startswith("self.") and ch.count(".") == 1 and func.cls:
        key = (func.module, func.cls, ch.split(".")[1])
        return repo.methods.get(key)
    return None


class BindError(Exception):
    pass


def bind_call(target, args, keywords, skip=0, extra_first=()):
    """Static version of Python's argument binding.

    target : Func; args : list of ast expr (positional); keywords : list of
    ast.keyword.  `skip` leading formals are considered bound elsewhere (self).
    `extra_first` are expressions bound to the first formals (e.g. the time of
    a deferred queue call).  Returns (mapping formal -> expr or ('*', expr)),
    set of formals left at their default.
    """
    formals = target.params[skip:]
    m = {}
    pos = list(extra_first) + list(args)
    star = None
    i = 0
    for a in pos:
        if isinstance(a, ast.Starred):
            star = a
            # unknown number of positionals: stop precise binding
            break
        if i < len(formals):
            m[formals[i]] = a
        elif target.vararg:
            m.setdefault(target.vararg, []).append(a)
        else:
            raise BindError("too many positional arguments (%d > %d)" %
                            (len(pos), len(formals)))
        i += 1
    dstar = None
    for kw in keywords:
        if kw.arg is None:
            dstar = kw.value
            continue
        if kw.arg in m:
            raise BindError("multiple values for argument %r" % kw.arg)
        if kw.arg in formals or kw.arg in target.kwonly:
            m[kw.arg] = kw.value
        elif target.kwarg:
            m.setdefault(target.kwarg, {})[kw.arg] = kw.value
        else:
            raise BindError("unexpected keyword argument %r" % kw.arg)
    defaulted = set()
    for fml in formals + target.kwonly:
        if fml not in m:
            if fml in target.defaults:
                defaulted.add(fml)
            elif star is None and dstar is None:
                raise BindError("missing required argument %r" % fml)
    return m, defaulted, star, dstar
