"""Per-property MANIFEST texts (single source of truth for MANIFEST.json)."""
NOTES = ("Technique family: static analysis only (Python ast; nothing under /repo is imported or run by a check). "
         "Every claimed property is claimed at level 'other': structural necessary conditions decided for all inputs because "
         "they do not depend on run-time values; what is not decided is in level_note and DESIGN.md section 3. "
         "Exit codes: 0 held, 1 violation (VIOLATION line), 2 analysis error (ANALYSIS-ERROR line: parse failure, vanished "
         "anchor, instance count below the hand-confirmed floor, failed self-test, internal exception). "
         "Before any rule runs the parsed modules are normalised (inert statements, comparison/call spellings, local names) and every "
         "function whose canonical form equals that of the frozen reference copy sa/reference/EoN (semantics-preserving rewrites only: "
         "sa/canon.py) is analysed as the reference function, so refactorings do not raise alarms; any other function is analysed as "
         "written. thorough = quick + self-test of the rules on /repo's current source: AST-computed broken and benign variants, the "
         "confirmed seeded changes of independent sub-agents recorded for the property (must still be reported) and their "
         "behaviour-preserving refactorings (must stay silent).")

NOT_APPLICABLE = {
    "C07": "agreement of the solution curves of structurally different ODE systems (EBCM vs pairwise vs effective degree; "
           "regular-graph reductions) is a change-of-variables theorem / numerical comparison; no clause is visible in code "
           "shape. The only structural necessary condition, state-vector layout agreement of each model, is claimed under C06.",
    "C08": "agreement with the 3^N master equation on trees, of attack-rate fixed points with t->infinity limits, and of the "
           "tau=0 / gamma=0 limits are numeric identities against independently computed answers; no sound static argument "
           "in reach (DESIGN.md section 4).",
}

TB = " Trusted base: CPython ast grammar; rule tables in sa/tables.py and the rule modules; user callbacks do not mutate library state."


def _m(text, note, technique):
    return {"text": text, "note": note + TB, "technique": technique}


META = {
 "C01": _m(
  "Decides, for every input, the bookkeeping on which exact sampling rests: Gillespie_SIR's clock rate and event-type "
  "probability are gamma*W(infecteds)+tau*W(IS_links) with each arm sampling the matching set (symbolic expansion, before "
  "the loop and after every event); the I-S link set is maintained exactly (exhaustive abstract case analysis: event x "
  "neighbour status x orientation, plus the initial fill); weight plumbing (_get_rate_functions_, edgeweight/nodeweight, "
  "weighted flag <=> label); _ListDict_ invariants; fast_SIR's forwarding, queue discipline, handler scheduling guards, the "
  "binomial/truncated-exponential helper's shape, lock-step +-1 rows, and the full-data hand-off of the event-driven path "
  "(histories built only from executed events, rebuilt per node by _transform_to_node_history_), the requested initial condition "
  "is the one used (None-tests, never truthiness), a self-loop never creates an I-S link, and every event runs to the end of "
  "the loop body (no `continue` past the clock). "
  "Gillespie_SIR / Gillespie_SIS stamp the records of the initial condition with tmin, before the clock is advanced (R10t). "
  "In every function reachable from the property's entry points no dict.fromkeys(keys, v) / [v]*n hands one mutable object or one random draw to all keys (SHARE). "
  "_ListDict_ keeps no mutable class-level attribute (STATE): the candidate sets of one run are not those of the previous one.",
  "Not decided: that binomial + truncated exponential equals independent exponential clocks, any distributional equality, numeric rates.",
  "ast: symbolic rate expansion, exhaustive abstract case analysis of incremental set maintenance (R11), call-binding (R1), control-context facts (H-guard), class-invariant rules (R12)"),
 "C02": _m(
  "Same rate/selection consistency and exhaustive I-S link analysis for Gillespie_SIS including re-insertion of (nbr, n) links "
  "on recovery; for fast_SIS: recovery time assigned on every path before scheduling, transmission only before the source's "
  "recovery, re-scheduling of the (source, target) pair on every path (also when the target was already infected), a FRESH "
  "exponential after the target's recovery (memorylessness), role binding of queued events, queue discipline, +-1 rows; the "
  "requested initial set is the one used; a self-loop never creates an I-S link; no `continue` past the clock. "
  "Gillespie_SIR / Gillespie_SIS stamp the records of the initial condition with tmin, before the clock is advanced (R10t). "
  "In every function reachable from the property's entry points no dict.fromkeys(keys, v) / [v]*n hands one mutable object or one random draw to all keys (SHARE). "
  "_ListDict_ keeps no mutable class-level attribute (STATE): the candidate sets of one run are not those of the previous one.",
  "Not decided: the memorylessness argument itself and all distributional content.",
  "ast: symbolic rate expansion, R11 case analysis, handler guard/role rules over control-context facts, R1, R13, R9"),
 "C03": _m(
  "For Gillespie_simple_contagion: total rate and selection loop use the same term rate*total_weight over the same sorted "
  "list and the total is recomputed after every event; every remove/update of potential_transitions in the update section is "
  "guarded by transition[0] == (statuses of exactly the key it touches, old status for remove, new for update) with weight "
  "get_weight[transition][key]; coverage of key shapes is complete for the spontaneous, undirected and directed sections; "
  "initial fill, rate tables, weight tables and event application read the matching spec graph/components. "
  "_ListDict_ keeps no mutable class-level attribute (STATE): the candidate sets of one run are not those of the previous one. "
  "Every loop of the event section that changes candidate sets carries the roundoff guard.",
  "Not decided: that the resulting process has the stated law; behaviour of user rate functions.",
  "ast: exhaustive key-shape x operation analysis of the enabled-event sets (R11s), selection/clock agreement, R12, R9"),
 "C04": _m(
  "For all twelve simulators: on every path through an event block the series are appended in lock-step, counts change by "
  "+-1 matching the status written (or one -1/+1 pair on reported statuses for the generic simulators), initial rows sum to "
  "G.order() (linear normal form), first time is tmin, synthetic initial rows are sliced off by the number enqueued, every "
  "reported time is dominated by t<tmax / passes myQueue.add's `time < tmax`, every expovariate rate is guarded against 0, "
  "no flag combination of a simulator entry point uses None or an unbound name, and in Gillespie_simple_contagion the "
  "move applied is the chosen transition's (candidate sets guarded by exactly the statuses of their key: no stale candidate); "
  "in Gillespie_SIR/SIS the I-S link set is exact (R11, incl. self-loops), so no event fires on a non-susceptible node. "
  "An emptied weighted candidate set weighs exactly 0 whatever weight left last (R12.I6), so the generic loops stop at extinction instead of drawing from an empty list. "
  "In every function reachable from the property's entry points no dict.fromkeys(keys, v) / [v]*n hands one mutable object or one random draw to all keys (SHARE). "
  "The event handlers never rebind their time parameter, the series are cut only after the event loop has run (R9.C04), and with full data the rows are read off histories rebuilt from every recorded infection and recovery (HIST).",
  "Not decided: monotonicity of time (non-negativity of run-time delays), termination with I=0.",
  "ast: path enumeration through event blocks (R9), control-context domination (R13, R17), flag-enumerating abstract interpreter (R2/R3)"),
 "C05": _m(
  "For all simulators: rho together with initial_infecteds raises EoNError under `is not None` tests placed before any use; "
  "default/rho seeding is int(round(N*rho)) nodes by random.sample(list(G), n); a single node is wrapped; first S and R depend "
  "on initial_recovereds; initially recovered nodes are marked unconditionally before the status map is first read; initial "
  "history entries are at tmin; wrappers forward every initial-condition parameter to the same-named parameter (no crossing, "
  "no drop, on every branch); optional arguments with falsy legitimate values are never tested by truth value; node_status / "
  "get_statuses (through which per-node statuses at tmin are read) count change times <= t. "
  "Gillespie_SIR / Gillespie_SIS stamp the records of the initial condition with tmin, before the clock is advanced (R10t). "
  "In every function reachable from the property's entry points no dict.fromkeys(keys, v) / [v]*n hands one mutable object or one random draw to all keys (SHARE).",
  "Not decided: run-time truthiness of array-typed containers; per-node histories of a run.",
  "ast: guard-shape and ordering rules (R10), call-binding (R1), wrapper data-flow (R16w), parameter use (R16)"),
 "C06": _m(
  "For all ODE entry points: time grid is np.linspace(tmin,tmax,tcount) and is what is returned; S+I(+R) equals the population "
  "by construction (linear normal form has no term depending on the integrator output, or the right-hand sides cancel "
  "symbolically); initial vector, right-hand-side unpacking, derivative vector and solution unpacking agree in order and "
  "offsets for all 19+ solver/rhs pairs; wrappers forward same-named parameters; degree-class initial arrays are filled for "
  "the node/edge whose statuses name them; no None use or unbound name on any combination of optional arguments (all "
  "assignments enumerated, callee bodies entered); list-or-array arguments are converted before arithmetic (ARR); the *_pure_IC "
  "indicator arrays mark exactly the requested sets (alias-aware taint, ICP); with a nodelist in scope positional data is built "
  "over nodelist, never in graph order (ORD). "
  "Aggregates over a block of the solution are taken before the block is reshaped in place to three dimensions (R4s); no dict.fromkeys / [v]*n hands one mutable object to every degree class or node (SHARE over analytic). "
  "The defaultdict status map is only subscripted, never counted or iterated (DEFMAP); no right-hand side writes into the state vector the integrator hands it (R5 on the 21 right-hand sides); a 3-D block is not transposed with .T (R4s).",
  "Not decided: solver tolerance, bounds [0,N], monotonicity, documented order of return tuples (docstrings are inconsistent), array shapes.",
  "ast: flag-enumerating abstract interpreter (R2/R3), linear normaliser (CONS), layout agreement by offset evaluation (R4), call-binding (R1/R16w), role rules"),
 "C09": _m(
  "Every simulator that maintains a (t, source, target) list hands it to Simulation_Investigation; on every infection path "
  "exactly one record (event time, source, node whose status is written) is appended; queued events bind source := the node "
  "that was set infectious in the scheduling block and target := a neighbour of it (re-scheduling keeps the pair); Gillespie "
  "pairs are sampled I-S links (R11); source-less records occur only in loops over initial_infecteds; the discrete-time "
  "infector is one of the nodes that infected v in that generation; transmissions()/transmission_tree() serve what was stored. "
  "Gillespie_SIR / Gillespie_SIS stamp the records of the initial condition with tmin, before the clock is advanced (R10t). "
  "In every function reachable from the property's entry points no dict.fromkeys(keys, v) / [v]*n hands one mutable object or one random draw to all keys (SHARE). "
  "Which attempts of fast_nonMarkov_SIS are queued (first attempt, exactly the rest carried, shifted copies of the user's delays) is decided by H-chain.",
  "Not decided: forest shape and time ordering of the list (run-time).",
  "ast: constructor agreement (R8), record pairing on enumerated paths (R9.C09), handler role binding (H-role), R11"),
 "C10": _m(
  "No random draw, user-callable call or drawing package call in the continuous-time simulators is control dependent on "
  "return_full_data; every series row has the matching history record (same node, same time variable); histories are built "
  "only from executed events (status filters at the hand-off) and start at tmin; _transform_to_node_history_ resets the "
  "default entry for events at tmin in every loop; node_status and get_statuses both compute statuses[#(change times <= t) - 1]; "
  "summary applies +1/-1 at the change time; t/S/I/R read the summary; pred_inf_time (which becomes the history's infection "
  "time) is lowered only together with a queued transmission. "
  "Gillespie_SIR / Gillespie_SIS stamp the records of the initial condition with tmin, before the clock is advanced (R10t). "
  "In every function reachable from the property's entry points no dict.fromkeys(keys, v) / [v]*n hands one mutable object or one random draw to all keys (SHARE).",
  "Not decided: equality of reconstructed and running counts as numbers.",
  "ast: control dependence on return_full_data (R7c), history pairing (R9.C10), hand-off and sibling-shape rules"),
 "C11": _m(
  "_process_trans_SIR_: status guard, recovery time = time + duration set before scheduling, transmission enqueued iff "
  "inf_time <= rec_time[source] and inf_time < pred_inf_time[v] (comparators as the property states), pred_inf_time paired "
  "with every Q.add, candidates are the susceptible neighbours; myQueue pushes only under time < tmax with (time, counter) "
  "keys; adapters bind user rules without crossing; percolation builders add every node and exactly the edges delay <= "
  "duration; get_infected_nodes removes initially recovered nodes before taking the out-component; the initially infected set "
  "is the requested one (None-tests, never truthiness; single node wrapped); the full-data histories on which the property is "
  "observed are rebuilt from every recorded infection and every recorded recovery (HIST). "
  "In every function reachable from the property's entry points no dict.fromkeys(keys, v) / [v]*n hands one mutable object or one random draw to all keys (SHARE).",
  "Not decided: the Dijkstra argument itself, tie handling inside the heap beyond the counter.",
  "ast: control-context facts for scheduling guards (H-guard), queue discipline (R13), role agreement of builders (R14), R1"),
 "C12": _m(
  "basic_discrete_SIR / percolation_based_discrete_SIR bind every argument to the same-named parameter of discrete_SIR; one "
  "Bernoulli test per (infectious, susceptible neighbour) contact with the susceptibility test first; infection <=> flag "
  "cleared <=> nS -= 1; generation hand-over; one row per step by +1 in time under t[-1] < tmax; initial row sums to N and "
  "counts initial_recovereds; percolate_network keeps G's nodes and draws once per edge; the initial set is the requested one "
  "(None-tests, never truthiness). "
  "In every function reachable from the property's entry points no dict.fromkeys(keys, v) / [v]*n hands one mutable object or one random draw to all keys (SHARE).",
  "Not decided: transition probabilities as numbers.",
  "ast: call-binding (R1), contact-loop shape rules (DISC), row rules (R9), R14"),
 "C13": _m(
  "_process_trans_SIS_nonMarkov_: first attempt enqueued and exactly the complement slice [1:] carried, at both sites; "
  "attempts inside the target's infectious period dropped only under status[v]=='I'; remaining attempts re-queued on every "
  "path (outside the infection block) with the same (source, target); adapter tuple binds the user functions' args without "
  "crossing; queue discipline; +-1 rows; per-node histories rebuilt by _transform_to_node_history_ (HIST); the requested "
  "initial set is the one used (TRUTHY, R10a/b). "
  "In every function reachable from the property's entry points no dict.fromkeys(keys, v) / [v]*n hands one mutable object or one random draw to all keys (SHARE).",
  "Not decided: equality with the reference history; ordering of user delay lists.",
  "ast: attempt-chaining rules over reaching definitions (H-chain), role binding, protocol binding (H-proto), R13, R9"),
 "C14": _m(
  "In analytic.py and simulation.py no value known to be a node (loop variable over G, nodelist, neighbours, edges, initial "
  "sets) subscripts anything but a node-keyed map / graph view, no position subscripts a node-keyed map, adjacency matrices "
  "are built in nodelist order wherever a nodelist is in scope, nodelist is forwarded by wrappers, and degree-class arrays are "
  "indexed by the degree of the node whose status names them; every loop that fixes the position of a degree class in a packed "
  "state vector uses one order on both sides (R4o); a node label is never used as a truth value (TRUTHY), compared by identity, "
  "or put into a numpy array / numpy set function (R6n); with a nodelist in scope no positional sequence is built in graph order (ORD). "
  "No dict.fromkeys / [v]*n hands one mutable object to every degree class or node (SHARE over analytic).",
  "Not decided: floating-point rounding under re-ordering.",
  "ast: node/position kind inference (R6), role rules for degree-class arrays, layout-order agreement (R4o), call-binding for nodelist, TRUTHY/IDENT"),
 "C15": _m(
  "Gillespie_complex_contagion: loop runs exactly while total_weight()>0 and t<tmax; clock is Exp(total_weight()) under a >0 "
  "guard before the loop and after every event; select, ask the chooser on pre-event statuses, write; the changed node and "
  "every member of get_influence_set(G,node,status,parameters) are re-rated unconditionally with rate_function on the new "
  "statuses between the write and the clock; no `continue` skips that tail; +-1 data rows; _ListDict_ insert/remove semantics (R12). "
  "_ListDict_ keeps no mutable class-level attribute (STATE): the candidate sets of one run are not those of the previous one.",
  "Not decided: adequacy of the user's influence set (assumed by the property).",
  "ast: ordering and must-pass-through rules on the loop body (R11c), R12, R9"),
 "C16": _m(
  "_ListDict_: every change of weight[k] paired with the same change of _total_weight; max_weight raised after every raising "
  "store and lowered only by exact recomputation; items/position bijection; choose_random accepts iff random() < "
  "weight/max_weight on a uniform proposal; total_weight() accessor; insert = remove + update unless weight 0; and in the four "
  "Gillespie simulators the clock rate is the sum of the CURRENT total weights of the candidate sets, recomputed after every event "
  "(symbolic expansion, RATE / R11c). "
  "_ListDict_ keeps no mutable class-level attribute (STATE): the candidate sets of one run are not those of the previous one. "
  "Every loop of Gillespie_simple_contagion's event section that changes candidate sets carries the roundoff guard. "
  "The weighted lists of Gillespie_SIR / Gillespie_SIS / Gillespie_simple_contagion hold exactly the enabled candidates (R11, R11s): a stale or dropped entry makes the total differ from the sum of the current weights.",
  "Not decided: floating-point drift of _total_weight ('to rounding'); negative increments (outside the quantifier).",
  "ast: class-invariant rules on symbolic store deltas and control-context facts (R12), symbolic rate expansion (RATE)"),
 "C17": _m(
  "estimate_SIR_prob_size_from_dir_perc = (|in-component|, |out-component|) of a node of the largest SCC of the whole H over "
  "H.order(); estimate_SIR_prob_size = largest component of percolate_network(G,p) over G.order() twice; wrappers build H "
  "with the builder that keeps all nodes; xi/zeta and delay<=duration edge rules; component helpers use ancestors/descendants. "
  "The start node of the component search is a member of the largest SCC chosen without ordering node labels.",
  "Not decided: nothing numeric beyond set sizes; ties between equally large components are resolved by max (any satisfies the statement).",
  "ast: role-agreement rules with local definition expansion (R14), R1"),
 "C18": _m(
  "Who-may-draw: only module-level random.* / legacy np.random.* (no private generators, re-seeding, time/hash/id/os entropy, "
  "entropy imports; positive fixture must fire); no iteration/pop/list() over a set in the continuous-time simulators and what "
  "they reach (set algebra on keys views included); selection lists sorted(); no draw control dependent on return_full_data; "
  "full-data hand-off reads only executed events; no simulator modifies its arguments (a repeated call sees the same inputs); no "
  "state survives a call (no allocating default argument, no mutable class-level attribute: STATE). "
  "Iteration over the sets held by a mapping of sets (nx.utils.groups) counts as hash-ordered iteration (R7b). "
  "The initial infected set is normalised as in every sibling and then used in the caller's order (R10a/b); initially recovered nodes are marked whether or not full data is requested (R10c/d).",
  "Not decided: byte equality across processes (a two-execution property).",
  "ast: forbidden-source scan with positive fixture (R7a), container-kind inference for set iteration (R7b), control dependence (R7c), argument-effect analysis (R5)"),
 "C19": _m(
  "No public simulator or ODE entry point stores into, deletes from, reshapes, augments in place or calls a mutator on an "
  "object that may alias one of its arguments, directly or through any package function, queue handler or ODE right-hand "
  "side it calls (flow-sensitive alias walk: same / view; bottom-up effect summaries to a fixpoint); no global statements; a "
  "mapping of defaultdict rows that the package itself produces (get_Pnk) is read only with keys of the row read (R5d: a miss "
  "would insert into the caller's object); no allocating default argument or mutable class attribute (STATE). "
  "Objects are followed through displays (for b in (Y0, XY0)) and shallow copies (X.copy(), dict(X), list(X): the rows of a copied dict of dicts are still the caller's); SHARE over analytic. "
  "The state vector handed to an ODE right-hand side is not written through any view of it. "
  "Containers handed back by user callbacks (delay lists of fast_nonMarkov_SIS, influence sets of Gillespie_complex_contagion) are read, never changed (H-chain, R11c).",
  "Not decided: 'returns identical results' beyond absence of effects and hidden state.",
  "ast: interprocedural argument-effect analysis (R5), read-inserts rule for defaultdict rows (R5d)"),
 "C20": _m(
  "PGF lambdas parsed into Pk . (coef * x**(ks-c)) and differentiated by the power rule in the checker: psi' = d psi, psi'' = "
  "d psi' over the full support 0..maxk; estimate_R0 = T psi''(1)/psi'(1) with T = tau/(tau+gamma); get_Pk / get_Pnk counting "
  "shape; subsample is a two-pointer scan with <= whose recursion shifts the remaining series; get_time_shift is a first-crossing scan. "
  "The degree grid of get_PGFPrime / get_PGFDPrime is a float array (negative integer powers of an integer argument raise).",
  "Not decided: numeric identities psi(1)=1 etc. (follow from the shapes checked), behaviour on malformed grids.",
  "ast: symbolic differentiation of a small polynomial term language (R15), scan-shape rules (SUB)"),
}
