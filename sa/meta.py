"""Per-property MANIFEST texts."""
NOTES = ("Technique family: static analysis only (Python ast; nothing under /repo is imported or run by a check). "
         "Every claimed property is claimed at level 'other': structural necessary conditions decided for all inputs; "
         "what is not decided is in level_note and DESIGN.md section 3. Exit codes: 0 held, 1 violation, 2 analysis error.")

NOT_APPLICABLE = {
    "C07": "agreement of the solution curves of structurally different ODE systems is a change-of-variables theorem / numerical comparison; no clause is visible in code shape (the only structural necessary condition, state-vector layout agreement, is claimed under C06)",
    "C08": "agreement with the 3^N master equation on trees, with t->infinity limits and tau=0/gamma=0 limits are numeric identities against independently computed answers; no sound static argument in reach (DESIGN.md section 4)",
}

def _m(text, note, technique):
    return {"text": text, "note": note, "technique": technique}

META = {
 "C01": _m("", "", ""), "C02": _m("", "", ""), "C03": _m("", "", ""), "C04": _m("", "", ""),
 "C05": _m("Static necessary conditions, for every input: wrappers bind every initial-condition argument to the same-named parameter of the simulator they call (no crossing, no dropped pass-through), every simulator reads its semantic parameters.",
           "Decides argument plumbing and guard shape, not the per-node histories of a run. Trusted: ast grammar; rule tables in sa/tables.py.",
           "ast call-graph + static argument binding (R1), parameter-use (R16), initial-condition discipline (R10)"),
 "C06": _m("", "", ""), "C07": _m("", "", ""), "C08": _m("", "", ""), "C09": _m("", "", ""), "C10": _m("", "", ""),
 "C11": _m("", "", ""), "C12": _m("", "", ""), "C13": _m("", "", ""), "C14": _m("", "", ""), "C15": _m("", "", ""),
 "C16": _m("", "", ""), "C17": _m("", "", ""), "C18": _m("", "", ""), "C19": _m("", "", ""), "C20": _m("", "", ""),
}
