"""Obligation bookkeeping, known-findings comparison, evidence output."""
import ast
import json
import os
import time

from .core import short, AnalysisError

VERIF = os.path.dirname(os.path.dirname(os.path.abspath(__file__)))
KNOWN_PATH = os.path.join(VERIF, "known_findings.json")
EVID_DIR = os.path.join(VERIF, "evidence")


class Report:
    def __init__(self, prop, tier="quick", seed=0):
        self.prop = prop
        self.tier = tier
        self.seed = seed
        self.t0 = time.time()
        self.obs = []          # every obligation examined
        self.pending_floors = []   # floors not reached: an analysis error unless some obligation failed (see failures())
        self.notes = []
        self.functions = set()
        self.rules = {}        # rule id -> one line description
        self.counts = {}       # free-form measured counts
        self.assumptions = []
        self.selftest = None
        self.only = None       # when set: keep only obligations whose rule id starts with one of these

    # -- recording -------------------------------------------------------
    def rule(self, rid, text):
        self.rules[rid] = text

    def analysed(self, func):
        self.functions.add(func.qual if hasattr(func, "qual") else str(func))

    def ob(self, rule, ok, instance, detail="", func=None, node=None, construct=None):
        """Record one obligation.  `instance` names the rule instance (stable
        across line moves); `construct` is the normalised source text of the
        offending construct (defaults to `node`)."""
        if self.only is not None and not any(rule == p or rule.startswith(p + ".") or rule.startswith(p) for p in self.only):
            return bool(ok)
        if func is not None:
            self.analysed(func)
        line = getattr(node, "lineno", None) if node is not None else None
        if construct is None and node is not None:
            construct = short(node, 200)
        self.obs.append({
            "rule": rule, "ok": bool(ok), "instance": instance,
            "detail": detail,
            "function": (func.qual if hasattr(func, "qual") else func) or "-",
            "file": (func.file if hasattr(func, "file") else None),
            "line": line, "construct": construct or instance,
        })
        return bool(ok)

    def keep(self, *prefixes):
        """Context manager: record only obligations of the given rule ids."""
        rep = self

        class _K:
            def __enter__(self_):
                self_.old = rep.only
                rep.only = list(prefixes) if prefixes else None

            def __exit__(self_, *a):
                rep.only = self_.old
        return _K()

    def note(self, text):
        self.notes.append(text)

    def count(self, key, n=1):
        self.counts[key] = self.counts.get(key, 0) + n

    def floor(self, rule, what, n, minimum):
        """A rule that matches fewer instances than were confirmed by hand is
        not believed: analysis error, never a silent pass."""
        self.counts["%s:%s" % (rule, what)] = n
        if self.only is not None and not any(rule == p or rule.startswith(p) or p.startswith(rule) for p in self.only):
            return          # the rule's obligations are not part of the property being checked (rep.keep): neither is its floor
        if n < minimum and any((not o["ok"]) and o["rule"].startswith(rule) for o in self.obs):
            # the rule already reports what is wrong with the construct it could not match:
            # a finding, not a vacuous pass
            return
        if n < minimum:
            # not raised on the spot: the other rules of the property still run, and if one of them reports a violation of
            # the restructured code the verdict is that violation (exit 1), with the floor as a note; if nothing is reported
            # the run is an analysis error (exit 2) - a vanished anchor is never a silent pass
            self.pending_floors.append("%s: only %d %s found, confirmed floor is %d (anchor moved or rule no longer matches)"
                                       % (rule, n, what, minimum))

    # -- finishing -------------------------------------------------------
    def failures(self):
        fails = [o for o in self.obs if not o["ok"]]
        if self.pending_floors and not fails:
            raise AnalysisError(self.pending_floors[0])
        return fails

    def finish(self):
        known = load_known()
        fails = self.failures()
        new, listed = [], []
        seen = set()
        for o in fails:
            key = (o["rule"], o["function"], o["construct"])
            if key in seen:
                continue
            seen.add(key)
            k = match_known(known, self.prop, o)
            if k is not None:
                listed.append((o, k))
            else:
                new.append(o)
        for o, k in listed:
            print("KNOWN-FINDING: property=%s %s %s: %s" %
                  (self.prop, o["rule"], o["function"], k.get("what", o["detail"])))
        replay = os.path.join(EVID_DIR, "%s.findings.json" % self.prop)
        os.makedirs(EVID_DIR, exist_ok=True)
        with open(replay, "w") as fh:
            json.dump({"property": self.prop, "new": new,
                       "known": [o for o, _ in listed]}, fh, indent=1)
        for msg in self.pending_floors:
            print("NOTE (rule could not match its anchors) %s" % msg)
        for o in new:
            print("FINDING %s:%s %s [%s] %s :: %s -- %s" % (
                o["file"] or "-", o["line"] or "-", o["function"], o["rule"],
                o["instance"], o["construct"], o["detail"]))
        if self.pending_floors and not new:
            raise AnalysisError(self.pending_floors[0])
        self.write_evidence(len(new), len(listed))
        if new:
            print("VIOLATION property=%s replay=%s" % (self.prop, replay))
            return 1
        return 0

    def write_evidence(self, nviol, nknown):
        obs = self.obs
        distinct = {(o["rule"], o["instance"], o["function"]) for o in obs}
        by_rule = {}
        for o in obs:
            r = by_rule.setdefault(o["rule"], {"obligations": 0, "held": 0})
            r["obligations"] += 1
            r["held"] += 1 if o["ok"] else 0
        samples = []
        seen_rules = set()
        for o in obs:
            if o["rule"] in seen_rules:
                continue
            seen_rules.add(o["rule"])
            samples.append({k: o[k] for k in
                            ("rule", "instance", "function", "line", "construct", "ok", "detail")})
        for o in self.failures()[:20]:
            samples.append({k: o[k] for k in
                            ("rule", "instance", "function", "line", "construct", "ok", "detail")})
        cov = {
            "explanation": (
                "Static analysis of /repo's working tree (ast only, nothing imported or run). "
                "The modules are first normalised (inert statements dropped, comparison spellings unified, keyword arguments "
                "naming the next positional parameters made positional, locals of functions that are alpha-equivalent to the frozen "
                "reference renamed back). Each obligation is one instance of a rule from DESIGN.md sections 2 and 5 evaluated on a "
                "specific construct (function, call site, branch, vector layout). The rules are "
                "necessary structural conditions of the property; they hold for all inputs because "
                "they do not depend on run-time values. What is NOT decided is listed in "
                "MANIFEST.level_note for this property."),
            "obligations": len(obs),
            "discharged": sum(1 for o in obs if o["ok"]),
            "evaluations": len(obs),
            "distinct_nontrivial": len(distinct),
            "rule": ("one evaluation = one rule instance on one construct; distinct = distinct "
                     "(rule, instance, function) triples; all are non-trivial in that each one "
                     "fails on a hand-confirmed broken variant of the construct (see self-test)"),
            "rules_applied": self.rules,
            "per_rule": by_rule,
            "functions_analysed": sorted(self.functions),
            "n_functions_analysed": len(self.functions),
            "measured_counts": self.counts,
            "notes": self.notes[:50],
            "known_findings_matched": nknown,
            "samples": samples,
            "exhaustive": True,
            "checker_cmd": "./check %s --tier %s" % (self.prop, self.tier),
            "trusted_base": ["CPython ast grammar", "rule tables in sa/ (DESIGN.md section 2)"],
        }
        if self.selftest is not None:
            cov["selftest"] = self.selftest
        ev = {
            "property_id": self.prop,
            "tier": self.tier,
            "seed": int(self.seed),
            "level": "other",
            "coverage": cov,
            "assumptions": self.assumptions or [
                "user callbacks do not mutate library state",
                "networkx / numpy API semantics as encoded in the mutator and view tables",
            ],
            "wall_s": round(time.time() - self.t0, 3),
            "violations": nviol,
        }
        os.makedirs(EVID_DIR, exist_ok=True)
        with open(os.path.join(EVID_DIR, "%s.json" % self.prop), "w") as fh:
            json.dump(ev, fh, indent=1, default=str)


def load_known():
    try:
        with open(KNOWN_PATH) as fh:
            d = json.load(fh)
    except FileNotFoundError:
        return []
    return d.get("known", [])


def match_known(known, prop, o):
    for k in known:
        if k.get("property") != prop:
            continue
        if k.get("rule") != o["rule"]:
            continue
        if k.get("function") != o["function"]:
            continue
        if k.get("construct") != o["construct"]:
            continue
        return k
    return None
