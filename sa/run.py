"""Entry point: python -m sa.run <ID> [--tier quick|thorough] [--replay path]"""
import argparse
import os
import sys
import traceback

from .core import Repo, AnalysisError
from .report import Report


def main(argv=None):
    ap = argparse.ArgumentParser()
    ap.add_argument("prop")
    ap.add_argument("--tier", default=os.environ.get("VERIF_TIER", "quick"))
    ap.add_argument("--replay", default=None)
    ap.add_argument("--repo", default=os.environ.get("EON_REPO", "/repo"))
    ap.add_argument("--no-selftest", action="store_true")
    a = ap.parse_args(argv)
    tier = a.tier if a.tier in ("quick", "thorough") else "quick"
    try:
        seed = int(os.environ.get("VERIF_SEED", "0"))
    except ValueError:
        seed = 0
    from . import props
    try:
        if a.prop not in props.PROPS:
            print("ANALYSIS-ERROR: unknown or unclaimed property %s" % a.prop)
            return 2
        repo = Repo(a.repo)
        rep = Report(a.prop, tier, seed)
        props.PROPS[a.prop](repo, rep)
        if tier == "thorough" and not a.no_selftest:
            from . import selftest
            st = selftest.run_for_property(a.prop, a.repo, seed, base={selftest._key(o) for o in rep.failures()})
            rep.selftest = st
            if st.get("failed"):
                rep.write_evidence(0, 0)
                for line in st["failed"][:40]:
                    print("SELFTEST-FAIL", line)
                print("ANALYSIS-ERROR: self-test of the checkers failed (%d variants); "
                      "nothing this run says about /repo is believed" % len(st["failed"]))
                return 2
        code = rep.finish()
        nob = len(rep.obs)
        print("%s: %d obligations over %d functions, %d held, %d failed; tier=%s%s" % (
            a.prop, nob, len(rep.functions), sum(1 for o in rep.obs if o["ok"]),
            len(rep.failures()), tier,
            (", self-test %d/%d variants ok, %d/%d seeded changes still caught (%d stale), %d/%d independent refactorings silent (%d stale)" % (
                rep.selftest["ok"], rep.selftest["total"], rep.selftest.get("seeded_caught", 0),
                rep.selftest.get("seeded_total", 0), rep.selftest.get("seeded_stale", 0),
                rep.selftest.get("refactorings_silent", 0), rep.selftest.get("refactorings_total", 0),
                rep.selftest.get("refactorings_stale", 0)))
            if rep.selftest else ""))
        if a.replay:
            import json
            d = json.load(open(a.replay))
            keys = {(o["rule"], o["function"], o["construct"]) for o in d.get("new", [])}
            for o in rep.failures():
                if (o["rule"], o["function"], o["construct"]) in keys:
                    print("REPLAY still fails: %s:%s %s [%s] %s" % (o["file"], o["line"], o["function"], o["rule"], o["construct"]))
        return code
    except AnalysisError as e:
        print("ANALYSIS-ERROR: %s" % e)
        return 2
    except Exception:
        traceback.print_exc()
        print("ANALYSIS-ERROR: internal exception in the checker")
        return 2


if __name__ == "__main__":
    sys.exit(main())
