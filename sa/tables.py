"""Frozen tables: scopes, semantic parameter sets and hand-confirmed exceptions.

Every exception carries one line of reason.  Tables name functions, never line
numbers; a named function that no longer exists makes the run fail as
ANALYSIS-ERROR (see core.Repo.f)."""

# parameters whose meaning is fixed across the package: if caller and callee both
# have one of these, the callee's must be fed from the caller's (R1c) and a public
# entry point must read it (R16)
SEMANTIC = {
    "initial_infecteds", "initial_recovereds", "rho", "tmin", "tmax", "tcount",
    "return_full_data", "transmission_weight", "recovery_weight", "nodelist",
    "sim_kwargs", "G", "tau", "gamma", "p", "Pk", "Pnk", "N",
    "trans_time_fxn", "rec_time_fxn", "trans_and_rec_time_fxn",
    "trans_time_args", "rec_time_args", "trans_and_rec_time_args",
    "weights", "xi", "zeta", "transmission", "number_its", "Ks",
    "IC", "return_statuses", "spontaneous_transition_graph",
    "nbr_induced_transition_graph", "spont_kwargs", "nbr_kwargs",
    "rate_function", "transition_choice", "get_influence_set", "parameters",
    "psihat", "psihatPrime", "psihatDPrime", "phiS0", "phiR0", "R0",
    "times", "S", "I", "R", "Q", "status", "rec_time", "pred_inf_time",
    "transmissions", "infection_times", "recovery_times", "trans_rate_fxn",
    "rec_rate_fxn", "report_times", "Y0", "X0", "XY0", "XX0",
}

# formals that a deferred (queue) call never passes through by name: the event
# time is by construction a new value
DEFERRED_FRESH = {"time"}

# (caller, callee, formal) triples for which a same-named pass-through is not
# expected; reason on the right
R1_EXCEPTIONS = {
    ("auxiliary.subsample", "auxiliary.subsample", "status1"):
        "recursion shifts the remaining series down by one (checked positively by R15)",
    ("auxiliary.subsample", "auxiliary.subsample", "status2"):
        "recursion shifts the remaining series down by one (checked positively by R15)",
    ("auxiliary.subsample", "auxiliary.subsample", "status3"):
        "recursion shifts the remaining series down by one (checked positively by R15)",
}

# source/target of the transmission handlers: the node just infected becomes the
# source of what it schedules.  R1 leaves these two formals to the handler-role
# rule (rules/handlers.py), which checks them positively per block.
ROLE_FORMALS = {"source", "target"}
TRANS_HANDLERS = {"_process_trans_SIR_", "_process_trans_SIS_Markov",
                  "_process_trans_SIS_nonMarkov_", "_find_next_trans_SIS_Markov"}

# Functions outside every claimed property (visualisation, legacy wrapper):
# findings there are printed as NOTE only.
OUT_OF_SCOPE_FUNCS = {
    "hierarchy_pos", "_hierarchy_pos", "Gillespie_Arbitrary", "visualize",
    "_SIR_pair_based_initialize_edge_data", "_SIR_pair_based_initialize_node_data",
}
OUT_OF_SCOPE_CLASS_METHODS = {
    # Simulation_Investigation plotting/animation API
    "display", "animate", "_update_ani_", "_display_graph_", "_display_time_series_",
    "_initialize_plot_", "_draw_specific_status_", "_highlight_", "add_timeseries",
    "update_ts_kwargs", "update_ts_label", "update_ts_color_dict",
    "update_ts_tex", "sim_update_kwargs", "sim_update_label",
    "sim_update_color_dict", "sim_update_tex", "set_pos", "_plot_",
    "update_kwargs",
}

# ---- scopes (function short names) -----------------------------------------
SIR_EVENT = ["fast_SIR", "fast_nonMarkov_SIR", "_process_trans_SIR_",
             "_process_rec_SIR_", "_find_trans_and_rec_delays_SIR_",
             "_trans_and_rec_time_Markovian_const_trans_", "_truncated_exponential_"]
SIS_EVENT = ["fast_SIS", "_process_trans_SIS_Markov", "_find_next_trans_SIS_Markov",
             "_process_rec_SIS_"]
SIS_NONMARKOV = ["fast_nonMarkov_SIS", "_process_trans_SIS_nonMarkov_",
                 "_find_trans_and_rec_delays_SIS_", "_process_rec_SIS_"]
DISCRETE = ["discrete_SIR", "basic_discrete_SIR", "basic_discrete_SIS",
            "percolation_based_discrete_SIR", "percolate_network",
            "_simple_test_transmission_"]
PERCOLATION = ["percolate_network", "estimate_SIR_prob_size",
               "directed_percolate_network", "_out_component_", "_in_component_",
               "get_infected_nodes", "estimate_directed_SIR_prob_size",
               "estimate_SIR_prob_size_from_dir_perc",
               "estimate_nonMarkov_SIR_prob_size_with_timing",
               "estimate_nonMarkov_SIR_prob_size",
               "nonMarkov_directed_percolate_network_with_timing",
               "nonMarkov_directed_percolate_network"]
GILLESPIE = ["Gillespie_SIR", "Gillespie_SIS", "Gillespie_simple_contagion",
             "Gillespie_complex_contagion"]

# the twelve simulators C04 names (entry points that return trajectories)
SIMULATORS = ["fast_SIR", "fast_SIS", "fast_nonMarkov_SIR", "fast_nonMarkov_SIS",
              "Gillespie_SIR", "Gillespie_SIS", "Gillespie_simple_contagion",
              "Gillespie_complex_contagion", "discrete_SIR", "basic_discrete_SIR",
              "basic_discrete_SIS", "percolation_based_discrete_SIR"]
CONTINUOUS_SIMULATORS = ["fast_SIR", "fast_SIS", "fast_nonMarkov_SIR",
                         "fast_nonMarkov_SIS", "Gillespie_SIR", "Gillespie_SIS",
                         "Gillespie_simple_contagion", "Gillespie_complex_contagion"]
