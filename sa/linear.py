"""Tiny linear normaliser: arithmetic AST -> {term: coefficient}.

Terms are the canonical source text of non-linear atoms; the constant term has
key '1'.  Knows +, -, unary -, multiplication/division by a numeric constant,
`.sum(...)`/`sum(x)` as linear maps over their argument (term 'sum(<atom>)'),
`x[:, None]`, `x[None, :]` and `.T` as shape-only views."""
import ast


def _add(a, b, k=1.0):
    out = dict(a)
    for t, c in b.items():
        out[t] = out.get(t, 0.0) + k * c
    return {t: c for t, c in out.items() if abs(c) > 1e-12}


def _scale(a, k):
    return {t: c * k for t, c in a.items() if abs(c * k) > 1e-12}


def _const(a):
    if not a:
        return 0.0
    if set(a) == {"1"}:
        return a["1"]
    return None


def linear(e, subst=None, env=None, depth=0, wrap=None):
    subst = subst or {}
    env = env or {}
    txt = ast.unparse(e)
    if txt in subst and depth < 8:
        return linear(subst[txt], subst, env, depth + 1, wrap)
    if isinstance(e, ast.Constant) and isinstance(e.value, (int, float)) and not isinstance(e.value, bool):
        return {"1": float(e.value)} if e.value != 0 else {}
    if isinstance(e, ast.Name):
        if e.id in env and depth < 8:
            return linear(env[e.id], subst, env, depth + 1, wrap)
        return {(wrap % e.id) if wrap else e.id: 1.0}
    if isinstance(e, ast.UnaryOp) and isinstance(e.op, ast.USub):
        return _scale(linear(e.operand, subst, env, depth, wrap), -1.0)
    if isinstance(e, ast.UnaryOp) and isinstance(e.op, ast.UAdd):
        return linear(e.operand, subst, env, depth, wrap)
    if isinstance(e, ast.BinOp):
        if isinstance(e.op, ast.Add):
            return _add(linear(e.left, subst, env, depth, wrap), linear(e.right, subst, env, depth, wrap))
        if isinstance(e.op, ast.Sub):
            return _add(linear(e.left, subst, env, depth, wrap), linear(e.right, subst, env, depth, wrap), -1.0)
        if isinstance(e.op, ast.Mult):
            l, r = linear(e.left, subst, env, depth, None), linear(e.right, subst, env, depth, None)
            cl, cr = _const(l), _const(r)
            if cl is not None:
                return _scale(linear(e.right, subst, env, depth, wrap), cl)
            if cr is not None:
                return _scale(linear(e.left, subst, env, depth, wrap), cr)
            # distribute a product over a sum (both sides expanded): terms become sorted products
            if wrap is None and l and r and len(l) * len(r) <= 64:
                out = {}
                for a, ca in l.items():
                    for b, cb in r.items():
                        fa = [] if a == "1" else a.split("*")
                        fb = [] if b == "1" else b.split("*")
                        key = "*".join(sorted(fa + fb)) or "1"
                        out[key] = out.get(key, 0.0) + ca * cb
                return {t: c for t, c in out.items() if abs(c) > 1e-12}
        if isinstance(e.op, ast.Div):
            r = linear(e.right, subst, env, depth, None)
            cr = _const(r)
            if cr not in (None, 0.0):
                return _scale(linear(e.left, subst, env, depth, wrap), 1.0 / cr)
    # shape-only views
    if isinstance(e, ast.Attribute) and e.attr == "T":
        return linear(e.value, subst, env, depth, wrap)
    if isinstance(e, ast.Subscript):
        s = ast.unparse(e.slice).replace(" ", "")
        if s in (":,None", "None,:", "(slice(None,None,None),None)"):
            return linear(e.value, subst, env, depth, wrap)
    # sums are linear
    if isinstance(e, ast.Call):
        f = ast.unparse(e.func)
        if f == "sum" and len(e.args) == 1 and not isinstance(e.args[0], (ast.GeneratorExp, ast.ListComp)):
            return linear(e.args[0], subst, env, depth, "sum(%s)" if wrap is None else wrap)
        if isinstance(e.func, ast.Attribute) and e.func.attr == "sum":
            return linear(e.func.value, subst, env, depth, "sum(%s)" if wrap is None else wrap)
        if f in ("float", "np.array", "numpy.array") and len(e.args) == 1:
            return linear(e.args[0], subst, env, depth, wrap)
    atom = txt.replace(" ", "")
    if any(c in atom for c in "+-*/") and not (atom.endswith(")") and atom.count("(") == atom.count(")") and "(" in atom
                                                  and not any(c in atom[:atom.index("(")] for c in "+-*/")):
        atom = "(" + atom + ")"
    return {(wrap % atom) if wrap else atom: 1.0}


def lin_equal(a, b):
    keys = set(a) | set(b)
    return all(abs(a.get(k, 0.0) - b.get(k, 0.0)) < 1e-9 for k in keys)


def lin_str(a):
    if not a:
        return "0"
    return " + ".join("%g*%s" % (c, t) for t, c in sorted(a.items()))
