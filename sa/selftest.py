"""Self-test of the checkers (thorough tier).

For the property at hand, every variant below is built from /repo's CURRENT
source: the named function is unparsed from the ast, one substring of that
normalised text is replaced, the module is written to a scratch copy (a
tempfile.mkdtemp() directory outside /repo and /verif, removed afterwards), and
the property's rules are run on the copy.

* a BREAK variant must produce at least one failed obligation whose rule id
  starts with the expected prefix (and, where given, in the expected function);
* a BENIGN variant (behaviour-preserving rewrite) must produce none.

A variant whose anchor text no longer exists in /repo is reported as `stale`
(the code moved on; the variant has to be rewritten) and does not fail the run
unless more than a third of the variants of a property are stale."""
import ast
import os
import shutil
import sys
import tempfile
from concurrent.futures import ProcessPoolExecutor

from .core import MODULES

B, G = "break", "benign"

# (name, properties, kind, module, function ("Class.method" for methods), old, new, expected rule prefix)
V = [
 # ---- C01 / Gillespie_SIR ---------------------------------------------------------------------------------
 ("gsir-drop-link-removal", ["C01", "C09"], B, "simulation", "Gillespie_SIR",
  "IS_links.remove((recovering_node, nbr))", "pass", "R11"),
 ("gsir-wrong-rate-factor", ["C01"], B, "simulation", "Gillespie_SIR",
  "total_recovery_rate = gamma * infecteds.total_weight()\n        total_transmission_rate",
  "total_recovery_rate = tau * infecteds.total_weight()\n        total_transmission_rate", "RATE"),
 ("gsir-stale-total", ["C01"], B, "simulation", "Gillespie_SIR",
  "        total_rate = total_recovery_rate + total_transmission_rate\n        if total_rate > 0:",
  "        if total_rate > 0:", "RATE"),
 ("gsir-remove-wrong-orientation", ["C01"], B, "simulation", "Gillespie_SIR",
  "IS_links.remove((nbr, recipient))", "IS_links.remove((recipient, nbr))", "R11"),
 ("gsir-weight-of-other-edge", ["C01"], B, "simulation", "Gillespie_SIR",
  "IS_links.update((recipient, nbr), weight_increment=edgeweight(recipient, nbr))",
  "IS_links.update((recipient, nbr), weight_increment=edgeweight(transmitter, recipient))", "R11"),
 ("gsir-weighted-flag-swapped", ["C01"], B, "simulation", "Gillespie_SIR",
  "if recovery_weight is not None:\n        infecteds = _ListDict_(weighted=True)",
  "if transmission_weight is not None:\n        infecteds = _ListDict_(weighted=True)", "R11"),
 ("ratefn-wrong-base", ["C01", "C02"], B, "__init__", "_get_rate_functions_",
  "rec_rate_fxn = lambda x: gamma * G.nodes[x][recovery_weight]", "rec_rate_fxn = lambda x: tau * G.nodes[x][recovery_weight]", "RATE"),
 ("fastsir-drop-recovereds", ["C01", "C05"], B, "simulation", "fast_SIR",
  "initial_recovereds=initial_recovereds, rho=rho, tmin=tmin, tmax=tmax, return_full_data=return_full_data, sim_kwargs=sim_kwargs)\n    else:",
  "rho=rho, tmin=tmin, tmax=tmax, return_full_data=return_full_data, sim_kwargs=sim_kwargs)\n    else:", "R1c"),
 ("markov-helper-wrong-prob", ["C01"], B, "simulation", "_trans_and_rec_time_Markovian_const_trans_",
  "trans_prob = 1 - np.exp(-tau * duration)", "trans_prob = 1 - np.exp(-duration)", "MARKOV"),
 ("fastsir-swap-rate-args", ["C01", "C11"], B, "simulation", "fast_SIR",
  "rate = trans_rate_fxn(source, target)", "rate = trans_rate_fxn(target, source)", "MARKOV"),
 ("nonmarkov-sir-slice-before-event-loop", ["C01", "C04", "C11"], B, "simulation", "fast_nonMarkov_SIR",
  "    while Q:\n        Q.pop_and_run()\n    times = times[len(initial_infecteds):]",
  "    times = times[len(initial_infecteds):]\n    while Q:\n        Q.pop_and_run()", "R9.C04"),
 ("sir-handler-strict-rec", ["C01", "C11"], B, "simulation", "_process_trans_SIR_",
  "inf_time <= rec_time[target] and", "inf_time < rec_time[target] and", "H-guard"),
 ("sir-handler-no-pred-update", ["C01", "C11"], B, "simulation", "_process_trans_SIR_",
  "                pred_inf_time[v] = inf_time", "                pass", "H-guard"),
 ("sir-handler-wrong-source", ["C09", "C11"], B, "simulation", "_process_trans_SIR_",
  "args=(G, target, v, times,", "args=(G, source, v, times,", "H-role"),
 ("sir-rec-handler-wrong-delta", ["C01", "C04"], B, "simulation", "_process_rec_SIR_",
  "I.append(I[-1] - 1)", "I.append(I[-1])", "R9"),
 # ---- C02 -------------------------------------------------------------------------------------------------
 ("gsis-no-reinsert", ["C02"], B, "simulation", "Gillespie_SIS",
  "IS_links.update((nbr, recovering_node), weight_increment=edgeweight(recovering_node, nbr))", "pass", "R11"),
 ("gsis-branch-prob", ["C02"], B, "simulation", "Gillespie_SIS",
  "if random.random() < total_recovery_rate / total_rate:", "if random.random() < total_transmission_rate / total_rate:", "RATE"),
 ("sis-markov-no-fresh-draw", ["C02"], B, "simulation", "_find_next_trans_SIS_Markov",
  "            delay = random.expovariate(tau)\n            transmission_time = rec_time[target] + delay",
  "            transmission_time = rec_time[target] + delay", "H-guard"),
 ("sis-markov-resched-inside", ["C02", "C09"], B, "simulation", "_process_trans_SIS_Markov",
  "        infection_times[target].append(time)\n    if source is not None:\n        _find_next_trans_SIS_Markov(",
  "        infection_times[target].append(time)\n        if source is not None:\n            _find_next_trans_SIS_Markov(", "H-role"),
 ("sis-markov-guard-le", ["C02"], B, "simulation", "_find_next_trans_SIS_Markov",
  "if transmission_time < rec_time[source] and", "if transmission_time < rec_time[target] and", "H-guard"),
 ("sis-rec-handler-status", ["C02", "C04"], B, "simulation", "_process_rec_SIS_",
  "status[node] = 'S'", "status[node] = 'I'", "R9"),
 # ---- C03 -------------------------------------------------------------------------------------------------
 ("simple-swapped-guard", ["C03"], B, "simulation", "Gillespie_simple_contagion",
  "if transition[0] == (nbr_status, old_status):\n                        potential_transitions[transition].remove((nbr, modified_node))",
  "if transition[0] == (old_status, nbr_status):\n                        potential_transitions[transition].remove((nbr, modified_node))", "R11s"),
 ("simple-selection-other-list", ["C03"], B, "simulation", "Gillespie_simple_contagion",
  "for transition in spontaneous_transitions + induced_transitions:\n            r -=",
  "for transition in induced_transitions + spontaneous_transitions:\n            r -=", "RATE"),
 ("simple-wrong-weight-key", ["C03"], B, "simulation", "Gillespie_simple_contagion",
  "potential_transitions[transition].update((pred, modified_node), weight_increment=get_weight[transition][pred, modified_node])",
  "potential_transitions[transition].update((pred, modified_node), weight_increment=get_weight[transition][modified_node, pred])", "R11s"),
 ("simple-old-status-induced", ["C03"], B, "simulation", "Gillespie_simple_contagion",
  "old_status = transition[0][1]", "old_status = transition[0][0]", "R11s"),
 ("simple-data-dec-after", ["C03", "C04"], B, "simulation", "Gillespie_simple_contagion",
  "data[old_status][-1] -= 1", "data[status[modified_node]][-1] -= 1", "R9"),
 # ---- C04 -------------------------------------------------------------------------------------------------
 ("queue-le-tmax", ["C04", "C11", "C13"], B, "simulation", "myQueue.add", "if time < self.tmax:", "if time <= self.tmax:", "R13"),
 ("queue-no-counter", ["C04", "C11"], B, "simulation", "myQueue.add", "        self.counter += 1", "        pass", "R13"),
 ("fastsis-slice-off-by-one", ["C04"], B, "simulation", "fast_SIS",
  "S = S[len(initial_infecteds):]", "S = S[len(initial_infecteds) - 1:]", "R9"),
 ("gsis-unguarded-clock", ["C04"], B, "simulation", "Gillespie_SIS",
  "        if total_rate > 0:\n            delay = random.expovariate(total_rate)\n        else:\n            delay = float('Inf')\n        t += delay",
  "        delay = random.expovariate(total_rate)\n        t += delay", "R17"),
 ("discrete-loop-le", ["C04", "C12"], B, "simulation", "discrete_SIR",
  "while infecteds and t[-1] < tmax:", "while infecteds and t[-1] <= tmax:", "R9"),
 ("complex-time-after-clock", ["C04", "C15"], B, "simulation", "Gillespie_complex_contagion",
  "        times.append(t)\n        node = nodes_by_rate.choose_random()", "        node = nodes_by_rate.choose_random()", "R9"),
 # ---- C05 -------------------------------------------------------------------------------------------------
 ("gsir-truthy-guard", ["C05"], B, "simulation", "Gillespie_SIR",
  "if rho is not None and initial_infecteds is not None:", "if rho and initial_infecteds:", "R10a"),
 ("fastsis-round-floor", ["C05"], B, "simulation", "fast_SIS",
  "initial_number = int(round(G.order() * rho))", "initial_number = int(G.order() * rho)", "R10b"),
 ("gsis-sample-with-replacement", ["C05"], B, "simulation", "Gillespie_SIS",
  "initial_infecteds = random.sample(list(G), initial_number)", "initial_infecteds = random.choices(list(G), k=initial_number)", "R10b"),
 ("percdisc-drops-tmin", ["C05", "C12"], B, "simulation", "percolation_based_discrete_SIR",
  "rho=rho, tmin=tmin, tmax=tmax,", "rho=rho, tmax=tmax,", "R1c"),
 ("discrete-first-row-ignores-R", ["C05"], B, "simulation", "discrete_SIR",
  "R = [initial_number_recovered]", "R = [0]", "R10c"),
 # ---- C06 -------------------------------------------------------------------------------------------------
 ("ode-swap-unpack", ["C06"], B, "analytic", "SIR_homogeneous_pairwise", "S, I, SI, SS = X.T", "S, I, SS, SI = X.T", "R4"),
 ("ode-rhs-swap-return", ["C06"], B, "analytic", "_dSIR_compact_pairwise_",
  "dX = np.concatenate((dSk, [dSS, dSI, dR]), axis=0)", "dX = np.concatenate((dSk, [dSI, dSS, dR]), axis=0)", "R4"),
 ("ode-grid-literal", ["C06"], B, "analytic", "SIS_compact_pairwise", "times = np.linspace(tmin, tmax, tcount)", "times = np.linspace(0, tmax, tcount)", "GRID"),
 ("ode-conservation", ["C06"], B, "analytic", "SIR_super_compact_pairwise", "I = N - S - R", "I = X.T[2]", "CONS"),
 ("ode-none-len", ["C06"], B, "analytic", "SIS_homogeneous_meanfield_from_graph",
  "    if initial_infecteds is not None:\n        I0 = len(initial_infecteds)\n    elif rho is not None:",
  "    if rho is None:\n        I0 = len(initial_infecteds)\n    elif rho is not None:", "R2"),
 ("ode-unbound-name", ["C06"], B, "analytic", "SIR_compact_pairwise_from_graph", "SI0 = rho * SX0", "SI0 = rho * SX", "R3"),
 ("ode-wrapper-literal-flag", ["C06"], B, "analytic", "SIS_effective_degree_from_graph",
  "return_full_data=return_full_data)", "return_full_data=False)", "R1c"),
 ("ode-edge-role", ["C06", "C14"], B, "analytic", "_get_NkNl_and_IC_as_arrays_",
  "SkIl0[Ks.index(k)][Ks.index(l)] += 1", "SkIl0[Ks.index(l)][Ks.index(k)] += 1", "ROLE"),
 # ---- C09 / C10 -------------------------------------------------------------------------------------------
 ("gsir-drop-transmissions-ctor", ["C09", "C10"], B, "simulation", "Gillespie_SIR",
  "EoN.Simulation_Investigation(G, node_history, transmissions, possible_statuses=", "EoN.Simulation_Investigation(G, node_history, possible_statuses=", "R8"),
 ("gsis-record-wrong-target", ["C09"], B, "simulation", "Gillespie_SIS",
  "transmissions.append((t, transmitter, recipient))", "transmissions.append((t, recipient, transmitter))", "R9.C09"),
 ("nodestatus-strict", ["C10"], B, "simulation_investigation", "Simulation_Investigation.node_status",
  "if changetime <= time]", "if changetime < time]", "INV"),
 ("gsir-draw-under-flag", ["C10", "C18"], B, "simulation", "Gillespie_SIR",
  "            if return_full_data:\n                recovery_times[recovering_node].append(t)",
  "            if return_full_data:\n                recovery_times[recovering_node].append(t)\n                random.random()", "R7c"),
 ("transform-no-reset", ["C10", "C05"], B, "simulation", "_transform_to_node_history_",
  "        for node, time in recovery_times.items():\n            if time == tmin:\n                node_history[node] = ([], [])\n            node_history",
  "        for node, time in recovery_times.items():\n            node_history", "HIST"),
 ("handoff-wrong-filter", ["C10", "C18", "C11", "C04"], B, "simulation", "fast_nonMarkov_SIR",
  "for node, time in rec_time.items() if status[node] == 'R'}", "for node, time in rec_time.items() if status[node] != 'S'}", "HANDOFF"),
 # ---- C11 / C17 -------------------------------------------------------------------------------------------
 ("perc-timing-strict", ["C11", "C17"], B, "simulation", "nonMarkov_directed_percolate_network_with_timing",
  "                if delay <= duration:\n                    H.add_edge(u, v, delay_to_infection=delay)",
  "                if delay < duration:\n                    H.add_edge(u, v, delay_to_infection=delay)", "R14"),
 ("infected-nodes-no-removal", ["C11"], B, "simulation", "get_infected_nodes",
  "    for node in initial_recovereds:\n        H.remove_node(node)\n", "", "R14"),
 ("estimator-swapped-components", ["C17"], B, "simulation", "estimate_SIR_prob_size_from_dir_perc",
  "inC = _in_component_(H, u)", "inC = _out_component_(H, u)", "R14"),
 ("estimator-wrong-denominator", ["C17"], B, "simulation", "estimate_SIR_prob_size_from_dir_perc",
  "N = float(H.order())", "N = float(len(Hscc))", "R14"),
 ("xi-zeta-swapped", ["C17"], B, "simulation", "nonMarkov_directed_percolate_network",
  "transmission(xi[u], zeta[v])", "transmission(xi[v], zeta[u])", "R14"),
 ("dirperc-args-crossed", ["C11", "C17"], B, "simulation", "directed_percolate_network",
  "rec_time_fxn, trans_time_args, rec_time_args, weights=weights)", "rec_time_fxn, rec_time_args, trans_time_args, weights=weights)", "R1b"),
 # ---- C12 -------------------------------------------------------------------------------------------------
 ("basicdisc-positional-again", ["C12", "C05"], B, "simulation", "basic_discrete_SIR",
  "(p,), initial_infecteds=initial_infecteds, initial_recovereds=initial_recovereds, rho=rho,",
  "(p,), initial_infecteds, initial_recovereds, rho=rho,", "R1b"),
 ("discrete-test-before-susceptible", ["C12"], B, "simulation", "discrete_SIR",
  "if susceptible[v] and test_transmission(u, v, *args):", "if test_transmission(u, v, *args) and susceptible[v]:", "DISC"),
 ("percolate-drop-nodes", ["C12", "C17"], B, "simulation", "percolate_network", "    H.add_nodes_from(G.nodes())\n", "", "R14"),
 ("discrete-no-nS", ["C12"], B, "simulation", "discrete_SIR", "                    nS -= 1\n", "", "R9"),
 # ---- C13 -------------------------------------------------------------------------------------------------
 ("nonmarkov-sis-carry-all", ["C13"], B, "simulation", "_process_trans_SIS_nonMarkov_",
  "    following_transmissions = trans_times[1:]\n    if trans_times:", "    following_transmissions = trans_times\n    if trans_times:", "H-chain"),
 ("nonmarkov-sis-filter-ge", ["C13"], B, "simulation", "_process_trans_SIS_nonMarkov_",
  "trans_times = [time for time in trans_times if time > rec_time[v]]", "trans_times = [time for time in trans_times if time > rec_time[target]]", "H-chain"),
 ("nonmarkov-sis-adapter-cross", ["C13"], B, "simulation", "fast_nonMarkov_SIS",
  "trans_and_rec_time_args = (trans_time_fxn, rec_time_fxn, trans_time_args, rec_time_args)",
  "trans_and_rec_time_args = (rec_time_fxn, trans_time_fxn, trans_time_args, rec_time_args)", "H-proto"),
 # ---- C14 -------------------------------------------------------------------------------------------------
 ("ode-index-by-node", ["C14"], B, "analytic", "_dSIR_individual_based_",
  "Y[index_of_node[nbr]]", "Y[nbr]", "R6"),
 ("ode-adjacency-graph-order", ["C14"], B, "analytic", "SIR_pair_based",
  "nx.adjacency_matrix(G, nodelist=list(nodelist))", "nx.adjacency_matrix(G)", "R6"),
 ("ode-pureic-drops-nodelist", ["C14", "C06"], B, "analytic", "SIS_pair_based_pure_IC",
  "SIS_pair_based(G, tau, gamma, nodelist=nodelist, Y0=Y0,", "SIS_pair_based(G, tau, gamma, Y0=Y0,", "R1c"),
 # ---- C15 -------------------------------------------------------------------------------------------------
 ("complex-no-self-rerate", ["C15"], B, "simulation", "Gillespie_complex_contagion",
  "        weight = rate_function(G, node, status, parameters)\n        nodes_by_rate.insert(node, weight=weight)\n", "", "R11c"),
 ("complex-rerate-before-write", ["C15"], B, "simulation", "Gillespie_complex_contagion",
  "        status[node] = new_status\n", "", "R11c"),
 ("complex-influence-conditional", ["C15"], B, "simulation", "Gillespie_complex_contagion",
  "            weight = rate_function(G, nbr, status, parameters)\n            nodes_by_rate.insert(nbr, weight=weight)",
  "            weight = rate_function(G, nbr, status, parameters)\n            if weight > 0:\n                nodes_by_rate.insert(nbr, weight=weight)", "R11c"),
 # ---- C16 -------------------------------------------------------------------------------------------------
 ("listdict-no-total", ["C16", "C01", "C15"], B, "simulation", "_ListDict_.update",
  "            self.weight[item] = self.weight[item] + weight_increment\n            self._total_weight += weight_increment\n            if self.weight[item] > self.max_weight:",
  "            self.weight[item] = self.weight[item] + weight_increment\n            if self.weight[item] > self.max_weight:", "R12.I1"),
 ("listdict-max-not-raised", ["C16"], B, "simulation", "_ListDict_.update",
  "                self.max_weight = self.weight[item]", "                pass", "R12.I2"),
 ("listdict-accept-le-total", ["C16"], B, "simulation", "_ListDict_.choose_random",
  "self.weight[choice] / self.max_weight", "self.weight[choice] / self._total_weight", "R12.I4"),
 ("listdict-remove-no-move", ["C16"], B, "simulation", "_ListDict_.remove",
  "        self.item_to_position[last_item] = position\n", "", "R12.I3"),
 ("listdict-uncalled-recompute", ["C16"], B, "simulation", "_ListDict_.remove",
  "                self._update_max_weight()", "                self._update_max_weight", "R12.I2"),
 # ---- C18 -------------------------------------------------------------------------------------------------
 ("private-rng", ["C18"], B, "simulation", "_ListDict_.choose_random",
  "choice = random.choice(self.items)", "choice = np.random.default_rng().choice(self.items)", "R7a"),
 ("set-iteration", ["C18"], B, "simulation", "Gillespie_SIS",
  "    for node in initial_infecteds:\n        infecteds.update(", "    for node in set(initial_infecteds):\n        infecteds.update(", "R7b"),
 ("unsorted-transitions", ["C18"], B, "simulation", "Gillespie_simple_contagion",
  "induced_transitions = sorted(nbr_induced_transition_graph.edges())", "induced_transitions = list(nbr_induced_transition_graph.edges())", "R7b"),
 # ---- C19 -------------------------------------------------------------------------------------------------
 ("effect-shape-on-arg", ["C19"], B, "analytic", "SIS_heterogeneous_pairwise", "    SkSl0 = SkSl0.copy()\n", "", "R5"),
 ("effect-remove-node", ["C19"], B, "simulation", "get_infected_nodes",
  "H = directed_percolate_network(G, tau, gamma)", "H = G", "R5"),
 ("effect-sort-arg", ["C19"], B, "simulation", "fast_SIS", "    times = [tmin]\n", "    times = [tmin]\n    initial_infecteds.sort()\n", "R5"),
 ("effect-inplace-aug", ["C19"], B, "analytic", "SIS_compact_pairwise", "Nk = Sk0 + Ik0", "Sk0 += 0\n    Nk = Sk0 + Ik0", "R5"),
 # ---- C20 -------------------------------------------------------------------------------------------------
 ("pgf-prime-exponent", ["C20"], B, "analytic", "get_PGFPrime", "ks * x ** (ks - 1)", "ks * x ** ks", "R15"),
 ("pgf-dprime-coef", ["C20"], B, "analytic", "get_PGFDPrime", "ks * (ks - 1) * x ** (ks - 2)", "ks * ks * x ** (ks - 2)", "R15"),
 ("r0-inverted", ["C20"], B, "analytic", "estimate_R0", "psiDPrime(1.0) / psiPrime(1.0)", "psiPrime(1.0) / psiDPrime(1.0)", "R15"),
 ("subsample-strict", ["C20"], B, "auxiliary", "subsample",
  "times[next_observation_index] <= report_times[next_report_index]", "times[next_observation_index] < report_times[next_report_index]", "SUB"),
 ("subsample-recursion-order", ["C20"], B, "auxiliary", "subsample",
  "report_status2, report_status3 = subsample(report_times, times, status2, status3)", "report_status2, report_status3 = subsample(report_times, times, status3, status2)", "SUB"),
 # ===== benign variants =====================================================================================
 ("benign-gsir-rename", ["C01", "C04", "C05", "C09", "C10"], G, "simulation", "Gillespie_SIR", "recovering_node", "rnode", None),
 ("benign-gsir-augassign", ["C01"], G, "simulation", "Gillespie_SIR", "t += delay", "t = t + delay", None),
 ("benign-fastsir-extra-local", ["C01", "C05", "C11"], G, "simulation", "fast_SIR",
  "trans_time_args = (trans_rate_fxn,)", "unused_local = 0\n        trans_time_args = (trans_rate_fxn,)", None),
 ("benign-queue-rename-param", ["C04", "C11", "C13"], G, "simulation", "myQueue.add", "time", "when", None),
 ("benign-basicdisc-all-keywords", ["C05", "C12"], G, "simulation", "basic_discrete_SIR",
  "discrete_SIR(G, _simple_test_transmission_, (p,),", "discrete_SIR(G, test_transmission=_simple_test_transmission_, args=(p,),", None),
 ("benign-listdict-rename", ["C16", "C15"], G, "simulation", "_ListDict_.remove", "last_item", "moved", None),
 ("benign-listdict-augassign", ["C16"], G, "simulation", "_ListDict_.update",
  "self.weight[item] = self.weight[item] + weight_increment\n            self._total_weight += weight_increment\n            if",
  "self.weight[item] += weight_increment\n            self._total_weight += weight_increment\n            if", None),
 ("benign-ode-rename-local", ["C06", "C14"], G, "analytic", "SIR_compact_pairwise", "X0", "V0", None),
 ("benign-ode-keywords", ["C06"], G, "analytic", "SIS_homogeneous_pairwise_from_graph",
  "SIS_homogeneous_pairwise(S0, I0, SI0, SS0, n, tau, gamma, tmin, tmax, tcount, return_full_data)",
  "SIS_homogeneous_pairwise(S0, I0, SI0, SS0, n, tau, gamma, tmin=tmin, tmax=tmax, tcount=tcount, return_full_data=return_full_data)", None),
 ("benign-ode-reorder-independent", ["C06"], G, "analytic", "SIR_homogeneous_meanfield",
  "    N = S0 + I0 + R0\n    X0 = np.array([S0, I0])", "    X0 = np.array([S0, I0])\n    N = S0 + I0 + R0", None),
 ("benign-sir-handler-rename", ["C01", "C09", "C11"], G, "simulation", "_process_trans_SIR_", "suscep_neighbors", "sus_nbrs", None),
 ("benign-simple-rename", ["C03", "C09"], G, "simulation", "Gillespie_simple_contagion", "modified_node", "changed", None),
 ("benign-complex-rename", ["C15"], G, "simulation", "Gillespie_complex_contagion", "influence_set", "affected", None),
 ("benign-perc-rename", ["C11", "C17", "C12"], G, "simulation", "estimate_SIR_prob_size_from_dir_perc", "Hscc", "giant", None),
 ("benign-effects-copy-style", ["C19"], G, "analytic", "SIR_effective_degree", "S_si0 = S_si0.copy()", "S_si0 = np.array(S_si0)", None),
 ("benign-subsample-rename", ["C20"], G, "auxiliary", "subsample", "candidate", "latest", None),
 ("benign-rng-local-alias-free", ["C18"], G, "simulation", "percolate_network", "if random.random() < p:", "if p > random.random():", None),
 ("benign-nonmarkov-sis-rename", ["C13"], G, "simulation", "_process_trans_SIS_nonMarkov_", "following_transmissions", "rest", None),
 ("benign-sis-markov-rename", ["C02", "C09"], G, "simulation", "_find_next_trans_SIS_Markov", "transmission_time", "when", None),
 ("benign-investigation-rename", ["C10", "C09"], G, "simulation_investigation", "Simulation_Investigation.get_statuses", "number_swaps", "count", None),
]


def _find(tree, qual):
    parts = qual.split(".")
    body = tree.body
    node = None
    for i, p in enumerate(parts):
        node = None
        for st in body:
            if isinstance(st, (ast.FunctionDef, ast.ClassDef)) and st.name == p:
                node = st
                break
        if node is None:
            return None, None
        parent_body = body
        body = node.body
    return node, parent_body


def apply_variant(src_dir, dst_dir, v):
    name, props, kind, module, func, old, new, expect = v
    for m in MODULES:
        shutil.copy(os.path.join(src_dir, "EoN", m + ".py"), os.path.join(dst_dir, "EoN", m + ".py"))
    path = os.path.join(dst_dir, "EoN", module + ".py")
    import warnings
    with warnings.catch_warnings():
        warnings.simplefilter("ignore")
        tree = ast.parse(open(path, encoding="utf-8").read())
    node, parent = _find(tree, func)
    if node is None:
        return "stale: function %s not found" % func
    # docstrings are dropped so that an anchor can only match code
    for n in ast.walk(node):
        if isinstance(n, (ast.FunctionDef, ast.ClassDef)) and n.body and isinstance(n.body[0], ast.Expr) \
                and isinstance(n.body[0].value, ast.Constant) and isinstance(n.body[0].value.value, str):
            n.body = n.body[1:] or [ast.Pass()]
    text = ast.unparse(node)
    if old not in text:
        return "stale: anchor text not found in %s" % func
    if kind == G and new is not None and old.isidentifier() and new.isidentifier():
        import re
        newtext = re.sub(r"(?<![\w.])%s(?!\w)" % re.escape(old), new, text)
    else:
        newtext = text.replace(old, new, 1)
    try:
        newnode = ast.parse(newtext).body[0]
    except SyntaxError as e:
        return "stale: variant does not parse (%s)" % e
    parent[parent.index(node)] = newnode
    ast.fix_missing_locations(tree)
    with open(path, "w", encoding="utf-8") as fh:
        fh.write(ast.unparse(tree))
    return None


def _key(o):
    return (o["rule"], o["function"], o["construct"])


def _run_one(args):
    prop, v, src, base = args
    name, props, kind, module, func, old, new, expect = v
    tmp = tempfile.mkdtemp(prefix="eon_selftest_")
    try:
        os.makedirs(os.path.join(tmp, "EoN"))
        err = apply_variant(src, tmp, v)
        if err:
            return (name, "stale", err)
        from .core import Repo, AnalysisError
        from .report import Report
        from . import props as P
        try:
            repo = Repo(tmp)
            rep = Report(prop, "thorough", 0)
            P.PROPS[prop](repo, rep)
            fails = rep.failures()
        except AnalysisError as e:
            # an analysis error on a broken variant is a detection (the run would not pass); on a benign one it is a false alarm
            if kind == B:
                return (name, "ok", "analysis error (counts as not passing): %s" % str(e)[:120])
            return (name, "fail", "benign variant made the analysis fail: %s" % e)
        if kind == B:
            hit = [o for o in fails if o["rule"].startswith(expect)]
            if hit:
                return (name, "ok", "%s %s :: %s" % (hit[0]["rule"], hit[0]["function"], (hit[0]["detail"] or hit[0]["construct"])[:140]))
            return (name, "fail", "breaking variant not reported by %s (failed rules: %s)" % (expect, sorted({o["rule"] for o in fails})))
        fails = [o for o in fails if _key(o) not in base]      # what /repo itself already fails is not the variant's doing
        if fails:
            return (name, "fail", "benign variant reported: %s" % ["%s %s %s" % (o["rule"], o["function"], o["construct"][:80]) for o in fails[:3]])
        return (name, "ok", "silent")
    finally:
        shutil.rmtree(tmp, ignore_errors=True)


SEEDED = os.path.join(os.path.dirname(os.path.dirname(os.path.abspath(__file__))), "seeded")


def _run_seed(args):
    """A confirmed seeded change (independent sub-agent) that this property's check is recorded to catch must still be
    caught when its patch is applied to a scratch copy of /repo's current source."""
    prop, sdir, src = args
    import json
    import subprocess
    name = "seeded:" + os.path.basename(sdir)
    tmp = tempfile.mkdtemp(prefix="eon_selftest_")
    try:
        os.makedirs(os.path.join(tmp, "EoN"))
        for m in MODULES:
            shutil.copy(os.path.join(src, "EoN", m + ".py"), os.path.join(tmp, "EoN", m + ".py"))
        r = subprocess.run(["patch", "-p1", "-F3", "-s", "--no-backup-if-mismatch", "-d", tmp, "-i", os.path.join(sdir, "patch.diff")],
                           capture_output=True, text=True)
        if r.returncode != 0:
            return (name, "stale", "patch no longer applies to /repo's current source")
        from .core import Repo, AnalysisError
        from .report import Report
        from . import props as P
        try:
            rep = Report(prop, "thorough", 0)
            P.PROPS[prop](Repo(tmp), rep)
            fails = rep.failures()
        except AnalysisError as e:
            return (name, "ok", "analysis error (counts as not passing): %s" % str(e)[:100])
        if fails:
            return (name, "ok", "%s %s :: %s" % (fails[0]["rule"], fails[0]["function"], (fails[0]["detail"] or fails[0]["construct"])[:120]))
        return (name, "fail", "seeded change is no longer reported by the %s check" % prop)
    finally:
        shutil.rmtree(tmp, ignore_errors=True)


BENIGN = os.path.join(os.path.dirname(os.path.dirname(os.path.abspath(__file__))), "benign")


def _run_benign(args):
    """A behaviour-preserving refactoring written by an independent sub-agent (recorded as `expected: silent`) applied to
    a scratch copy of /repo's current source must not make this property's check report anything new."""
    prop, bdir, src, base = args
    import subprocess
    name = "refactoring:" + os.path.basename(bdir)
    tmp = tempfile.mkdtemp(prefix="eon_selftest_")
    try:
        os.makedirs(os.path.join(tmp, "EoN"))
        for m in MODULES:
            shutil.copy(os.path.join(src, "EoN", m + ".py"), os.path.join(tmp, "EoN", m + ".py"))
        r = subprocess.run(["patch", "-p1", "-F3", "-s", "--no-backup-if-mismatch", "-d", tmp, "-i", os.path.join(bdir, "patch.diff")],
                           capture_output=True, text=True)
        if r.returncode != 0:
            return (name, "stale", "patch no longer applies to /repo's current source")
        from .core import Repo, AnalysisError
        from .report import Report
        from . import props as P
        try:
            rep = Report(prop, "thorough", 0)
            P.PROPS[prop](Repo(tmp), rep)
            fails = [o for o in rep.failures() if _key(o) not in base]
        except AnalysisError as e:
            return (name, "fail", "refactoring made the analysis fail: %s" % str(e)[:120])
        if fails:
            return (name, "fail", "behaviour-preserving refactoring reported: %s" % ["%s %s %s" % (o["rule"], o["function"], o["construct"][:80]) for o in fails[:3]])
        return (name, "ok", "silent")
    finally:
        shutil.rmtree(tmp, ignore_errors=True)


def _benign_corpus():
    import glob
    import json
    out = []
    for mj in sorted(glob.glob(os.path.join(BENIGN, "*", "meta.json"))):
        try:
            m = json.load(open(mj))
        except Exception:
            continue
        if m.get("expected") == "silent":
            out.append(os.path.dirname(mj))
    return out


def _seeds_for(prop):
    import glob
    import json
    out = []
    for mj in sorted(glob.glob(os.path.join(SEEDED, "*", "meta.json"))):
        try:
            m = json.load(open(mj))
        except Exception:
            continue
        if prop in (m.get("caught_by") or {}):
            out.append(os.path.dirname(mj))
    return out


def run_for_property(prop, repo_root, seed=0, jobs=None, base=frozenset()):
    """`base`: keys (rule, function, construct) of what the check reports on repo_root itself."""
    base = frozenset(base)
    todo = [(prop, v, repo_root, base) for v in V if prop in v[1]]
    seeds = [(prop, d, repo_root) for d in _seeds_for(prop)]
    refac = [(prop, d, repo_root, base) for d in _benign_corpus()]
    jobs = jobs or min(16, max(1, len(todo) + len(seeds) + len(refac)))
    out = {"total": len(todo), "ok": 0, "stale": 0, "failed": [], "variants": []}
    if not todo and not seeds and not refac:
        return out
    with ProcessPoolExecutor(jobs) as ex:
        sres = list(ex.map(_run_seed, seeds)) if seeds else []
        out["seeded_total"] = len(seeds)
        out["seeded_caught"] = sum(1 for x in sres if x[1] == "ok")
        out["seeded_stale"] = sum(1 for x in sres if x[1] == "stale")
        out["seeded"] = [{"seed": n, "status": st, "detail": msg} for n, st, msg in sres]
        for n, st, msg in sres:
            if st == "fail":
                out["failed"].append("%s: %s" % (n, msg))
        bres = list(ex.map(_run_benign, refac)) if refac else []
        out["refactorings_total"] = len(refac)
        out["refactorings_silent"] = sum(1 for x in bres if x[1] == "ok")
        out["refactorings_stale"] = sum(1 for x in bres if x[1] == "stale")
        out["refactorings"] = [{"refactoring": n, "status": st, "detail": msg} for n, st, msg in bres if st != "ok"]
        for n, st, msg in bres:
            if st == "fail":
                out["failed"].append("%s: %s" % (n, msg))
        for name, status, msg in ex.map(_run_one, todo):
            out["variants"].append({"variant": name, "status": status, "detail": msg})
            if status == "ok":
                out["ok"] += 1
            elif status == "stale":
                out["stale"] += 1
            else:
                out["failed"].append("%s: %s" % (name, msg))
    # the canonicaliser itself: pairs that must be told apart / recognised as the same (sa/canon_unit.py)
    from . import canon_unit
    cu = canon_unit.run()
    out["canonicaliser_unit_pairs"] = len(canon_unit.DIFFERENT) + len(canon_unit.SAME)
    for msg in cu:
        out["failed"].append("canonicaliser: %s" % msg)
    if out["stale"] * 3 > out["total"]:
        out["failed"].append("%d of %d variants are stale (anchors vanished)" % (out["stale"], out["total"]))
    out["breaking"] = sum(1 for x in todo if x[1][2] == B)
    out["benign"] = sum(1 for x in todo if x[1][2] == G)
    return out


if __name__ == "__main__":
    import json
    root = sys.argv[1] if len(sys.argv) > 1 else "/repo"
    from . import props as P
    allr = {}
    bad = 0
    for p in sorted(P.PROPS):
        r = run_for_property(p, root)
        allr[p] = r
        print(p, "%d/%d ok, %d stale" % (r["ok"], r["total"], r["stale"]))
        for f in r["failed"]:
            print("   FAIL", f)
            bad += 1
        for x in r["variants"]:
            if x["status"] == "stale":
                print("   STALE", x["variant"], x["detail"])
    sys.exit(1 if bad else 0)
