"""Alpha-renaming of locals back to the reference spelling.

Many rules name the state variables of the code they decide (`IS_links`,
`status`, `times`, ...), as the property anchors do.  A refactor that only
renames locals must not raise an alarm.  `sa/refnames.json` freezes, per
function, a digest of its alpha-normal form (every local -- assigned name, loop
/ comprehension / lambda variable, nested function name and nested-function
parameter -- replaced by v0, v1, ... in order of first appearance; parameters
of the function itself are API and are kept) together with the reference names
in that order.  When a function of the analysed tree has the SAME alpha-normal
form as the reference but spells its locals differently, the locals are renamed
back before any rule runs.  A function that changed in any other way does not
match and is analysed as it is written.

    python -m sa.alpha --freeze      rewrite sa/refnames.json from /repo's current tree
"""
import ast
import copy
import hashlib
import json
import os

REF = os.path.join(os.path.dirname(os.path.abspath(__file__)), "refnames.json")


def _strip_doc(fn):
    for n in ast.walk(fn):
        if isinstance(n, (ast.FunctionDef, ast.ClassDef)) and n.body and isinstance(n.body[0], ast.Expr) \
                and isinstance(n.body[0].value, ast.Constant) and isinstance(n.body[0].value.value, str):
            n.body = n.body[1:] or [ast.Pass()]


def _own_params(fn):
    own = [a.arg for a in fn.args.posonlyargs + fn.args.args + fn.args.kwonlyargs]
    if fn.args.vararg:
        own.append(fn.args.vararg.arg)
    if fn.args.kwarg:
        own.append(fn.args.kwarg.arg)
    return own


def _scope_locals(node):
    """Names bound in the scope of `node` (a FunctionDef or Lambda) itself, not in nested function scopes."""
    loc = set()
    body = node.body if isinstance(node.body, list) else [node.body]
    stack = list(body)
    while stack:
        n = stack.pop()
        if isinstance(n, (ast.FunctionDef, ast.AsyncFunctionDef)):
            loc.add(n.name)
            stack.extend(n.args.defaults + [d for d in n.args.kw_defaults if d is not None])
            continue
        if isinstance(n, ast.Lambda):
            stack.extend(n.args.defaults)
            continue
        if isinstance(n, ast.ClassDef):
            loc.add(n.name)
            continue
        if isinstance(n, (ast.ListComp, ast.SetComp, ast.GeneratorExp, ast.DictComp)):
            # only the first iterable is evaluated in this scope
            stack.append(n.generators[0].iter)
            continue
        if isinstance(n, ast.Name) and isinstance(n.ctx, (ast.Store, ast.Del)):
            loc.add(n.id)
        elif isinstance(n, ast.ExceptHandler) and n.name:
            loc.add(n.name)
        stack.extend(ast.iter_child_nodes(n))
    return loc


class _Alpha:
    """Scope-aware traversal in source order; `action(node, attr, key)` is called for every identifier that belongs to a
    renamable binding, where key identifies the binding (scope id, name)."""

    def __init__(self, fn):
        self.fn = fn
        self.order = []          # binding keys in order of first appearance
        self.sites = []          # (node, attribute name, key)
        self.nscope = 0
        kw = {k.arg for n in ast.walk(fn) if isinstance(n, ast.Call) for k in n.keywords if k.arg}
        self.kw = kw
        own = set(_own_params(fn))
        top = {nm: (0, nm) for nm in _scope_locals(fn) if nm not in own}
        self.walk_body(fn.body, top)

    def touch(self, node, attr, key):
        if key not in self.order:
            self.order.append(key)
        self.sites.append((node, attr, key))

    def walk_body(self, body, env):
        for st in body:
            self.visit(st, env)

    def visit(self, n, env):
        if isinstance(n, (ast.FunctionDef, ast.AsyncFunctionDef)):
            if n.name in env:
                self.touch(n, "name", env[n.name])
            for d in n.args.defaults + [d for d in n.args.kw_defaults if d is not None]:
                self.visit(d, env)
            self.nscope += 1
            sid = self.nscope
            inner = dict(env)
            params = _own_params(n)
            for a in n.args.posonlyargs + n.args.args + n.args.kwonlyargs + [x for x in (n.args.vararg, n.args.kwarg) if x]:
                if a.arg in self.kw:
                    inner.pop(a.arg, None)      # may be passed by keyword: keep its spelling
                    continue
                inner[a.arg] = (sid, a.arg)
                self.touch(a, "arg", inner[a.arg])
            for nm in _scope_locals(n):
                if nm not in params:
                    inner[nm] = (sid, nm)
            self.walk_body(n.body, inner)
            return
        if isinstance(n, ast.Lambda):
            for d in n.args.defaults:
                self.visit(d, env)
            self.nscope += 1
            sid = self.nscope
            inner = dict(env)
            for a in n.args.posonlyargs + n.args.args + n.args.kwonlyargs + [x for x in (n.args.vararg, n.args.kwarg) if x]:
                inner[a.arg] = (sid, a.arg)
                self.touch(a, "arg", inner[a.arg])
            self.visit(n.body, inner)
            return
        if isinstance(n, (ast.ListComp, ast.SetComp, ast.GeneratorExp, ast.DictComp)):
            # comprehension variables live in their own scope (they may shadow a parameter)
            self.nscope += 1
            sid = self.nscope
            inner = dict(env)
            for g in n.generators:
                self.visit(g.iter, inner)
                for t in ast.walk(g.target):
                    if isinstance(t, ast.Name):
                        inner[t.id] = (sid, t.id)
                self.visit(g.target, inner)
                for c in g.ifs:
                    self.visit(c, inner)
            if isinstance(n, ast.DictComp):
                self.visit(n.key, inner)
                self.visit(n.value, inner)
            else:
                self.visit(n.elt, inner)
            return
        if isinstance(n, ast.Name):
            if n.id in env:
                self.touch(n, "id", env[n.id])
            return
        if isinstance(n, ast.ExceptHandler):
            if n.type is not None:
                self.visit(n.type, env)
            if n.name and n.name in env:
                self.touch(n, "name", env[n.name])
            self.walk_body(n.body, env)
            return
        for c in ast.iter_child_nodes(n):
            self.visit(c, env)


def alpha_form(fn):
    """(digest of the alpha-normal form, binding names in order of first appearance)"""
    f = copy.deepcopy(fn)
    _strip_doc(f)
    a = _Alpha(f)
    idx = {k: i for i, k in enumerate(a.order)}
    for node, attr, key in a.sites:
        setattr(node, attr, "v%d" % idx[key])
    text = ast.dump(f, annotate_fields=False, include_attributes=False)
    return hashlib.sha256(text.encode()).hexdigest(), [k[1] for k in a.order]


def _rename_to(fn, names):
    """Rename the bindings of fn (in order of first appearance) to `names`."""
    a = _Alpha(fn)
    idx = {k: i for i, k in enumerate(a.order)}
    for node, attr, key in a.sites:
        setattr(node, attr, names[idx[key]])


def _functions(tree, module):
    out = []
    for st in tree.body:
        if isinstance(st, ast.FunctionDef):
            out.append(("%s.%s" % (module, st.name), st))
        elif isinstance(st, ast.ClassDef):
            for b in st.body:
                if isinstance(b, ast.FunctionDef):
                    out.append(("%s.%s.%s" % (module, st.name, b.name), b))
                elif isinstance(b, ast.ClassDef):
                    for c in b.body:
                        if isinstance(c, ast.FunctionDef):
                            out.append(("%s.%s.%s.%s" % (module, st.name, b.name, c.name), c))
    return out


_ref_cache = None


def load_ref():
    global _ref_cache
    if _ref_cache is None:
        try:
            _ref_cache = json.load(open(REF))
        except FileNotFoundError:
            _ref_cache = {}
    return _ref_cache


def restore_names(tree, module):
    """Rename the locals of every function whose alpha-normal form equals the reference. Returns the number renamed."""
    ref = load_ref()
    n = 0
    for qual, fn in _functions(tree, module):
        r = ref.get(qual)
        if not r:
            continue
        digest, order = alpha_form(fn)
        if digest == r["alpha"] and order != r["names"] and len(order) == len(r["names"]):
            _strip_doc(fn)
            _rename_to(fn, r["names"])
            n += 1
    return n


if __name__ == "__main__":
    import sys
    import warnings
    from .core import MODULES
    root = os.environ.get("EON_REPO", "/repo")
    if "--freeze" in sys.argv:
        out = {}
        from .core import normalise, canonicalise_calls
        trees = {}
        for m in MODULES:
            with warnings.catch_warnings():
                warnings.simplefilter("ignore")
                trees[m] = normalise(ast.parse(open(os.path.join(root, "EoN", m + ".py"), encoding="utf-8").read()))
        canonicalise_calls(trees)
        for m in MODULES:
            for qual, fn in _functions(trees[m], m):
                d, order = alpha_form(fn)
                out[qual] = {"alpha": d, "names": order}
        json.dump(out, open(REF, "w"), indent=0, sort_keys=True)
        print("froze", len(out), "functions into", REF)
