"""Run every property check on one tree in one process (for the seed / benign harnesses; evidence is NOT written).
usage: python -m sa.multi --repo <dir> [props...]   -> one line per property that does not pass: `<ID> rc=<1|2> <rules>`"""
import sys

from .core import Repo, AnalysisError
from .report import Report
from . import props as P


def run_all(root, props=None):
    out = {}
    try:
        repo = Repo(root)
    except AnalysisError as e:
        return {p: (2, ["ANALYSIS-ERROR: %s" % e]) for p in (props or sorted(P.PROPS))}, {}
    for p in (props or sorted(P.PROPS)):
        rep = Report(p, "quick", 0)
        try:
            P.PROPS[p](repo, rep)
            fails = rep.failures()
        except AnalysisError as e:
            out[p] = (2, ["ANALYSIS-ERROR: %s" % str(e)[:100]])
            continue
        except Exception as e:
            out[p] = (2, ["ANALYSIS-ERROR: internal exception %s: %s" % (type(e).__name__, str(e)[:80])])
            continue
        if fails:
            out[p] = (1, sorted({o["rule"] for o in fails}))
    return out, getattr(repo, "equivalent", {})


if __name__ == "__main__":
    a = sys.argv[1:]
    root = a[a.index("--repo") + 1]
    props = [x for x in a if x.startswith("C") and len(x) == 3]
    res, eq = run_all(root, props or None)
    for p, (rc, rules) in sorted(res.items()):
        print("%s rc=%d %s" % (p, rc, ",".join(rules)))
    print("EQUIVALENT-TO-REFERENCE", {k: v for k, v in eq.items()})
