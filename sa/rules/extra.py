"""R16w (wrapper flow), discrete-time contact rules (C12/C09), Markovian helper
rule (C01)."""
import ast

from ..core import own_nodes, attr_chain, short, names_in, Func, resolve_callee, AnalysisError
from ..flow import walk_function, contexts_by_node, same, atomic_facts, refs
from .callrules import sites_of, in_scope, dependency_closure, depends_on
from .. import tables as T


def _k(e):
    return short(e, 600).replace(" ", "")


def _fact_set(c):
    return {("%s" if pol else "not(%s)") % _k(fx) for fx, pol in c.facts}


# ---------------------------------------------------------------------------
def r16w(repo, rep, modules, floor=7):
    """Wrappers: functions all of whose returns are calls into the package."""
    rep.rule("R16w", "wrapper flow: in a function whose every return is a call into the package, each semantic parameter reaches "
                     "each returned call through data dependence, unless that return is only reached when the parameter is None")
    sites, _ = sites_of(repo)
    nw = 0
    for m in modules:
        for f in sorted(repo.public_functions(m), key=lambda f: f.name):
            if not in_scope(f):
                continue
            rets = [(c, c.stmt) for c in walk_function(f.node) if isinstance(c.stmt, ast.Return)]
            if not rets:
                continue
            calls = []
            for c, r in rets:
                s = [x for x in sites if x.node is r.value and x.caller is f and x.kind == "direct" and isinstance(x.callee, Func)]
                if not s:
                    calls = None
                    break
                calls.append((c, r, s[0]))
            if not calls:
                continue
            nw += 1
            rep.analysed(f)
            dep = dependency_closure(f)
            for c, r, s in calls:
                argnames = set()
                for a in list(r.value.args) + [k.value for k in r.value.keywords]:
                    argnames |= names_in(a)
                reach = set(argnames)
                for a in argnames:
                    reach |= dep.get(a, set())
                for p in f.all_params:
                    if p not in T.SEMANTIC:
                        continue
                    none_here = any((pol and _k(fx) == "%sisNone" % p) or ((not pol) and _k(fx) == "%sisnotNone" % p)
                                    for fx, pol in c.facts)
                    ok = p in reach or none_here
                    rep.ob("R16w", ok, "%s -> %s: `%s` reaches the call" % (f.name, s.callee.name, p), func=f, node=r,
                           construct="%s -> %s: %s %s" % (f.name, s.callee.name, p, "reaches" if p in reach else ("is None here" if none_here else "LOST")),
                           detail="" if ok else "parameter `%s` has no data path into the returned call %s(...) on this branch: it is silently ignored" % (p, s.callee.name))
    rep.floor("R16w", "wrappers", nw, floor)


# ---------------------------------------------------------------------------
def discrete_contacts(repo, rep):
    rep.rule("DISC", "discrete-time contacts: one Bernoulli test per (infectious u, susceptible neighbour v), tested only for "
                     "susceptible v; the recorded infector of v is one of the nodes that infected it in that generation; "
                     "_simple_test_transmission_ is one draw compared with p")
    f = repo.f("_simple_test_transmission_")
    rep.analysed(f)
    rets = [n for n in own_nodes(f.node) if isinstance(n, ast.Return)]
    ok = len(rets) == 1 and _k(rets[0].value) in ("random.random()<%s" % f.params[2], "%s>random.random()" % f.params[2])
    rep.ob("DISC", ok, "_simple_test_transmission_(u, v, p) = one uniform draw < p", func=f, node=rets[0] if rets else f.node,
           construct=_k(rets[0].value) if rets else None, detail="" if ok else "transmission test is not `random.random() < p`")
    # discrete_SIR
    f = repo.f("discrete_SIR")
    rep.analysed(f)
    loop = [n for n in f.node.body if isinstance(n, ast.While)][0]
    ul = [s for s in loop.body if isinstance(s, ast.For) and _k(s.iter) == "infecteds"]
    ok = len(ul) >= 1
    if ok:
        u = _k(ul[0].target)
        vl = [s for s in ul[0].body if isinstance(s, ast.For) and _k(s.iter) == "G.neighbors(%s)" % u]
        ok = len(vl) == 1 and len(ul[0].body) == 1
        if ok:
            v = _k(vl[0].target)
            ifs = [s for s in vl[0].body if isinstance(s, ast.If)]
            ok = len(ifs) == 1 and len(vl[0].body) == 1
            if ok:
                t = ifs[0].test
                # susceptible[v] and test_transmission(u, v, *args): the susceptibility test comes first (short circuit:
                # no draw for a non-susceptible contact)
                okt = isinstance(t, ast.BoolOp) and isinstance(t.op, ast.And) and len(t.values) == 2 and \
                    _k(t.values[0]) == "susceptible[%s]" % v and _k(t.values[1]) == "test_transmission(%s,%s,*args)" % (u, v)
                rep.ob("DISC", okt, "discrete_SIR: test_transmission(u, v, *args) is evaluated exactly for susceptible neighbours of infectious nodes",
                       func=f, node=ifs[0], construct="contact test %s" % _k(t),
                       detail="" if okt else "contact test is not `susceptible[v] and test_transmission(u, v, *args)`")
                body = [_k(s) for s in ifs[0].body]
                okb = "new_infecteds.add(%s)" % v in body and "infector[%s]=[%s]" % (v, u) in body
                rep.ob("DISC", okb, "discrete_SIR: a successful contact puts v in the next generation with infector u", func=f, node=ifs[0],
                       construct="success arm %s" % sorted(body), detail="" if okb else "success arm changed")
                # the elif arm (full data only): extra infectors of an already-chosen v
                if ifs[0].orelse:
                    e = ifs[0].orelse[0]
                    oke = isinstance(e, ast.If) and _k(e.test) == "return_full_dataand%sinnew_infectedsandtest_transmission(%s,%s,*args)" % (v, u, v) \
                        and [_k(s) for s in e.body] == ["infector[%s].append(%s)" % (v, u)] and not e.orelse
                    rep.ob("DISC", oke, "discrete_SIR: additional infectors are only collected for nodes already infected this generation",
                           func=f, node=e, construct="extra infector arm %s" % _k(e.test), detail="" if oke else "extra-infector arm changed")
    rep.ob("DISC", ok, "discrete_SIR: generation loop is `for u in infecteds: for v in G.neighbors(u): if ...`", func=f, node=loop,
           construct="contact loops", detail="" if ok else "contact loops changed shape")
    # recorded infector
    for name in ("discrete_SIR", "basic_discrete_SIS"):
        g = repo.f(name)
        rep.analysed(g)
        lp = [n for n in g.node.body if isinstance(n, ast.While)][0]
        recs = [c for c in walk_function(g.node) if isinstance(c.stmt, ast.Expr) and isinstance(c.stmt.value, ast.Call)
                and _k(c.stmt.value.func) == "transmissions.append" and lp in c.loops]
        ok = len(recs) == 1
        if ok:
            c = recs[0]
            tup = c.stmt.value.args[0]
            il = [l for l in c.loops if isinstance(l, ast.For) and _k(l.iter) in ("infector.keys()", "infector", "infector.items()")]
            ok = isinstance(tup, ast.Tuple) and len(tup.elts) == 3 and len(il) == 1 and "return_full_data" in _fact_set(c)
            if ok:
                if _k(il[0].iter) == "infector.items()" and isinstance(il[0].target, ast.Tuple) and len(il[0].target.elts) == 2:
                    v = _k(il[0].target.elts[0])
                    srcs = (_k(il[0].target.elts[1]), "infector[%s]" % v)
                else:
                    v = _k(il[0].target)
                    srcs = ("infector[%s]" % v,)
                # the contact step: t[-1], or a local bound to t[-1] in this iteration before t is advanced
                step_ok = _k(tup.elts[0]) == "t[-1]"
                if not step_ok and isinstance(tup.elts[0], ast.Name):
                    defs_ = [s2 for s2 in lp.body if isinstance(s2, ast.Assign) and _k(s2.targets[0]) == tup.elts[0].id]
                    step_ok = len(defs_) == 1 and _k(defs_[0].value) == "t[-1]"
                ok = step_ok and _k(tup.elts[1]) in ["random.choice(%s)" % x for x in srcs] and _k(tup.elts[2]) == v
                # recorded before the time series is advanced
                tapp = [s for s in lp.body if _k(s).startswith("t.append(")]
                top = [s for s in lp.body if any(x is c.stmt for x in ast.walk(s))][0]
                ok = ok and bool(tapp) and lp.body.index(top) < lp.body.index(tapp[0])
        rep.ob("DISC", ok, "%s: one record (contact step, one of its infectors, v) per newly infected v" % name, func=g,
               node=recs[0].stmt if recs else lp, construct="%s record %s" % (name, _k(recs[0].stmt) if recs else None),
               detail="" if ok else "transmission record of the generation changed")
        ini = [c for c in walk_function(g.node) if isinstance(c.stmt, ast.Expr) and isinstance(c.stmt.value, ast.Call)
               and _k(c.stmt.value.func) == "transmissions.append" and lp not in c.loops]
        oki = len(ini) == 1 and any(isinstance(l, ast.For) and _k(l.iter) == "initial_infecteds" for l in ini[0].loops) and \
            _k(ini[0].stmt.value.args[0].elts[1]) == "None" and _k(ini[0].stmt.value.args[0].elts[2]) == _k([l for l in ini[0].loops][-1].target)
        rep.ob("DISC", oki, "%s: source-less records exist exactly for the initially infected nodes" % name, func=g,
               node=ini[0].stmt if ini else g.node, construct="%s initial records %s" % (name, [_k(x.stmt) for x in ini]),
               detail="" if oki else "records without a source are not tied to initial_infecteds")
    # basic_discrete_SIS
    f = repo.f("basic_discrete_SIS")
    loop = [n for n in f.node.body if isinstance(n, ast.While)][0]
    ul = [s for s in loop.body if isinstance(s, ast.For) and _k(s.iter) == "infecteds"]
    ok = False
    why = "no `for u in infecteds: for v in G.neighbors(u)` loops"
    if ul:
        u = _k(ul[0].target)
        vl = [s for s in ul[0].body if isinstance(s, ast.For) and _k(s.iter) == "G.neighbors(%s)" % u]
        if len(vl) == 1 and len(ul[0].body) == 1:
            v = _k(vl[0].target)
            ctxs_ = [c for c in walk_function(f.node) if vl[0] in c.loops]
            base = None
            for c in walk_function(f.node):
                if c.stmt is vl[0]:
                    base = {(_k(fx), pol) for fx, pol in c.facts}
            adds = [c for c in ctxs_ if isinstance(c.stmt, ast.Expr) and _k(c.stmt) == "new_infecteds.add(%s)" % v]
            draws = [x for x in ast.walk(vl[0]) if isinstance(x, ast.Call) and _k(x.func) == "random.random"]
            MEM, DRAW, NEW = "%snotininfecteds" % v, "random.random()<p", "%snotinnew_infecteds" % v
            MEMN, NEWN = "%sininfecteds" % v, "%sinnew_infecteds" % v

            def norm(fx, pol):
                k = _k(fx)
                if k == MEMN:
                    return (MEM, not pol)
                if k == NEWN:
                    return (NEW, not pol)
                return (k, pol)
            ok = len(adds) >= 1 and len(draws) == 1
            why = "%d additions to the next generation, %d draws per contact" % (len(adds), len(draws))
            for c in adds:
                inner = [norm(fx, pol) for fx, pol in c.facts if (_k(fx), pol) not in (base or set())]
                keys = [k for k, _ in inner]
                good = (MEM, True) in inner and (DRAW, True) in inner and keys.index(MEM) < keys.index(DRAW) \
                    and all(k in (MEM, DRAW, NEW) for k in keys)
                if not good:
                    ok = False
                    why = "a node enters the next generation under %s, not under `%s not in infecteds` then one draw `random.random() < p`" % (
                        [("" if pol else "not ") + k for k, pol in inner], v)
            # who infected v: first contact starts the list, later ones extend it (or setdefault does both)
            inf_ops = [c for c in ctxs_ if isinstance(c.stmt, (ast.Assign, ast.Expr)) and "infector" in _k(c.stmt)]
            forms = sorted(_k(c.stmt) for c in inf_ops)
            pair = forms == sorted(["infector[%s]=[%s]" % (v, u), "infector[%s].append(%s)" % (v, u)])
            sd = forms == ["infector.setdefault(%s,[]).append(%s)" % (v, u)]
            if pair:
                for c in inf_ops:
                    # the enclosing test (the fact itself is gone once new_infecteds.add(v) has run in the same arm)
                    fs = {norm(fx, pol) for fx, pol in c.facts} | {norm(fx, pol) for fx, pol in c.enclosing_conditions()}
                    want = (NEW, True) if "=[" in _k(c.stmt) else (NEW, False)
                    if want not in fs:
                        ok = False
                        why = "%s is not under `%s%s in new_infecteds`" % (_k(c.stmt), v, " not" if want[1] else "")
            elif sd:
                c = inf_ops[0]
                fs = [norm(fx, pol) for fx, pol in c.facts if (_k(fx), pol) not in (base or set())]
                if not ((MEM, True) in fs and (DRAW, True) in fs and all(k in (MEM, DRAW) for k, _ in fs)):
                    ok = False
                    why = "infector.setdefault(...) is not executed for exactly the successful contacts"
            else:
                ok = False
                why = "infector bookkeeping %s" % forms
    rep.ob("DISC", ok, "basic_discrete_SIS: each (infectious u, non-infectious neighbour v) contact succeeds with one draw < p; "
           "infectious status is that of the current generation for the whole step", func=f, node=loop, construct="SIS contact loops: %s" % ok,
           detail="" if ok else "contact test is not `v not in infecteds and random.random() < p` over the current generation (%s)" % why)
    # S = N - I each step
    t = [_k(s) for s in loop.body]
    ok = "S.append(N-len(infecteds))" in t and "I.append(len(infecteds))" in t and t.index("infecteds=new_infecteds") < t.index("I.append(len(infecteds))")
    rep.ob("DISC", ok, "basic_discrete_SIS: rows are (N - |next generation|, |next generation|)", func=f, node=loop, construct="SIS rows",
           detail="" if ok else "row computation changed")


# ---------------------------------------------------------------------------
def markov_helper(repo, rep):
    rep.rule("MARKOV", "_trans_and_rec_time_Markovian_const_trans_: duration ~ Exp(rec_rate_fxn(node)); number of recipients ~ "
                       "Binomial(#susceptible neighbours, 1-exp(-tau*duration)); recipients sampled without replacement; each delay a "
                       "truncated exponential on [0, duration]; _truncated_exponential_ reduces an Exp(rate) draw modulo T")
    f = repo.f("_trans_and_rec_time_Markovian_const_trans_")
    rep.analysed(f)
    env = {}
    for c in walk_function(f.node):
        st = c.stmt
        if isinstance(st, ast.Assign) and isinstance(st.targets[0], ast.Name):
            env.setdefault(st.targets[0].id, []).append((st.value, c))
    node, nbrs, tau, rrf = f.params[:4]

    def one(name):
        v = env.get(name, [])
        return v[0][0] if len(v) == 1 else None
    # duration
    dur = env.get("duration", [])
    okd = False
    for v, c in dur:
        if isinstance(v, ast.Call) and _k(v.func) == "random.expovariate":
            a = v.args[0]
            if isinstance(a, ast.Name) and one(a.id) is not None:
                a = one(a.id)
            okd = _k(a) == "%s(%s)" % (rrf, node)
    rep.ob("MARKOV", okd, "duration ~ Exp(rec_rate_fxn(node)): the node's own (possibly weighted) recovery rate", func=f, node=f.node,
           construct="duration defs %s" % [_k(v) for v, c in dur], detail="" if okd else "infection duration is not drawn with rec_rate_fxn(node)")
    tp = one("trans_prob")
    okp = tp is not None and _k(tp) in ("1-np.exp(-%s*duration)" % tau, "1-np.exp(-duration*%s)" % tau, "1-math.exp(-%s*duration)" % tau)
    rep.ob("MARKOV", okp, "per-neighbour transmission probability 1 - exp(-tau*duration)", func=f, node=f.node,
           construct="trans_prob = %s" % (_k(tp) if tp is not None else None), detail="" if okp else "transmission probability changed")
    nn = one("number_to_infect")
    okn = nn is not None and _k(nn) == "np.random.binomial(len(%s),trans_prob)" % nbrs
    rep.ob("MARKOV", okn, "number of recipients ~ Binomial(len(susceptible neighbours), trans_prob)", func=f, node=f.node,
           construct="number_to_infect = %s" % (_k(nn) if nn is not None else None), detail="" if okn else "recipient count changed")
    rc = one("transmission_recipients")
    okr = rc is not None and _k(rc) == "random.sample(%s,number_to_infect)" % nbrs
    rep.ob("MARKOV", okr, "recipients are a uniform sample without replacement of the susceptible neighbours", func=f, node=f.node,
           construct="recipients = %s" % (_k(rc) if rc is not None else None), detail="" if okr else "recipient sampling changed")
    okt = False
    for n in own_nodes(f.node):
        if isinstance(n, ast.For) and _k(n.iter) == "transmission_recipients":
            v = _k(n.target)
            okt = [_k(s) for s in n.body] == ["trans_delay[%s]=_truncated_exponential_(%s,duration)" % (v, tau)]
    rep.ob("MARKOV", okt, "each recipient's delay is Exp(tau) truncated to the infectious period", func=f, node=f.node,
           construct="delay loop: %s" % okt, detail="" if okt else "delay of a recipient is not _truncated_exponential_(tau, duration)")
    rets = [n for n in own_nodes(f.node) if isinstance(n, ast.Return)]
    okr = len(rets) >= 1 and all(_k(r.value) == "(trans_delay,duration)" for r in rets)
    rep.ob("MARKOV", okr, "returns (delays, duration)", func=f, node=rets[0] if rets else f.node, construct="return %s" % [_k(r.value) for r in rets],
           detail="" if okr else "return changed")
    g = repo.f("_truncated_exponential_")
    rep.analysed(g)
    rate, Tm = g.params[:2]
    genv = {}
    for n in own_nodes(g.node):
        if isinstance(n, ast.Assign) and isinstance(n.targets[0], ast.Name):
            genv[n.targets[0].id] = _k(n.value)
    rets = [c for c in walk_function(g.node) if isinstance(c.stmt, ast.Return)]
    final = [c for c in rets if not c.enclosing_conditions()]
    ok = genv.get("t") == "random.expovariate(%s)" % rate and genv.get("L") == "int(t/%s)" % Tm and len(final) == 1 and \
        _k(final[0].stmt.value) in ("t-L*%s" % Tm, "t-%s*L" % Tm)
    rep.ob("MARKOV", ok, "_truncated_exponential_(rate, T) = Exp(rate) draw reduced modulo T", func=g, node=g.node,
           construct="t=%s L=%s return %s" % (genv.get("t"), genv.get("L"), [_k(c.stmt.value) for c in rets]),
           detail="" if ok else "truncated exponential changed")
    # fast_SIR: the constant-rate shortcut is used only when it is valid
    h = repo.f("fast_SIR")
    rep.analysed(h)
    sites, _ = sites_of(repo)
    n_before = len(rep.obs)
    for c in walk_function(h.node):
        if isinstance(c.stmt, ast.Return) and isinstance(c.stmt.value, ast.Call):
            kw = {k.arg: k.value for k in c.stmt.value.keywords}
            for s_ in sites:
                if s_.node is c.stmt.value and not s_.error:
                    kw = {k: v for k, v in s_.binding.items() if isinstance(v, ast.AST)}
            if "trans_and_rec_time_fxn" in kw:
                fs = _fact_set(c)
                ok = ("not(transmission_weightisnotNone)" in fs or "transmission_weightisNone" in fs) and \
                    ("not(tau*gamma==0)" in fs or "tau*gamma!=0" in fs or "gamma*tau!=0" in fs or "not(gamma*tau==0)" in fs)
                rep.ob("MARKOV", ok, "fast_SIR: the constant-tau shortcut is taken only without edge weights and with tau*gamma != 0",
                       func=h, node=c.stmt, construct="shortcut under %s" % sorted(fs), detail="" if ok else "shortcut guard changed")
                args = kw.get("trans_and_rec_time_args")
                oka = isinstance(args, ast.Tuple) and [_k(e) for e in args.elts] == ["tau", "rec_rate_fxn"]
                rep.ob("MARKOV", oka, "fast_SIR: the shortcut receives (tau, rec_rate_fxn)", func=h, node=c.stmt,
                       construct="shortcut args %s" % (_k(args) if args is not None else None), detail="" if oka else "shortcut arguments changed")
            if "trans_time_fxn" in kw:
                for nm, rf, nargs in (("trans_time_fxn", "trans_rate_fxn", 2), ("rec_time_fxn", "rec_rate_fxn", 1)):
                    g2 = h.nested.get(nm)
                    ok2 = g2 is not None
                    if ok2:
                        t = ast.unparse(g2.node).replace(" ", "")
                        call = "%s(%s)" % (rf, ",".join(g2.params[:nargs]))
                        ok2 = "rate=%s" % call in t and "ifrate>0:" in t and "returnrandom.expovariate(rate)" in t and "returnfloat('Inf')" in t
                    rep.ob("MARKOV", ok2, "fast_SIR general path: %s ~ Exp(%s of its own arguments), Inf for rate 0" % (nm, rf), func=h,
                           node=g2.node if g2 else h.node, construct="%s body" % nm, detail="" if ok2 else "delay rule of the general path changed")
    if rep.only is None or "MARKOV" in rep.only:
        rep.floor("MARKOV", "fast_SIR path obligations (shortcut guard+args, two general-path delay rules)", len(rep.obs) - n_before, 4)


# ---------------------------------------------------------------------------
FALSY_OK = {"rho", "initial_infecteds", "initial_recovereds", "Y0", "X0", "XY0", "XX0", "nodelist", "Ks", "phiS0", "phiR0",
            "Sk0", "IC", "transmissibility", "tmin", "tau", "gamma", "p", "R0"}


def _shared_value_sites(tree, drawing=()):
    """Calls that give every key / slot ONE object or ONE draw: dict.fromkeys(keys, v), [v] * n, with v a mutable display,
    a container constructor, or an expression that draws a random number."""
    def hazard(v):
        for z in ast.walk(v):
            if isinstance(z, (ast.List, ast.Dict, ast.Set, ast.ListComp, ast.DictComp, ast.SetComp)):
                return "one mutable object `%s`" % short(z, 40)
            if isinstance(z, ast.Call):
                ch = attr_chain(z.func) or ""
                if ch in ("list", "dict", "set", "defaultdict", "collections.defaultdict", "deque", "Counter", "np.zeros", "np.ones", "np.array"):
                    return "one mutable object `%s`" % short(z, 40)
                if ch.startswith(("random.", "np.random.", "numpy.random.")) or ch.split(".")[-1] in drawing:
                    return "one random draw `%s`" % short(z, 40)
        return None
    out = []
    for n in ast.walk(tree):
        if isinstance(n, ast.Call) and isinstance(n.func, ast.Attribute) and n.func.attr == "fromkeys" and len(n.args) == 2:
            h = hazard(n.args[1])
            out.append((n, h))
        elif isinstance(n, ast.BinOp) and isinstance(n.op, ast.Mult):
            for side in (n.left, n.right):
                if isinstance(side, ast.List) and len(side.elts) == 1:
                    h = hazard(side.elts[0])
                    out.append((n, h))
    return out


def reachable_functions(repo, entries):
    """Short names of the package functions reachable from `entries` through any reference by name (calls, handlers
    passed to the queue, user-rule adapters); a referenced class brings its methods."""
    tops = {}
    for (m, nm), f in repo.top.items():
        tops.setdefault(nm, []).append(f)
    classes = {}
    for (m, nm), c in repo.classes.items():
        classes.setdefault(nm, []).append((m, c))
    seen, work, out = set(), list(entries), []
    while work:
        nm = work.pop()
        if nm in seen:
            continue
        seen.add(nm)
        nodes = [f.node for f in tops.get(nm, [])]
        for m, c in classes.get(nm, []):
            nodes += [b for b in c.body if isinstance(b, ast.FunctionDef)]
        for node in nodes:
            out.append(node)
            for z in ast.walk(node):
                ref = z.id if isinstance(z, ast.Name) else (z.attr if isinstance(z, ast.Attribute) and attr_chain(z) == "EoN.%s" % z.attr else None)
                if ref and (ref in tops or ref in classes) and ref not in seen:
                    work.append(ref)
    return out


def shared_value_rule(repo, rep, modules, entries=None):
    rep.rule("SHARE", "per-key state is per key: no dict.fromkeys(keys, v) / [v] * n where v is a mutable object (every node would "
                      "append to the same history list) or a random draw (every neighbour would get the same delay)")
    # the detector is exercised on every run (the expected number of sites in the package is zero)
    probe = ast.parse("def p(ks, t):\n    a = dict.fromkeys(ks, [t])\n    b = dict.fromkeys(ks, ([t], ['I']))\n"
                      "    c = [[]] * 3\n    d = dict.fromkeys(ks, random.expovariate(1))\n    e = dict.fromkeys(ks, 'I')\n    f = [0] * 3\n")
    got = [h is not None for _, h in _shared_value_sites(probe)]
    if sorted(got) != [False, False, True, True, True, True]:
        raise AnalysisError("SHARE: the detector no longer recognises its own probe (%s)" % got)
    drawing = set()
    for f in repo.all_funcs():
        if f.parent is None and any(isinstance(c, ast.Call) and (attr_chain(c.func) or "").startswith(("random.", "np.random."))
                                    for c in own_nodes(f.node)):
            drawing.add(f.name)
    n = 0
    scope = None if entries is None else {id(x) for x in reachable_functions(repo, entries)}
    for f in repo.all_funcs():
        if f.module not in modules or f.parent is not None:
            continue
        if scope is not None and id(f.node) not in scope:
            continue
        n += 1
        for call, h in _shared_value_sites(f.node, drawing):
            rep.analysed(f)
            rep.ob("SHARE", h is None, "%s: %s gives every key its own value" % (f.name, short(call, 60)), func=f, node=call,
                   construct="%s: %s" % (f.name, short(call, 80)),
                   detail="" if h is None else "every key receives %s: what is recorded for (or drawn for) one node shows up for all of them" % h)
    rep.count("SHARE:functions scanned", n)
    rep.floor("SHARE", "functions in scope", n, 1 if entries is None else len(set(entries)))


def truthy_rule(repo, rep, modules):
    rep.rule("TRUTHY", "an optional argument whose legitimate values include falsy ones (rho=0, node 0, an empty collection, "
                       "an array) is never used as a truth value (`if x`, `x or d`, `not x`, `x and y`): only `is None` tests decide "
                       "whether it was given")
    n = 0
    for f in repo.all_funcs():
        if f.module not in modules or not in_scope(f) or f.parent is not None:
            continue
        cands = {p for p in f.all_params if p in FALSY_OK}
        if not cands:
            continue
        n += 1
        rep.analysed(f)
        bad = []

        def truth_uses(e):
            if isinstance(e, ast.Name) and e.id in cands:
                bad.append(e)
            elif isinstance(e, ast.BoolOp):
                for v in e.values:
                    truth_uses(v)
            elif isinstance(e, ast.UnaryOp) and isinstance(e.op, ast.Not):
                truth_uses(e.operand)
        for node in own_nodes(f.node):
            if isinstance(node, (ast.If, ast.While, ast.IfExp, ast.Assert)):
                truth_uses(node.test)
            elif isinstance(node, ast.BoolOp):
                for v in node.values:
                    if isinstance(v, ast.Name) and v.id in cands:
                        bad.append(v)
            elif isinstance(node, ast.comprehension):
                for c in node.ifs:
                    truth_uses(c)
        seen = set()
        for b in bad:
            if (b.id, b.lineno) in seen:
                continue
            seen.add((b.id, b.lineno))
            rep.ob("TRUTHY", False, "%s: `%s` used as a truth value" % (f.qual, b.id), func=f, node=b,
                   construct="%s: truthiness of %s" % (f.name, b.id),
                   detail="`%s` is tested for truthiness: a legitimate falsy value (0, node 0, empty collection; arrays raise) is treated "
                   "as `not given`" % b.id)
        if not bad:
            rep.ob("TRUTHY", True, "%s: optional arguments are only tested with `is None`" % f.qual, func=f, construct="%s clean" % f.name)
    rep.floor("TRUTHY", "functions with such parameters", n, 20)


def identity_rule(repo, rep, modules):
    rep.rule("IDENT", "no `is` / `is not` comparison between two values that can be node labels or data (identity differs from "
                      "equality for tuples, strings built at run time, floats, large ints)")
    n = 0
    for f in repo.all_funcs():
        if f.module not in modules or not in_scope(f):
            continue
        bad = []
        for node in own_nodes(f.node):
            if isinstance(node, ast.Compare):
                left = node.left
                for op, right in zip(node.ops, node.comparators):
                    if isinstance(op, (ast.Is, ast.IsNot)):
                        n += 1
                        single = any(isinstance(x, ast.Constant) and (x.value is None or x.value is True or x.value is False or x.value is Ellipsis)
                                     for x in (left, right))
                        if not single:
                            bad.append(node)
                    left = right
        for b in bad:
            rep.ob("IDENT", False, "%s: identity comparison of values" % f.qual, func=f, node=b, construct=short(b, 80),
                   detail="`%s` compares object identity, not equality: equal node labels that are distinct objects are treated as different" % short(b, 60))
        if not bad:
            rep.ob("IDENT", True, "%s: `is` only against None/True/False" % f.qual, func=f, construct="%s clean" % f.name)
    rep.count("IDENT:is-comparisons seen", n)


def discrete_history_guard(repo, rep):
    rep.rule("DISC", "discrete-time full data: the history entries of a step are written whenever the step's time does not exceed tmax")
    for name in ("discrete_SIR", "basic_discrete_SIS"):
        f = repo.f(name)
        rep.analysed(f)
        n = 0
        for c in walk_function(f.node):
            st = c.stmt
            if isinstance(st, ast.Expr) and isinstance(st.value, ast.Call) and _k(st.value.func).startswith("node_history[") \
                    and _k(st.value.func).endswith("[0].append") and c.loops:
                n += 1
                tv = _k(st.value.args[0])
                guards = [(fx, pol) for fx, pol in c.facts if "tmax" in _k(fx) and tv in _k(fx)]
                ok = all(pol and isinstance(fx, ast.Compare) and _k(fx.left) == tv and isinstance(fx.ops[0], ast.LtE)
                         and _k(fx.comparators[0]) == "tmax" for fx, pol in guards)
                rep.ob("DISC", ok, "%s: history entry at %s written iff %s <= tmax" % (name, tv, tv), func=f, node=st,
                       construct="%s: %s under %s" % (name, _k(st), [_k(fx) for fx, pol in guards]),
                       detail="" if ok else "the step that lands exactly on tmax is reported in the series and the transmissions but "
                       "left out of the node histories")
        rep.floor("DISC", "%s history appends" % name, n, 2)


# ---------------------------------------------------------------------------
# STATE: nothing survives from one call to the next
# ---------------------------------------------------------------------------
def state_rule(repo, rep, modules=("simulation", "analytic", "auxiliary", "simulation_investigation", "__init__"), only_classes=None):
    rep.rule("STATE", "no state survives a call: no parameter default that is evaluated once and then shared (a call other than "
                      "float()/int(), a list / dict / set display or comprehension), and no class-level data attribute holding a "
                      "mutable object (every instance would share it)")
    nfun = ncls = 0
    for m in modules:
        tree = repo.mods[m]
        for n in ast.walk(tree):
            if isinstance(n, (ast.FunctionDef, ast.Lambda)):
                if only_classes is not None:
                    continue
                nfun += 1
                bad = []
                for d in n.args.defaults + [k for k in n.args.kw_defaults if k is not None]:
                    for x in ast.walk(d):
                        if isinstance(x, (ast.List, ast.Dict, ast.Set, ast.ListComp, ast.DictComp, ast.SetComp, ast.GeneratorExp)) or \
                                (isinstance(x, ast.Call) and (attr_chain(x.func) or "") not in ("float", "int", "str", "tuple", "frozenset", "bool")):
                            bad.append(d)
                            break
                name = getattr(n, "name", "<lambda>")
                f = next((g for g in repo.all_funcs() if g.node is n), None)
                if bad:
                    for d in bad:
                        rep.ob("STATE", False, "%s: default argument values are immutable constants" % name, func=f, node=d,
                               construct="default %s of %s" % (short(d, 50), name),
                               detail="the default `%s` is created once when the function is defined and shared by every later call "
                               "that omits the argument: what one run leaves in it is seen by the next" % short(d, 60))
                elif f is not None:
                    rep.ob("STATE", True, "%s: default argument values are immutable constants" % name, func=f, node=n,
                           construct="defaults of %s" % name)
            elif isinstance(n, ast.ClassDef):
                if only_classes is not None and n.name not in only_classes:
                    continue
                ncls += 1
                for b in n.body:
                    tgt = val = None
                    if isinstance(b, ast.Assign):
                        tgt, val = b.targets[0], b.value
                    elif isinstance(b, ast.AnnAssign) and b.value is not None:
                        tgt, val = b.target, b.value
                    if val is None:
                        continue
                    mutable = any(isinstance(x, (ast.List, ast.Dict, ast.Set, ast.ListComp, ast.DictComp, ast.SetComp)) or
                                  (isinstance(x, ast.Call) and (attr_chain(x.func) or "") not in ("float", "int", "str", "tuple", "frozenset", "bool"))
                                  for x in ast.walk(val))
                    rep.ob("STATE", not mutable, "class %s: no mutable class-level attribute" % n.name, node=b,
                           construct="%s.%s = %s" % (n.name, short(tgt, 30), short(val, 40)),
                           detail="" if not mutable else "`%s` in the class body is ONE object shared by all instances (and all runs in "
                           "the process); methods that update it in place leak state from one simulation into the next" % short(b, 60))
    rep.count("STATE:functions examined", nfun)
    rep.count("STATE:classes examined", ncls)
    if only_classes is None:
        rep.floor("STATE", "functions examined", nfun, 150)
    else:
        rep.floor("STATE", "classes examined", ncls, len(only_classes))


# ---------------------------------------------------------------------------
# R6n: node labels are opaque Python objects, never numpy scalars
# ---------------------------------------------------------------------------
_LABEL_COLLECTIONS = ("nodelist", "initial_infecteds", "initial_recovereds")


def labels_not_in_numpy(repo, rep, modules=("analytic", "simulation")):
    rep.rule("R6n", "collections of node labels (nodelist, initial_infecteds, initial_recovereds, G / G.nodes()) are never turned "
                    "into numpy arrays or compared with numpy set functions: numpy coerces labels (1 and '1', equal-length tuples), so "
                    "the result would depend on how nodes are named")
    NP = ("np.array", "np.asarray", "np.isin", "np.in1d", "np.unique", "np.sort", "np.intersect1d", "np.setdiff1d", "np.union1d",
          "numpy.array", "numpy.asarray", "numpy.isin", "numpy.in1d")

    ENV = [{}]

    def label_collection(e, depth=0):
        if isinstance(e, ast.Name) and e.id in _LABEL_COLLECTIONS:
            return True
        if isinstance(e, ast.Name) and depth < 4 and e.id in ENV[0]:
            # a local that is (on some path) bound to a collection of labels
            return any(label_collection(v, depth + 1) for v in ENV[0][e.id])
        if isinstance(e, ast.BinOp) and isinstance(e.op, ast.Add):
            return label_collection(e.left, depth + 1) or label_collection(e.right, depth + 1)
        if isinstance(e, ast.Call):
            ch = attr_chain(e.func) or ""
            if ch in ("list", "tuple", "sorted", "set") and e.args:
                return label_collection(e.args[0], depth + 1)
            if ch in ("G.nodes", "G.nodes()") or (ch.endswith(".nodes") and not e.args):
                return True
        if isinstance(e, ast.Name) and e.id == "G":
            return True
        return False
    n = 0
    for m in modules:
        for f in repo.all_funcs():
            if f.module != m:
                continue
            env = {}
            for x in own_nodes(f.node):
                if isinstance(x, ast.Assign) and len(x.targets) == 1 and isinstance(x.targets[0], ast.Name):
                    env.setdefault(x.targets[0].id, []).append(x.value)
            ENV[0] = env
            for c in own_nodes(f.node):
                if isinstance(c, ast.Call) and (attr_chain(c.func) or "") in NP:
                    n += 1
                    args = list(c.args) + [k.value for k in c.keywords]
                    bad = [a for a in args if label_collection(a)]
                    if bad:
                        rep.analysed(f)
                        rep.ob("R6n", False, "%s: node labels stay Python objects" % f.name, func=f, node=c,
                               construct="%s(%s)" % (attr_chain(c.func), short(bad[0], 40)),
                               detail="`%s` hands a collection of node labels to numpy, which coerces them to a common dtype: mixed "
                               "int/str labels stop matching and equal-length tuple labels become rows" % short(c, 70))
    rep.count("R6n:numpy array/set constructions examined", n)
    rep.ob("R6n", True, "numpy array / set-function calls examined", construct="%d calls, none on node-label collections" % n)
    rep.floor("R6n", "numpy array/set constructions examined", n, 40)


# ---------------------------------------------------------------------------
# ARR: list-or-array arguments are converted before they are used in arithmetic
# ---------------------------------------------------------------------------
def converted_before_use(repo, rep, modules=("analytic",)):
    rep.rule("ARR", "a parameter that the function converts with np.array(p) (it may be a plain list) is not used in arithmetic "
                    "before that conversion (list + list concatenates, list * float raises)")
    nconv = 0
    for m in modules:
        for f in sorted(repo.public_functions(m), key=lambda g: g.name):
            conv = {}
            for i, st in enumerate(f.node.body):
                if isinstance(st, ast.Assign) and len(st.targets) == 1 and isinstance(st.targets[0], ast.Name) \
                        and st.targets[0].id in f.all_params and isinstance(st.value, ast.Call) \
                        and (attr_chain(st.value.func) or "") in ("np.array", "np.asarray", "numpy.array") and st.value.args \
                        and isinstance(st.value.args[0], ast.Name) and st.value.args[0].id == st.targets[0].id:
                    conv.setdefault(st.targets[0].id, i)
            if not conv:
                continue
            rep.analysed(f)
            for p, at in sorted(conv.items()):
                nconv += 1
                early = None
                for st in f.node.body[:at]:
                    for x in ast.walk(st):
                        if isinstance(x, (ast.BinOp, ast.AugAssign)) and any(isinstance(y, ast.Name) and y.id == p for y in
                                                                               ast.walk(x.left if isinstance(x, ast.BinOp) else x.value)):
                            early = x
                        if isinstance(x, ast.BinOp) and any(isinstance(y, ast.Name) and y.id == p for y in ast.walk(x.right)):
                            early = x
                        # only DIRECT operands count (p + q, 2*p), not p[i]*... or len(p)*...
                        if early is not None:
                            ops = [early.left, early.right] if isinstance(early, ast.BinOp) else [early.value]
                            if not any(isinstance(o, ast.Name) and o.id == p for o in ops):
                                early = None
                        if early is not None:
                            break
                    if early is not None:
                        break
                rep.ob("ARR", early is None, "%s: %s is converted to an array before it is used in arithmetic" % (f.name, p), func=f,
                       node=early or f.node.body[at], construct="%s = np.array(%s) before any arithmetic on %s" % (p, p, p),
                       detail="" if early is None else "`%s` uses %s before `%s = np.array(%s)`: with the documented list input `+` "
                       "concatenates and `*` repeats or raises" % (short(early, 60), p, p, p))
    rep.count("ARR:converted parameters", nconv)
    rep.floor("ARR", "converted parameters", nconv, 4)


# ---------------------------------------------------------------------------
# IC.pure: the indicator arrays of the *_pure_IC wrappers
# ---------------------------------------------------------------------------
def pure_ic_rule(repo, rep):
    rep.rule("ICP", "*_pure_IC: Y0[i] = 1 exactly for the nodes of initial_infecteds (nothing else flows into the set that is "
                    "tested, also not through an alias that is later extended in place), X0[i] = 1 exactly for the nodes in neither "
                    "initial_infecteds nor initial_recovereds, both laid out over nodelist")
    names = [n for n in ("SIS_individual_based_pure_IC", "SIR_individual_based_pure_IC", "SIS_pair_based_pure_IC", "SIR_pair_based_pure_IC")]
    for name in names:
        f = repo.f(name)
        rep.analysed(f)
        # alias classes and taint (flow-insensitive, so an in-place extension anywhere taints every alias)
        parent = {}

        def find(x):
            while parent.get(x, x) != x:
                x = parent[x]
            return x
        taint = {}
        nodes = list(own_nodes(f.node))
        for n in nodes:
            if isinstance(n, ast.Assign) and len(n.targets) == 1 and isinstance(n.targets[0], ast.Name) and isinstance(n.value, ast.Name):
                a, b = find(n.targets[0].id), find(n.value.id)
                if a != b:
                    parent[a] = b
        changed = True
        PARAMS = {"initial_infecteds", "initial_recovereds"}
        while changed:
            changed = False
            for n in nodes:
                tgt = src = None
                if isinstance(n, ast.Assign) and len(n.targets) == 1 and isinstance(n.targets[0], ast.Name):
                    tgt, src = n.targets[0].id, n.value
                elif isinstance(n, ast.AugAssign) and isinstance(n.target, ast.Name):
                    tgt, src = n.target.id, n.value
                elif isinstance(n, ast.Call) and isinstance(n.func, ast.Attribute) and isinstance(n.func.value, ast.Name) \
                        and n.func.attr in ("update", "add", "extend", "append", "union_update", "__ior__"):
                    tgt, src = n.func.value.id, ast.Tuple(elts=list(n.args), ctx=ast.Load())
                if tgt is None:
                    continue
                new = set()
                for x in ast.walk(src):
                    if isinstance(x, ast.Name):
                        if x.id in PARAMS:
                            new.add(x.id)
                        new |= taint.get(find(x.id), set())
                cls = find(tgt)
                if tgt in PARAMS:
                    new.add(tgt)
                if not new <= taint.get(cls, set()):
                    taint[cls] = taint.get(cls, set()) | new
                    changed = True

        env = {}
        for n in nodes:
            if isinstance(n, ast.Assign) and len(n.targets) == 1 and isinstance(n.targets[0], ast.Name):
                env.setdefault(n.targets[0].id, []).append(n.value)

        def taint_of(e):
            sset = set()
            for y in ast.walk(e):
                if isinstance(y, ast.Name):
                    sset |= taint.get(find(y.id), set()) | ({y.id} & PARAMS)
            return frozenset(sset)

        def indicator(e, depth=0):
            """[(taint of the tested set, value for members, value for non-members)] for every way e can be computed;
            None when e is not an indicator expression this rule understands."""
            if depth > 6:
                return None
            if isinstance(e, ast.Name):
                vals = env.get(e.id)
                if not vals:
                    return None
                out = []
                for v in vals:
                    r = indicator(v, depth + 1)
                    if r is None:
                        return None
                    out += r
                return out
            if isinstance(e, ast.Call) and (attr_chain(e.func) or "") in ("np.array", "np.asarray", "numpy.array", "list") and e.args:
                return indicator(e.args[0], depth + 1)
            if isinstance(e, ast.BinOp) and isinstance(e.op, ast.Sub) and isinstance(e.left, ast.Constant) and e.left.value == 1:
                r = indicator(e.right, depth + 1)
                return None if r is None else [(t, 1 - a, 1 - b2) for t, a, b2 in r]
            if isinstance(e, (ast.ListComp, ast.GeneratorExp)) and isinstance(e.elt, ast.IfExp) and isinstance(e.elt.test, ast.Compare) \
                    and len(e.elt.test.ops) == 1 and isinstance(e.elt.test.ops[0], (ast.In, ast.NotIn)) \
                    and isinstance(e.elt.body, ast.Constant) and isinstance(e.elt.orelse, ast.Constant):
                a, b2 = e.elt.body.value, e.elt.orelse.value
                if isinstance(e.elt.test.ops[0], ast.NotIn):
                    a, b2 = b2, a
                return [(taint_of(e.elt.test.comparators[0]), a, b2)]
            return None

        def defs_of(target):
            return [n for n in nodes if isinstance(n, ast.Assign) and isinstance(n.targets[0], ast.Name) and n.targets[0].id == target]
        # what is handed on as Y0 / X0 (the wrappers end in a call that passes them by keyword or position)
        ysem = indicator(ast.Name(id="Y0", ctx=ast.Load()))
        oky = bool(ysem) and all(t == frozenset({"initial_infecteds"}) and a == 1 and b2 == 0 for t, a, b2 in ysem)
        yd = defs_of("Y0")
        rep.ob("ICP", oky, "%s: Y0 marks exactly the initially infected nodes" % name, func=f, node=yd[0] if yd else f.node,
               construct="Y0 indicator: %s" % ([(sorted(t), a, b2) for t, a, b2 in ysem] if ysem else "not recognised"),
               detail="" if oky else ("Y0 is not the 0/1 indicator of initial_infecteds: %s" % (
                   [(sorted(t), "in->%s" % a, "out->%s" % b2) for t, a, b2 in ysem] if ysem else
                   "its definition is not an indicator comprehension over a set (directly, through np.array or 1 - ...)")))
        if "initial_recovereds" in f.all_params:
            xsem = indicator(ast.Name(id="X0", ctx=ast.Load()))
            okx = bool(xsem) and all((t == frozenset(PARAMS) and a == 0 and b2 == 1) or
                                     (t == frozenset({"initial_infecteds"}) and a == 0 and b2 == 1 and len(xsem) > 1) for t, a, b2 in xsem) \
                and any(t == frozenset(PARAMS) for t, a, b2 in xsem)
            xd = defs_of("X0")
            rep.ob("ICP", okx, "%s: X0 excludes both the initially infected and the initially recovered nodes" % name, func=f,
                   node=xd[0] if xd else f.node,
                   construct="X0 indicator: %s" % ([(sorted(t), a, b2) for t, a, b2 in xsem] if xsem else "not recognised"),
                   detail="" if okx else "X0 is not the 0/1 indicator of `in neither initial set`: %s" % (
                       [(sorted(t), "in->%s" % a, "out->%s" % b2) for t, a, b2 in xsem] if xsem else "definition not recognised"))
        lay = [n for n in nodes if isinstance(n, ast.Assign) and isinstance(n.targets[0], ast.Name) and n.targets[0].id in ("Y0", "X0")
               and any(isinstance(x, ast.comprehension) for x in ast.walk(n.value))]
        okl = bool(lay) and all(any(isinstance(x, ast.comprehension) and _k(x.iter) == "nodelist" for x in ast.walk(n.value)) for n in lay)
        rep.ob("ICP", okl, "%s: the indicator arrays are laid out over nodelist" % name, func=f, node=lay[0] if lay else f.node,
               construct="indicator comprehension over nodelist", detail="" if okl else "an indicator array is not built by iterating nodelist")


# ---------------------------------------------------------------------------
# ORD: with a nodelist in scope, positional data follows nodelist
# ---------------------------------------------------------------------------
def nodelist_order_rule(repo, rep, modules=("analytic",)):
    rep.rule("ORD", "in a function that receives `nodelist` (the order of the rows of its vectors), no positional sequence is built "
                    "by iterating the graph (G, G.nodes(), G.adjacency(), G.adj.items(), G.degree()): a list / array filled in graph "
                    "insertion order is misaligned with nodelist-ordered vectors whenever the two orders differ")
    GRAPH_ORDER = ("G", "G.nodes()", "G.nodes", "G.adjacency()", "G.adj.items()", "G.adj", "G.degree()", "G.nodes(data=True)")
    nfun = nsite = 0
    for m in modules:
        for f in repo.all_funcs():
            if f.module != m or "nodelist" not in f.all_params:
                continue
            nfun += 1
            # `nodelist = G.nodes()` / list(G) as the DEFAULT is fine: then the two orders are the same by construction
            bad = []
            for n in own_nodes(f.node):
                if isinstance(n, (ast.ListComp, ast.GeneratorExp)):
                    its = [g.iter for g in n.generators[:1]]
                    if its and _k(its[0]) in GRAPH_ORDER:
                        nsite += 1
                        bad.append((n, "a list built by `for ... in %s`" % _k(its[0])))
                elif isinstance(n, ast.For) and _k(n.iter) in GRAPH_ORDER:
                    nsite += 1
                    if any(isinstance(x, ast.Call) and isinstance(x.func, ast.Attribute) and x.func.attr in ("append", "extend", "insert")
                           for x in ast.walk(n)):
                        bad.append((n, "a list appended to inside `for ... in %s`" % _k(n.iter)))
            if bad:
                rep.analysed(f)
                for n, what in bad:
                    rep.ob("ORD", False, "%s: positional data follows nodelist" % f.name, func=f, node=n, construct=what,
                           detail="%s in a function whose vectors are ordered by `nodelist`: rows are attributed to the wrong node when "
                           "nodelist is not the graph's insertion order" % what)
            else:
                rep.ob("ORD", True, "%s: positional data follows nodelist" % f.name, func=f, node=f.node, construct="no graph-ordered sequence")
    rep.count("ORD:functions with a nodelist parameter", nfun)
    rep.count("ORD:graph-ordered iterations examined", nsite)
    rep.floor("ORD", "functions with a nodelist parameter", nfun, 10)
