"""R11 (incremental event-set maintenance by exhaustive abstract case analysis)
and rate/selection consistency for the four Gillespie simulators."""
import ast

from ..core import own_nodes, attr_chain, short, names_in, AnalysisError
from ..flow import walk_function, contexts_by_node, same, atomic_facts, fact_nonzero, fact_compare


def _key(e):
    return short(e, 400).replace(" ", "")


def _pk(text):
    """Canonical key of an expression given as source text."""
    return _key(ast.parse(text, mode="eval").body)


def _prod_key(e):
    """Canonical text of a product (factors sorted) / other expression."""
    def fac(x):
        if isinstance(x, ast.BinOp) and isinstance(x.op, ast.Mult):
            return fac(x.left) + fac(x.right)
        return [_key(x)]
    return "*".join(sorted(fac(e)))


def _sum_terms(e):
    if isinstance(e, ast.BinOp) and isinstance(e.op, ast.Add):
        return _sum_terms(e.left) + _sum_terms(e.right)
    return [e]


def _expand(e, env, depth=0):
    """Substitute names by their (single, straight-line) definitions."""
    if depth > 6:
        return e
    if isinstance(e, ast.Name) and e.id in env:
        return _expand(env[e.id], env, depth + 1)
    if isinstance(e, ast.BinOp):
        return ast.BinOp(left=_expand(e.left, env, depth), op=e.op, right=_expand(e.right, env, depth))
    return e


def _main_loop(f):
    loops = [n for n in f.node.body if isinstance(n, ast.While)]
    if len(loops) != 1:
        raise AnalysisError("%s: expected one main loop, found %d" % (f.qual, len(loops)))
    return loops[0]


def no_bypass(rep, rule, f, loop, what):
    """Every iteration of the event loop runs to the end of the body: a `continue` (or a `break` before the clock) that
    belongs to the event loop itself skips the statements at its tail - the next waiting time and the clock update."""
    own = []

    def walk(stmts):
        for st in stmts:
            if isinstance(st, ast.Continue):
                own.append(st)
            elif isinstance(st, (ast.For, ast.While, ast.FunctionDef, ast.ClassDef)):
                continue          # continue / break inside belong to the inner loop
            else:
                for fld in ("body", "orelse", "finalbody"):
                    b = getattr(st, fld, None)
                    if isinstance(b, list):
                        walk(b)
                for h in getattr(st, "handlers", []) or []:
                    walk(h.body)
    walk(loop.body)
    rep.ob(rule, not own, "%s: every event runs to the end of the loop body (%s)" % (f.name, what), func=f, node=own[0] if own else loop,
           construct="continue statements of the event loop: %d" % len(own),
           detail="" if not own else "a `continue` in the event loop skips the tail of the iteration (%s): the clock does not advance "
           "after such an event" % what)


# ---------------------------------------------------------------------------
# Gillespie_SIR / Gillespie_SIS
# ---------------------------------------------------------------------------
def _abstract_nbr_loop(loop, n_name, nbr_status, self_loop=False):
    """Execute the body of `for nbr in G.neighbors(n)` once, for a neighbour of
    status nbr_status (nbr != n assumed).  Returns the list of set operations
    [(set name, 'update'|'remove', key expr, weight expr or None)]."""
    nbr = loop.target.id
    ops = []

    def ev(test):
        # returns True / False / None
        if isinstance(test, ast.BoolOp):
            vals = [ev(v) for v in test.values]
            if isinstance(test.op, ast.And):
                if any(v is False for v in vals):
                    return False
                if all(v is True for v in vals):
                    return True
                return None
            if any(v is True for v in vals):
                return True
            if all(v is False for v in vals):
                return False
            return None
        if isinstance(test, ast.UnaryOp) and isinstance(test.op, ast.Not):
            v = ev(test.operand)
            return None if v is None else (not v)
        if isinstance(test, ast.Compare) and len(test.ops) == 1:
            l, r = _key(test.left), _key(test.comparators[0])
            op = test.ops[0]
            if l == "status[%s]" % nbr and isinstance(test.comparators[0], ast.Constant):
                eq = (test.comparators[0].value == nbr_status)
                if isinstance(op, ast.Eq):
                    return eq
                if isinstance(op, ast.NotEq):
                    return not eq
            if {l, r} == {nbr, n_name}:
                if isinstance(op, ast.Eq):
                    return self_loop
                if isinstance(op, ast.NotEq):
                    return not self_loop
        return None

    def run(body):
        for st in body:
            if isinstance(st, ast.If):
                v = ev(st.test)
                if v is None:
                    raise AnalysisError("R11: undecidable test `%s` in neighbour loop" % short(st.test))
                if run(st.body if v else st.orelse) == "continue":
                    return "continue"
            elif isinstance(st, ast.Continue):
                return "continue"
            elif isinstance(st, ast.Expr) and isinstance(st.value, ast.Call) and isinstance(st.value.func, ast.Attribute) \
                    and st.value.func.attr in ("update", "remove", "insert") and isinstance(st.value.func.value, ast.Name):
                c = st.value
                w = None
                for k in c.keywords:
                    if k.arg in ("weight_increment", "weight"):
                        w = k.value
                if w is None and len(c.args) > 1:
                    w = c.args[1]
                ops.append((c.func.value.id, c.func.attr, c.args[0], w, st))
            elif isinstance(st, ast.Pass):
                pass
            else:
                raise AnalysisError("R11: unexpected statement in neighbour loop: %s" % short(st))
        return None
    run(loop.body)
    return ops


def _is_link(sa, sb):
    return sa == "I" and sb == "S"


def r11_sir_sis(repo, rep, name):
    f = repo.f(name)
    rep.analysed(f)
    sir = name.endswith("SIR")
    statuses = ("S", "I", "R") if sir else ("S", "I")
    loop = _main_loop(f)
    # the if/else of the event
    evif = [s for s in loop.body if isinstance(s, ast.If)]
    if not evif:
        raise AnalysisError("R11: %s: no event branch in main loop" % name)
    evif = evif[0]
    nob = 0
    arms = []
    for arm_name, body in (("true", evif.body), ("false", evif.orelse)):
        sw = [s for s in body if isinstance(s, ast.Assign) and isinstance(s.targets[0], ast.Subscript)
              and _key(s.targets[0].value) == "status" and isinstance(s.value, ast.Constant)]
        if len(sw) != 1:
            rep.ob("R11", False, "%s %s arm: exactly one status write" % (name, arm_name), func=f, node=evif,
                   construct="%d status writes" % len(sw), detail="cannot identify the event of this arm")
            continue
        n = sw[0].targets[0].slice
        new = sw[0].value.value
        old = "S" if new == "I" else "I"
        nloops = [s for s in body if isinstance(s, ast.For) and _key(s.iter) == "G.neighbors(%s)" % _key(n)]
        if len(nloops) != 1 or not isinstance(nloops[0].target, ast.Name):
            rep.ob("R11", False, "%s: %s->%s arm re-rates the neighbours of the changed node" % (name, old, new), func=f, node=sw[0],
                   construct="%d loops over G.neighbors(%s)" % (len(nloops), _key(n)),
                   detail="expected one `for nbr in G.neighbors(%s)` in the arm" % _key(n))
            continue
        # the status write must precede the loop? (the loop reads status[nbr] only, nbr != n: order irrelevant)
        nl = nloops[0]
        nbr = nl.target.id
        arms.append((old, new, n, body, sw[0]))
        for s in statuses:
            ops = _abstract_nbr_loop(nl, _key(n), s)
            for (a, b, tag) in ((_key(n), nbr, "(n,nbr)"), (nbr, _key(n), "(nbr,n)")):
                sa_before, sb_before = (old, s) if a == _key(n) else (s, old)
                sa_after, sb_after = (new, s) if a == _key(n) else (s, new)
                before, after = _is_link(sa_before, sb_before), _is_link(sa_after, sb_after)
                want = "update" if (after and not before) else ("remove" if (before and not after) else None)
                got = [o for o in ops if _key(o[2]) == "(%s,%s)" % (a, b)]
                inst = "%s: event %s %s->%s, neighbour %s, link %s" % (name, _key(n), old, new, s, tag)
                nob += 1
                if want is None:
                    rep.ob("R11", not got, inst + ": untouched", func=f, node=got[0][4] if got else nl,
                           construct="%s %s->%s nbr=%s %s: ops %s" % (name, old, new, s, tag, [(o[0], o[1]) for o in got]),
                           detail="" if not got else "link set is changed although I-S status of the pair does not change")
                    continue
                ok = len(got) == 1 and got[0][1] == want and got[0][0] == "IS_links"
                det = ""
                if not ok:
                    det = "ground truth requires IS_links.%s((%s, %s)); code performs %s" % (
                        want, a, b, [(o[0], o[1], _key(o[2])) for o in ops] or "nothing")
                elif want == "update":
                    w = got[0][3]
                    okw = w is not None and _key(w) in ("edgeweight(%s,%s)" % (a, b), "edgeweight(%s,%s)" % (b, a))
                    if not okw:
                        ok = False
                        det = "link (%s, %s) inserted with weight %s, not edgeweight of the same pair" % (a, b, short(w) if w is not None else None)
                rep.ob("R11", ok, inst + ": " + want, func=f, node=got[0][4] if got else nl,
                       construct="%s %s->%s nbr=%s %s: %s" % (name, old, new, s, tag, [(o[1], _key(o[2]), _key(o[3]) if o[3] is not None else None) for o in got]),
                       detail=det)
        # a self-loop (nbr is the changed node itself): the loop sees the node's status as it is AT THAT POINT of the arm - the
        # new one if the status write comes first, the old one otherwise - and must not touch the link set
        at_loop = new if body.index(sw[0]) < body.index(nl) else old
        try:
            ops_self = _abstract_nbr_loop(nl, _key(n), at_loop, self_loop=True)
        except AnalysisError:
            ops_self = None
        oks = ops_self is not None and not [o for o in ops_self if o[0] == "IS_links"]
        nob += 1
        rep.ob("R11", oks, "%s: event %s %s->%s, the node is its own neighbour (self-loop): no link is created or removed" % (name, _key(n), old, new),
               func=f, node=nl, construct="%s %s->%s self-loop, status seen in the loop: %s, ops %s" % (
                   name, old, new, at_loop, None if ops_self is None else [(o[1], _key(o[2])) for o in ops_self]),
               detail="" if oks else "with a self-loop the neighbour loop reads status[%s] = '%s' (%s) and changes IS_links for the pair "
               "(%s, %s): a node can then transmit to itself" % (_key(n), at_loop, "the status write comes after the loop" if at_loop == old
                                                                   else "after the status write", _key(n), _key(n)))
        # infecteds maintenance
        calls = [c for st in body for c in ast.walk(st) if isinstance(c, ast.Call) and isinstance(c.func, ast.Attribute)
                 and _key(c.func.value) == "infecteds"]
        if new == "I":
            up = [c for c in calls if c.func.attr == "update"]
            ok = len(up) == 1 and _key(up[0].args[0]) == _key(n)
            w = None
            if ok:
                for k in up[0].keywords:
                    if k.arg == "weight_increment":
                        w = k.value
                ok = w is not None and _key(w) == "nodeweight(%s)" % _key(n)
            rep.ob("R11", ok, "%s: infected node enters `infecteds` with its own node weight" % name, func=f,
                   node=up[0] if up else sw[0], construct="infecteds.update(%s, %s)" % (
                       _key(up[0].args[0]) if up else None, _key(w) if w is not None else None),
                   detail="" if ok else "the recovery candidate set must gain %s with weight nodeweight(%s)" % (_key(n), _key(n)))
            # the changed node and its infector come from the link set
            src = [s for s in body if isinstance(s, ast.Assign) and isinstance(s.value, ast.Call)
                   and _key(s.value.func) == "IS_links.choose_random"]
            ok = len(src) == 1 and isinstance(src[0].targets[0], ast.Tuple) and len(src[0].targets[0].elts) == 2 \
                and _key(src[0].targets[0].elts[1]) == _key(n)
            rep.ob("R11", ok, "%s: (transmitter, recipient) is a sampled I-S link and the recipient is the node infected" % name,
                   func=f, node=src[0] if src else sw[0], construct=short(src[0]) if src else None,
                   detail="" if ok else "the node whose status becomes 'I' is not the second component of IS_links.choose_random()")
        else:
            rm = [s for s in body if isinstance(s, ast.Assign) and isinstance(s.value, ast.Call)
                  and _key(s.value.func) == "infecteds.random_removal"]
            ok = len(rm) == 1 and _key(rm[0].targets[0]) == _key(n)
            rep.ob("R11", ok, "%s: the recovering node is sampled from and removed from `infecteds`" % name, func=f,
                   node=rm[0] if rm else sw[0], construct=short(rm[0]) if rm else None,
                   detail="" if ok else "node whose status becomes %r is not infecteds.random_removal()" % new)
    # initial fill
    fills = [s for s in f.node.body if isinstance(s, ast.For) and _key(s.iter) == "initial_infecteds"
             and any(isinstance(c, ast.Call) and _key(c.func) == "IS_links.update" for c in ast.walk(s))]
    ok = len(fills) == 1
    rep.ob("R11", ok, "%s: initial candidate sets built in one loop over initial_infecteds" % name, func=f,
           node=fills[0] if fills else f.node, construct="%d fill loops" % len(fills), detail="" if ok else "initial fill changed shape")
    if ok:
        fl = fills[0]
        node = fl.target.id
        nl = [s for s in fl.body if isinstance(s, ast.For) and _key(s.iter) == "G.neighbors(%s)" % node]
        up = [s.value for s in fl.body if isinstance(s, ast.Expr) and isinstance(s.value, ast.Call)
              and _key(s.value.func) == "infecteds.update"]
        okw = len(up) == 1 and _key(up[0].args[0]) == node and any(
            k.arg == "weight_increment" and _key(k.value) == "nodeweight(%s)" % node for k in up[0].keywords)
        rep.ob("R11", okw, "%s: initially infected node enters `infecteds` with its own node weight" % name, func=f,
               node=up[0] if up else fl, construct=short(up[0]) if up else None, detail="" if okw else "initial infecteds fill changed")
        if len(nl) == 1 and isinstance(nl[0].target, ast.Name):
            nbr = nl[0].target.id
            for s in statuses:
                ops = _abstract_nbr_loop(nl[0], node, s)
                want = "update" if s == "S" else None
                got = [o for o in ops if _key(o[2]) == "(%s,%s)" % (node, nbr)]
                other = [o for o in ops if o not in got]
                nob += 1
                if want:
                    okk = len(got) == 1 and got[0][1] == "update" and got[0][0] == "IS_links" and not other and \
                        got[0][3] is not None and _key(got[0][3]) in ("edgeweight(%s,%s)" % (node, nbr), "edgeweight(%s,%s)" % (nbr, node))
                else:
                    okk = not ops
                rep.ob("R11", okk, "%s: initial fill, neighbour %s" % (name, s), func=f, node=nl[0],
                       construct="%s initial nbr=%s: %s" % (name, s, [(o[1], _key(o[2])) for o in ops]),
                       detail="" if okk else "initial I-S links must be exactly (node, nbr) for susceptible nbr with edgeweight(node, nbr)")
        else:
            rep.ob("R11", False, "%s: initial fill loops over the neighbours of each initially infected node" % name, func=f, node=fl,
                   construct="initial neighbour loop", detail="no `for nbr in G.neighbors(node)` in the initial fill")
    rep.floor("R11", "%s obligations (event x neighbour status x orientation)" % name, nob, 12 if sir else 8)
    # weighted <=> weight label given
    for setname, label in (("infecteds", "recovery_weight"), ("IS_links", "transmission_weight")):
        okall = True
        n_ = 0
        for c in walk_function(f.node):
            st = c.stmt
            if isinstance(st, ast.Assign) and _key(st.targets[0]) == setname and isinstance(st.value, ast.Call) \
                    and _key(st.value.func) == "_ListDict_":
                # the flag written as the test itself: _ListDict_(weighted = <label> is not None), once, under no condition on the label
                flag = [k.value for k in st.value.keywords if k.arg == "weighted"] or list(st.value.args[:1])
                if flag and _key(flag[0]) in ("%sisnotNone" % label, "not%sisNone" % label, "not(%sisNone)" % label):
                    n_ += 2
                    continue
                n_ += 1
                weighted = any(k.arg == "weighted" and isinstance(k.value, ast.Constant) and k.value.value is True
                               for k in st.value.keywords) or (st.value.args and getattr(st.value.args[0], "value", None) is True)
                given = any((pol and _key(fx) == "%sisnotNone" % label) or ((not pol) and _key(fx) == "%sisNone" % label)
                            for fx, pol in c.facts)
                absent = any((pol and _key(fx) == "%sisNone" % label) or ((not pol) and _key(fx) == "%sisnotNone" % label)
                             for fx, pol in c.facts)
                if not ((weighted and given) or ((not weighted) and absent)):
                    okall = False
        rep.ob("R11", okall and n_ == 2, "%s: %s is weighted exactly when %s is given" % (name, setname, label), func=f, node=f.node,
               construct="%s weighted <=> %s" % (setname, label),
               detail="" if (okall and n_ == 2) else "the candidate set's weighted flag does not follow %s" % label)
    # weight accessors
    for fn, expr, label in (("edgeweight", "G.adj[u][v][transmission_weight]", "transmission_weight"),
                            ("nodeweight", "G.nodes[u][recovery_weight]", "recovery_weight")):
        okd = False
        for c in walk_function(f.node):
            st = c.stmt
            if isinstance(st, ast.FunctionDef) and st.name == fn:
                given = any((pol and _key(fx) == "%sisnotNone" % label) or ((not pol) and _key(fx) == "%sisNone" % label)
                            for fx, pol in c.facts)
                if given:
                    ps = [a.arg for a in st.args.args]
                    ret = [x for x in ast.walk(st) if isinstance(x, ast.Return)]
                    want = expr.replace("[u]", "[%s]" % ps[0]).replace("[v]", "[%s]" % (ps[1] if len(ps) > 1 else "v"))
                    alt = want
                    if fn == "edgeweight" and len(ps) > 1:
                        alt = "G.adj[%s][%s][transmission_weight]" % (ps[1], ps[0])
                    okd = len(ret) == 1 and _key(ret[0].value) in (_key(ast.parse(want, mode="eval").body),
                                                                  _key(ast.parse(alt, mode="eval").body),
                                                                  _key(ast.parse(want.replace("G.adj", "G.edges").replace("][", ",", 1), mode="eval").body))
        rep.ob("R11", okd, "%s: %s reads the %s attribute of its own argument(s)" % (name, fn, label), func=f, node=f.node,
               construct="%s accessor" % fn, detail="" if okd else "weight accessor %s changed" % fn)


def rate_consistency_sir_sis(repo, rep, name):
    f = repo.f(name)
    rep.analysed(f)
    loop = _main_loop(f)
    no_bypass(rep, "RATE", f, loop, "rate recomputation and the next waiting time")
    evif = [s for s in loop.body if isinstance(s, ast.If)][0]
    # which arm samples which set
    def arm_sets(body):
        out = set()
        for st in body:
            for c in ast.walk(st):
                if isinstance(c, ast.Call) and isinstance(c.func, ast.Attribute) and c.func.attr in ("random_removal", "choose_random"):
                    out.add(_key(c.func.value))
        return out
    t_sets, f_sets = arm_sets(evif.body), arm_sets(evif.orelse)
    # branch test: random.random() < A / B
    t = evif.test
    okshape = isinstance(t, ast.Compare) and isinstance(t.ops[0], ast.Lt) and isinstance(t.left, ast.Call) \
        and _key(t.left.func) == "random.random" and isinstance(t.comparators[0], ast.BinOp) \
        and isinstance(t.comparators[0].op, ast.Div)
    rep.ob("RATE", okshape, "%s: event type chosen by random.random() < part/total" % name, func=f, node=evif,
           construct="branch test %s" % short(t), detail="" if okshape else "event-type test changed shape")
    if not okshape:
        return

    def env_before(stmts_before):
        env = {}
        for st in stmts_before:
            if isinstance(st, ast.Assign) and isinstance(st.targets[0], ast.Name) \
                    and st.targets[0].id not in names_in(st.value):
                env[st.targets[0].id] = st.value
        return env

    def check_clock(where, env, clock_call, test=None):
        total = _expand(clock_call.args[0], env)
        terms = sorted(_prod_key(x) for x in _sum_terms(total))
        want = sorted(["gamma*%s.total_weight()" % list(t_sets)[0] if len(t_sets) == 1 else "?",
                       "tau*%s.total_weight()" % list(f_sets)[0] if len(f_sets) == 1 else "?"])
        want = sorted("*".join(sorted(w.split("*"))) for w in want)
        ok = terms == want
        rep.ob("RATE", ok, "%s (%s): clock rate = gamma*W(recovery candidates) + tau*W(I-S links)" % (name, where),
               func=f, node=clock_call, construct="%s clock rate %s" % (where, terms),
               detail="" if ok else "waiting time is drawn with rate %s, expected %s" % (terms, want))
    # (1) before the loop
    pre = []
    for st in f.node.body:
        if st is loop:
            break
        pre.append(st)
    env0 = env_before(pre)
    clocks0 = [c for st in pre for c in ast.walk(st) if isinstance(c, ast.Call) and _key(c.func) == "random.expovariate"]
    clocks1 = [c for st in loop.body for c in ast.walk(st) if isinstance(c, ast.Call) and _key(c.func) == "random.expovariate"]
    rep.ob("RATE", len(clocks0) == 1 and len(clocks1) == 1, "%s: one clock draw before the loop and one at the end of each iteration" % name,
           func=f, node=loop, construct="clock draws %d + %d" % (len(clocks0), len(clocks1)),
           detail="" if (len(clocks0) == 1 and len(clocks1) == 1) else "number of waiting-time draws changed")
    if clocks0:
        check_clock("initial", env0, clocks0[0])
    # (2) inside the loop: definitions after the event branch
    idx = loop.body.index(evif)
    after = loop.body[idx + 1:]
    env1 = env_before(after)
    if clocks1:
        # the recomputation must follow the event and precede the draw
        okpos = all(any(c is x for x in ast.walk(ast.Module(body=after, type_ignores=[]))) for c in clocks1)
        rep.ob("RATE", okpos, "%s: rates are recomputed after the event and before the next waiting time" % name, func=f,
               node=clocks1[0], construct="clock after event branch: %s" % okpos,
               detail="" if okpos else "the waiting time is drawn before the event's bookkeeping is done")
        for nm in ("total_rate",):
            pass
        check_clock("loop", env1, clocks1[0])
    # (3) branch test uses the same quantities: numerator = recovery part, denominator = clock rate.
    # The test is evaluated at the top of the loop body with the values assigned before the loop / at the end of
    # the previous iteration: both environments must give the same expansion.
    for where, env in (("first iteration", env0), ("later iterations", env1)):
        num = _expand(t.comparators[0].left, env)
        den = _expand(t.comparators[0].right, env)
        nk = sorted(_prod_key(x) for x in _sum_terms(num))
        dk = sorted(_prod_key(x) for x in _sum_terms(den))
        wn = ["*".join(sorted(("gamma*%s.total_weight()" % (list(t_sets)[0] if len(t_sets) == 1 else "?")).split("*")))]
        wd = sorted(wn + ["*".join(sorted(("tau*%s.total_weight()" % (list(f_sets)[0] if len(f_sets) == 1 else "?")).split("*")))])
        ok = nk == wn and dk == wd
        rep.ob("RATE", ok, "%s (%s): P(recovery) = gamma*W(recovery candidates) / total rate; the true arm samples that set" % (name, where),
               func=f, node=evif, construct="%s: P(true arm) = %s / %s ; true arm samples %s, false arm %s" % (
                   where, nk, dk, sorted(t_sets), sorted(f_sets)),
               detail="" if ok else "branch probability %s/%s does not match the sets sampled in the arms" % (nk, dk))
    # no assignment to the rate variables between the recomputation and the test except those found
    # (the rate names are only assigned at top level of pre / after)
    for nm in ("total_rate", "total_recovery_rate", "total_transmission_rate"):
        others = [n for n in ast.walk(evif) if isinstance(n, (ast.Assign, ast.AugAssign))
                  and any(isinstance(t_, ast.Name) and t_.id == nm for t_ in (n.targets if isinstance(n, ast.Assign) else [n.target]))]
        rep.ob("RATE", not others, "%s: %s is not modified inside the event branch" % (name, nm), func=f,
               node=others[0] if others else evif, construct="%s stores in event branch: %d" % (nm, len(others)),
               detail="" if not others else "rate variable modified between its computation and its use")
    # tau and gamma are the caller's, at most converted to float
    for p in ("tau", "gamma"):
        defs = [n for n in own_nodes(f.node) if isinstance(n, ast.Assign) and _key(n.targets[0]) == p]
        ok = all(_key(d.value) in ("float(%s)" % p, "1.0*%s" % p, "%s*1.0" % p) for d in defs)
        rep.ob("RATE", ok, "%s: %s is only ever the caller's value" % (name, p), func=f, node=defs[0] if defs else f.node,
               construct="%s defs %s" % (p, [_key(d.value) for d in defs]), detail="" if ok else "%s is rebound to something else" % p)


# ---------------------------------------------------------------------------
# _get_rate_functions_
# ---------------------------------------------------------------------------
def rate_functions_rule(repo, rep):
    f = repo.f("_get_rate_functions_")
    rep.analysed(f)
    found = {"trans_none": False, "trans_w": False, "rec_none": False, "rec_w": False}
    for c in walk_function(f.node):
        st = c.stmt
        if isinstance(st, ast.Assign) and isinstance(st.value, ast.Lambda) and isinstance(st.targets[0], ast.Name):
            lam = st.value
            ps = [a.arg for a in lam.args.args]
            facts = [("%s" if pol else "not(%s)") % _key(fx) for fx, pol in c.facts]
            if st.targets[0].id == "trans_rate_fxn":
                if "transmission_weightisNone" in facts and _key(lam.body) == "tau":
                    found["trans_none"] = True
                if "not(transmission_weightisNone)" in facts and len(ps) == 2 and \
                        _prod_key(lam.body) in ("*".join(sorted(["tau", "G.adj[%s][%s][transmission_weight]" % (ps[0], ps[1])])),
                                                "*".join(sorted(["tau", "G.adj[%s][%s][transmission_weight]" % (ps[1], ps[0])])),
                                                "*".join(sorted(["tau", "G.edge[%s][%s][transmission_weight]" % (ps[0], ps[1])]))):
                    found["trans_w"] = True
            if st.targets[0].id == "rec_rate_fxn":
                if "recovery_weightisNone" in facts and _key(lam.body) == "gamma":
                    found["rec_none"] = True
                if "not(recovery_weightisNone)" in facts and len(ps) == 1 and \
                        _prod_key(lam.body) == "*".join(sorted(["gamma", "G.nodes[%s][recovery_weight]" % ps[0]])):
                    found["rec_w"] = True
    for k, v in found.items():
        rep.ob("RATE", v, "_get_rate_functions_: %s" % {
            "trans_none": "unweighted transmission rate is tau",
            "trans_w": "weighted transmission rate is tau * edge attribute of (x, y)",
            "rec_none": "unweighted recovery rate is gamma",
            "rec_w": "weighted recovery rate is gamma * node attribute of x"}[k], func=f, node=f.node, construct=k,
            detail="" if v else "rate function changed")
    ret = [n for n in own_nodes(f.node) if isinstance(n, ast.Return)]
    ok = len(ret) == 1 and _key(ret[0].value) == "(trans_rate_fxn,rec_rate_fxn)"
    rep.ob("RATE", ok, "_get_rate_functions_: returns (transmission, recovery) in that order", func=f,
           node=ret[0] if ret else f.node, construct=short(ret[0]) if ret else None, detail="" if ok else "return order changed")
    # every caller unpacks in that order
    n = 0
    for g in repo.all_funcs():
        for x in own_nodes(g.node):
            if isinstance(x, ast.Assign) and isinstance(x.value, ast.Call) and _key(x.value.func).endswith("_get_rate_functions_"):
                n += 1
                ok = isinstance(x.targets[0], ast.Tuple) and [_key(e) for e in x.targets[0].elts] == ["trans_rate_fxn", "rec_rate_fxn"]
                rep.ob("RATE", ok, "%s: unpacks the rate functions as (trans_rate_fxn, rec_rate_fxn)" % g.name, func=g, node=x,
                       construct=short(x.targets[0]), detail="" if ok else "rate functions unpacked in another order")
                a = x.value.args
                kw = {k.arg: k.value for k in x.value.keywords}
                names = ["G", "tau", "gamma", "transmission_weight", "recovery_weight"]
                got = [_key(v) for v in a] + [None] * (5 - len(a))
                for i, nm in enumerate(names):
                    v = got[i] if got[i] is not None else (_key(kw[nm]) if nm in kw else None)
                    okp = v == nm
                    rep.ob("RATE", okp, "%s: _get_rate_functions_ receives %s" % (g.name, nm), func=g, node=x,
                           construct="_get_rate_functions_ %s <- %s" % (nm, v), detail="" if okp else "argument %s is %s" % (nm, v))
    rep.floor("RATE", "callers of _get_rate_functions_", n, 6)


# ---------------------------------------------------------------------------
# Gillespie_simple_contagion
# ---------------------------------------------------------------------------
def _defs_of(fnode, recv):
    """values assigned to the name a receiver is rooted at (so that `candidates.remove(x)` is recognised through
    `candidates = potential_transitions[transition]`)"""
    root = recv
    while isinstance(root, (ast.Subscript, ast.Attribute)):
        root = root.value
    if not isinstance(root, ast.Name):
        return []
    return [n.value for n in ast.walk(fnode) if isinstance(n, ast.Assign) and len(n.targets) == 1
            and isinstance(n.targets[0], ast.Name) and n.targets[0].id == root.id]


def simple_contagion_rule(repo, rep):
    f = repo.f("Gillespie_simple_contagion")
    rep.analysed(f)
    loop = _main_loop(f)
    ctxs = contexts_by_node(f.node)
    no_bypass(rep, "RATE", f, loop, "candidate bookkeeping, total rate and the next waiting time")
    # ---- event application
    sw = [s for s in loop.body if isinstance(s, ast.Assign) and isinstance(s.targets[0], ast.Subscript)
          and _key(s.targets[0].value) == "status"]
    if len(sw) != 1:
        raise AnalysisError("simple contagion: %d status writes at loop top level" % len(sw))
    m = _key(sw[0].targets[0].slice)
    newv = _key(sw[0].value)
    # definitions of modified node / old / new in the spontaneous and induced arms
    defs = {}
    for c in walk_function(f.node):
        st = c.stmt
        if loop in c.loops and isinstance(st, ast.Assign) and isinstance(st.targets[0], ast.Name) \
                and st.targets[0].id in (m, "old_status", newv):
            spont = any(pol and _key(fx) == "spontaneous" for fx, pol in c.facts)
            ind = any((not pol) and _key(fx) == "spontaneous" for fx, pol in c.facts)
            defs.setdefault(st.targets[0].id, {})["spont" if spont else ("ind" if ind else "?")] = st
    exp = {m: {"spont": "actor", "ind": None}, "old_status": {"spont": "transition[0]", "ind": "transition[0][1]"},
           newv: {"spont": "transition[1]", "ind": "transition[1][1]"}}
    for nm, arms in exp.items():
        for arm, want in arms.items():
            st = defs.get(nm, {}).get(arm)
            if want is None:
                # induced: modified node is the second component of the actor pair
                unp = [s for s in ast.walk(loop) if isinstance(s, ast.Assign) and isinstance(s.targets[0], ast.Tuple)
                       and _key(s.value) == "actor" and len(s.targets[0].elts) == 2]
                ok = st is not None and len(unp) == 1 and _key(st.value) == _key(unp[0].targets[0].elts[1])
                rep.ob("R11s", ok, "simple contagion: an induced event changes the second node of the sampled pair", func=f,
                       node=st if st is not None else loop, construct="%s = %s (induced)" % (nm, _key(st.value) if st is not None else None),
                       detail="" if ok else "modified node is not the target of the (source, target) actor")
                src = _key(unp[0].targets[0].elts[0]) if unp else None
                continue
            ok = st is not None and _key(st.value) == want
            rep.ob("R11s", ok, "simple contagion: %s = %s in the %s arm" % (nm, want, "spontaneous" if arm == "spont" else "induced"),
                   func=f, node=st if st is not None else loop, construct="%s = %s (%s)" % (nm, _key(st.value) if st is not None else None, arm),
                   detail="" if ok else "event application reads the wrong component of the spec edge")
    # spontaneous flag follows membership of the chosen transition
    # transmissions record: (t, source, modified node) in the induced arm under return_full_data
    recs = [c for c in ast.walk(loop) if isinstance(c, ast.Call) and _key(c.func) == "transmissions.append"]
    ok = len(recs) == 1 and isinstance(recs[0].args[0], ast.Tuple) and [_key(e) for e in recs[0].args[0].elts] in (
        ["t", "source", m], ["t", "source", "target"])
    if ok:
        c = ctxs[id(recs[0])]
        ok = any((not pol) and _key(fx) == "spontaneous" for fx, pol in c.facts)
    rep.ob("R11s.C09", ok, "simple contagion: one (t, source, modified node) record per induced event, none for spontaneous ones",
           func=f, node=recs[0] if recs else loop, construct=short(recs[0]) if recs else None,
           detail="" if ok else "transmission record changed")
    # ---- update section: every remove/update on potential_transitions[transition]
    i_w = loop.body.index(sw[0])
    status_of = {m: {"remove": "old_status", "update": ("status[%s]" % m, newv)}}
    nops = 0
    cover = {}
    for c in walk_function(f.node):
        st = c.stmt
        if loop not in c.loops or not (isinstance(st, ast.Expr) and isinstance(st.value, ast.Call)):
            continue
        call = st.value
        if not (isinstance(call.func, ast.Attribute) and call.func.attr in ("remove", "update", "insert")
                and _key(call.func.value) == "potential_transitions[transition]"):
            continue
        op = call.func.attr
        K = call.args[0]
        nops += 1
        # must come after the status write
        topst = [s for s in loop.body if any(x is st for x in ast.walk(s))][0]
        okpos = loop.body.index(topst) > i_w
        # local status names: nbr_status = status[nbr] defined in the enclosing loop body
        loc = {}
        for lp in c.loops:
            if isinstance(lp, ast.For):
                for s2 in lp.body:
                    if isinstance(s2, ast.Assign) and isinstance(s2.targets[0], ast.Name) and isinstance(s2.value, ast.Subscript) \
                            and _key(s2.value.value) == "status":
                        loc[_key(s2.value.slice)] = s2.targets[0].id

        def st_expr(node_txt):
            if node_txt == m:
                return ("old_status",) if op == "remove" else ("status[%s]" % m, newv)
            alts = ["status[%s]" % node_txt]
            if node_txt in loc:
                alts.append(loc[node_txt])
            return tuple(alts)
        if isinstance(K, ast.Tuple) and len(K.elts) == 2:
            a, b = _key(K.elts[0]), _key(K.elts[1])
            wants = ["(%s,%s)" % (x, y) for x in st_expr(a) for y in st_expr(b)]
            shape = "(m,x)" if a == m else ("(x,m)" if b == m else "(?)")
        else:
            a = _key(K)
            wants = list(st_expr(a))
            shape = "m"
        # guard: transition[0] == E
        guard = None
        for fx, pol in c.facts:
            if pol and isinstance(fx, ast.Compare) and isinstance(fx.ops[0], ast.Eq):
                l, r = _key(fx.left), _key(fx.comparators[0])
                if l == "transition[0]":
                    guard = r
                elif r == "transition[0]":
                    guard = l
        okg = guard in wants
        directed = any(pol and _key(fx) == "G.is_directed()" for fx, pol in c.facts)
        undirected = any((not pol) and _key(fx) == "G.is_directed()" for fx, pol in c.facts)
        sect = "spontaneous" if shape == "m" else ("directed" if directed else ("undirected" if undirected else "?"))
        # loop domain
        dom = None
        for lp in c.loops[::-1]:
            if isinstance(lp, ast.For) and lp is not loop and _key(lp.iter).startswith("G."):
                dom = _key(lp.iter)
                break
        cover.setdefault(sect, set()).add((shape, op, dom))
        det = ""
        if not okg:
            det = "%s of %s is guarded by transition[0] == %s; ground truth needs one of %s" % (op, _key(K), guard, wants)
        if op == "update":
            w = None
            for k in call.keywords:
                if k.arg == "weight_increment":
                    w = k.value
            okw = w is not None and _key(w) == _pk("get_weight[transition][%s]" % _key(K))
            if not okw:
                okg = False
                det = "weight of %s is %s, not get_weight[transition][%s]" % (_key(K), _key(w) if w is not None else None, _key(K))
        if op == "insert":
            okg = False
            det = "insert() replaces the weight; the bookkeeping relies on increment semantics"
        # the operation may depend on nothing but its own guard (an `elif` silently adds the negation of its siblings)
        enc = [(_key(fx), pol) for fx, pol in c.enclosing_conditions()]
        extra = [("%s" if pol else "not(%s)") % t for t, pol in enc
                 if not (pol and ("transition[0]==" in t or "==transition[0]" in t)) and t not in ("G.is_directed()", "total_rate>0", "t<tmax")]
        if extra and okg:
            okg = False
            det = "%s of %s is additionally conditional on %s: when two spec-edge tests hold at once only one is carried out" % (op, _key(K), extra)
        rep.ob("R11s", okg and okpos, "simple contagion %s: %s %s only for the spec edge whose source status is that of the actor"
               % (sect, op, shape), func=f, node=st,
               construct="%s %s %s under transition[0]==%s over %s" % (sect, op, _key(K), guard, dom),
               detail=det or ("" if okpos else "set operation precedes the status write it depends on"))
        # the iterated transition list matches the key shape
        tl = None
        for lp in c.loops[::-1]:
            if isinstance(lp, ast.For) and _key(lp.target) == "transition":
                tl = _key(lp.iter)
                break
        oktl = (shape == "m" and tl == "spontaneous_transitions") or (shape != "m" and tl == "induced_transitions")
        rep.ob("R11s", oktl, "simple contagion: %s keys are maintained for the %s transitions" % (
            "node" if shape == "m" else "pair", "spontaneous" if shape == "m" else "induced"), func=f, node=st,
            construct="%s key under loop over %s" % (shape, tl), detail="" if oktl else "key shape and transition list disagree")
    rep.floor("R11s", "set operations in the update section", nops, 10)
    want_cover = {
        "spontaneous": {("m", "remove", None), ("m", "update", None)},
        "undirected": {("(m,x)", "remove", "G.neighbors(%s)" % m), ("(m,x)", "update", "G.neighbors(%s)" % m),
                       ("(x,m)", "remove", "G.neighbors(%s)" % m), ("(x,m)", "update", "G.neighbors(%s)" % m)},
        "directed": {("(m,x)", "remove", "G.neighbors(%s)" % m), ("(m,x)", "update", "G.neighbors(%s)" % m),
                     ("(x,m)", "remove", "G.predecessors(%s)" % m), ("(x,m)", "update", "G.predecessors(%s)" % m)},
    }
    alt_dir = {("(m,x)", "remove", "G.successors(%s)" % m), ("(m,x)", "update", "G.successors(%s)" % m),
               ("(x,m)", "remove", "G.predecessors(%s)" % m), ("(x,m)", "update", "G.predecessors(%s)" % m)}
    for sect, want in want_cover.items():
        got = cover.get(sect, set())
        if sect == "spontaneous":
            got = {(a, b, None) for a, b, _ in got}
        ok = got == want or (sect == "directed" and got == alt_dir)
        rep.ob("R11s", ok, "simple contagion %s: every affected key shape is both removed and re-inserted" % sect, func=f, node=loop,
               construct="%s coverage %s" % (sect, sorted(got, key=str)),
               detail="" if ok else "coverage is %s, ground truth needs %s" % (sorted(got, key=str), sorted(want, key=str)))
    # ---- initial fill
    fill = [s for s in f.node.body if isinstance(s, ast.For) and _key(s.iter) in ("G.nodes()", "G")
            and any(isinstance(c, ast.Call) and _key(c.func) == "potential_transitions[transition].update" for c in ast.walk(s))]
    ok = len(fill) == 1
    rep.ob("R11s", ok, "simple contagion: one initial fill loop over all nodes", func=f, node=fill[0] if fill else f.node,
           construct="%d fill loops" % len(fill), detail="" if ok else "initial fill changed shape")
    if ok:
        node = _key(fill[0].target)
        nfill = 0
        for c in walk_function(f.node):
            st = c.stmt
            if fill[0] in c.loops and isinstance(st, ast.Expr) and isinstance(st.value, ast.Call) \
                    and _key(st.value.func) == "potential_transitions[transition].update":
                nfill += 1
                K = st.value.args[0]
                w = [k.value for k in st.value.keywords if k.arg == "weight_increment"]
                okw = bool(w) and _key(w[0]) == _pk("get_weight[transition][%s]" % _key(K))
                # the transition ranges over the spec edges leaving the status (pair) of the key
                tl = [lp for lp in c.loops if isinstance(lp, ast.For) and _key(lp.target) == "transition"]
                if isinstance(K, ast.Tuple):
                    a, b = _key(K.elts[0]), _key(K.elts[1])
                    want_it = "nbr_induced_transition_graph.edges((status[%s],status[%s]))" % (a, b)
                    nbl = [lp for lp in c.loops if isinstance(lp, ast.For) and _key(lp.target) == b]
                    okd = a == node and bool(nbl) and _key(nbl[0].iter) == "G.neighbors(%s)" % node
                else:
                    want_it = "spontaneous_transition_graph.edges(status[%s])" % _key(K)
                    okd = _key(K) == node
                okit = bool(tl) and _key(tl[-1].iter) == want_it
                # enrolled under no other condition than "the spec graph has this status (pair)": a guard clause or an outer test
                # about anything else (e.g. the OTHER spec graph) silently drops enabled candidates
                base = {(_key(fx), pol) for fx, pol in ctxs[fill[0]].facts} if fill[0] in ctxs else set()
                inner = {(_key(fx), pol) for fx, pol in c.facts} - base
                if isinstance(K, ast.Tuple):
                    allowed = {("nbr_induced_transition_graph.has_node((status[%s],status[%s]))" % (a, b), True)}
                else:
                    allowed = {("spontaneous_transition_graph.has_node(status[%s])" % _key(K), True)}
                extra = inner - allowed
                rep.ob("R11s", not extra, "simple contagion: initial enrolment of %s depends on nothing but its own spec graph having that status" % (
                    "an ordered pair" if isinstance(K, ast.Tuple) else "a node"), func=f, node=st,
                    construct="initial update %s under %s" % (_key(K), sorted(x for x, _ in inner)),
                    detail="" if not extra else "the enrolment is additionally conditional on %s: enabled candidates are skipped whenever that fails" % sorted(
                        ("" if pol else "not ") + x for x, pol in extra))
                rep.ob("R11s", okw and okit and okd, "simple contagion: initial candidates are exactly the enabled (node | ordered pair) per spec edge",
                       func=f, node=st, construct="initial update %s over %s" % (_key(K), _key(tl[-1].iter) if tl else None),
                       detail="" if (okw and okit and okd) else "initial fill key/status/weight disagree (weight ok=%s, spec edges ok=%s, domain ok=%s)" % (okw, okit, okd))
        rep.floor("R11s", "initial fill operations", nfill, 2)
    # ---- rates
    for lst, graph in (("spontaneous_transitions", "spontaneous_transition_graph"), ("induced_transitions", "nbr_induced_transition_graph")):
        lp = [s for s in f.node.body if isinstance(s, ast.For) and _key(s.iter) == lst and _key(s.target) == "transition"]
        okr = False
        if lp:
            for s2 in lp[0].body:
                if isinstance(s2, ast.Assign) and _key(s2.targets[0]) == "rate[transition]" and \
                        _key(s2.value) == "%s.adj[transition[0]][transition[1]]['rate']" % graph:
                    okr = True
        rep.ob("R11s", okr, "simple contagion: rate of a %s transition is the 'rate' attribute of that spec edge" % lst.split("_")[0],
               func=f, node=lp[0] if lp else f.node, construct="rate[transition] from %s" % graph,
               detail="" if okr else "rate table is not filled from the matching specification graph")
        # the list itself comes from the matching graph
        d = [n for n in own_nodes(f.node) if isinstance(n, ast.Assign) and _key(n.targets[0]) == lst]
        okl = bool(d) and all(_key(x.value) in ("sorted(%s.edges())" % graph, "list(%s.edges())" % graph) for x in d)
        rep.ob("R11s", okl, "simple contagion: %s lists the edges of %s" % (lst, graph), func=f, node=d[0] if d else f.node,
               construct="%s = %s" % (lst, [_key(x.value) for x in d]), detail="" if okl else "transition list built from another graph")
    # induced transitions keep the first status
    san = False
    for c in walk_function(f.node):
        if isinstance(c.stmt, ast.Raise) and any(pol and _key(fx) == "transition[0][0]!=transition[1][0]" for fx, pol in c.facts):
            san = True
    rep.ob("R11s", san, "simple contagion: an induced spec edge that changes its first status is rejected", func=f, node=f.node,
           construct="raise under transition[0][0] != transition[1][0]", detail="" if san else "sanity check on induced transitions is gone")
    # ---- selection / clock agreement
    term = "rate[transition]*potential_transitions[transition].total_weight()"
    tr_defs = [n for n in own_nodes(f.node) if isinstance(n, ast.Assign) and _key(n.targets[0]) == "total_rate"]
    okt = len(tr_defs) == 2
    dom = None
    for d in tr_defs:
        v = d.value
        ok1 = isinstance(v, ast.Call) and _key(v.func) == "sum" and isinstance(v.args[0], ast.GeneratorExp) \
            and _prod_key(v.args[0].elt) == "*".join(sorted(term.split("*"))) and _key(v.args[0].generators[0].target) == "transition" \
            and not v.args[0].generators[0].ifs
        okt = okt and ok1
        if ok1:
            dd = _key(v.args[0].generators[0].iter)
            okt = okt and (dom is None or dom == dd)
            dom = dd
    okt = okt and dom == "spontaneous_transitions+induced_transitions"
    rep.ob("RATE", okt, "simple contagion: total rate = sum over all spec edges of rate * total candidate weight (before the loop and after every event)",
           func=f, node=tr_defs[0] if tr_defs else f.node, construct="total_rate defs over %s" % dom,
           detail="" if okt else "total_rate is not recomputed from all transitions with rate*total_weight")
    if tr_defs and len(tr_defs) == 2:
        inloop = [d for d in tr_defs if any(x is d for x in ast.walk(loop))]
        okp = len(inloop) == 1 and loop.body.index([s for s in loop.body if any(x is inloop[0] for x in ast.walk(s))][0]) > i_w
        rep.ob("RATE", okp, "simple contagion: total rate recomputed after the event's bookkeeping", func=f, node=inloop[0] if inloop else loop,
               construct="recompute after status write: %s" % okp, detail="" if okp else "rate recomputation precedes the event")
    sel = [s for s in loop.body if isinstance(s, ast.For) and _key(s.target) == "transition"
           and any(isinstance(x, ast.Break) for x in ast.walk(s))]
    oks = len(sel) == 1 and _key(sel[0].iter) == dom
    if oks:
        b = sel[0].body
        sub = [s for s in b if isinstance(s, ast.AugAssign) and isinstance(s.op, ast.Sub) and _key(s.target) == "r"]
        oks = len(sub) == 1 and isinstance(sub[0].value, ast.BinOp) and isinstance(sub[0].value.op, ast.Div) \
            and _prod_key(sub[0].value.left) == "*".join(sorted(term.split("*"))) and _key(sub[0].value.right) == "total_rate"
        brk = [s for s in b if isinstance(s, ast.If) and _key(s.test) in ("r<0", "r<=0") and any(isinstance(x, ast.Break) for x in s.body)]
        oks = oks and len(brk) == 1 and b.index(brk[0]) > b.index(sub[0])
        rdef = [s for s in loop.body if isinstance(s, ast.Assign) and _key(s.targets[0]) == "r"]
        oks = oks and len(rdef) == 1 and _key(rdef[0].value) == "random.random()" and loop.body.index(rdef[0]) < loop.body.index(sel[0])
    rep.ob("RATE", oks, "simple contagion: the transition is selected with probability rate*weight/total over the same list the total sums",
           func=f, node=sel[0] if sel else loop, construct="selection loop over %s" % (_key(sel[0].iter) if sel else None),
           detail="" if oks else "selection loop and total rate disagree")
    act = [s for s in loop.body if isinstance(s, ast.Assign) and _key(s.targets[0]) == "actor"]
    oka = len(act) == 1 and _key(act[0].value) == "potential_transitions[transition].choose_random()"
    rep.ob("RATE", oka, "simple contagion: the actor is sampled by weight from the chosen transition's candidates", func=f,
           node=act[0] if act else loop, construct=short(act[0]) if act else None, detail="" if oka else "actor selection changed")
    sp = [c for c in walk_function(f.node) if isinstance(c.stmt, ast.Assign) and _key(c.stmt.targets[0]) == "spontaneous" and loop in c.loops]
    if len(sp) == 1 and _key(sp[0].stmt.value) == "transitioninspontaneous_transitions":
        okf = True            # the flag IS the membership test
    else:
        okf = len(sp) == 2
        for c in sp:
            val = c.stmt.value.value if isinstance(c.stmt.value, ast.Constant) else None
            mem = any(pol and _key(fx) == "transitioninspontaneous_transitions" for fx, pol in c.facts)
            nmem = any((not pol) and _key(fx) == "transitioninspontaneous_transitions" for fx, pol in c.facts)
            okf = okf and ((val is True and mem) or (val is False and nmem))
    rep.ob("RATE", okf, "simple contagion: an event is spontaneous exactly when its spec edge is a spontaneous one", func=f, node=loop,
           construct="spontaneous flag", detail="" if okf else "spontaneous/induced classification changed")
    # the re-summation guard against cancellation residue looks at the total AFTER this event's removals / updates
    ng = 0
    for c in walk_function(f.node):
        st = c.stmt
        if not (isinstance(st, ast.Expr) and isinstance(st.value, ast.Call) and isinstance(st.value.func, ast.Attribute)
                and st.value.func.attr == "update_total_weight"):
            continue
        ng += 1
        recv = _key(st.value.func.value)
        guard = next((p for p in reversed(c.parents) if isinstance(p, ast.If)), None)
        okg = False
        why = "no enclosing test"
        if guard is not None:
            direct = [x for x in ast.walk(guard.test) if isinstance(x, ast.Call) and isinstance(x.func, ast.Attribute)
                      and x.func.attr == "total_weight" and _key(x.func.value) == recv]
            temps = [x.id for x in ast.walk(guard.test) if isinstance(x, ast.Name)]
            stale = []
            # a local that caches the total must be assigned after the last removal / update of the same candidate set in the block
            blk = None
            for par in reversed(c.parents):
                for fld in ("body", "orelse"):
                    b = getattr(par, fld, None)
                    if isinstance(b, list) and guard in b:
                        blk = b
                if blk is not None:
                    break
            if blk is not None:
                gi = blk.index(guard)
                for tname in temps:
                    defs_ = [i for i, z in enumerate(blk[:gi]) if isinstance(z, ast.Assign) and _key(z.targets[0]) == tname
                             and any(isinstance(y, ast.Call) and isinstance(y.func, ast.Attribute) and y.func.attr == "total_weight" for y in ast.walk(z.value))]
                    if not defs_:
                        continue
                    after = blk[defs_[-1] + 1:gi]
                    if any(isinstance(y, ast.Call) and isinstance(y.func, ast.Attribute) and y.func.attr in ("remove", "update", "insert")
                           for z in after for y in ast.walk(z)):
                        stale.append(tname)
            okg = bool(direct or [t for t in temps if t not in stale and t != "transition"]) and not stale
            why = "reads %s, assigned before this event's remove/update calls" % stale if stale else "guard does not read the total"
        rep.ob("RATE", okg, "simple contagion: the total is re-summed when the CURRENT total (after this event's updates) is a tiny non-zero residue",
               func=f, node=st, construct="%s.update_total_weight() guard" % recv,
               detail="" if okg else "the roundoff guard %s: the clock then runs on the cancellation residue until the list is next touched" % why)
    rep.floor("RATE", "roundoff guards in the update sections", ng, 2)
    # ... and every loop of the event section that changes candidate sets carries the guard (a copy of the loop made for
    # directed graphs needs it as much as the original)
    for c in walk_function(f.node):
        st = c.stmt
        if not (isinstance(st, ast.For) and loop in c.loops):
            continue
        if any(isinstance(p, ast.For) and p is not st and p in c.loops and p is not loop for p in c.loops):
            continue                      # only the outermost loops over transitions
        changes = [y for y in ast.walk(st) if isinstance(y, ast.Call) and isinstance(y.func, ast.Attribute)
                   and y.func.attr in ("remove", "update", "insert") and isinstance(y.func.value, (ast.Subscript, ast.Name))
                   and "transitions" in _key(y.func.value) + " ".join(_key(v) for v in _defs_of(f.node, y.func.value))]
        if not changes:
            continue
        guards = [y for y in ast.walk(st) if isinstance(y, ast.Call) and isinstance(y.func, ast.Attribute) and y.func.attr == "update_total_weight"]
        rep.ob("RATE", bool(guards), "simple contagion: the loop `%s` that changes candidate sets re-sums a tiny residual total" % short(st, 50),
               func=f, node=st, construct="loop %s: %d changes, %d guards" % (short(st, 40), len(changes), len(guards)),
               detail="" if guards else "this loop removes / updates candidates and has no roundoff guard: on its path a total that "
               "cancelled to ~1e-17 keeps the clock running on an empty or zero-weight candidate set")
    # weight tables keyed like the candidates
    wl = 0
    for c in walk_function(f.node):
        st = c.stmt
        if isinstance(st, ast.Assign) and _key(st.targets[0]) == "get_weight[transition]":
            lp = [l for l in c.loops if isinstance(l, ast.For) and _key(l.target) == "transition"]
            if not lp:
                continue
            wl += 1
            spont = _key(lp[-1].iter) == "spontaneous_transitions"
            v = st.value
            if isinstance(v, ast.Call) and _key(v.func) in ("nx.get_node_attributes", "nx.get_edge_attributes"):
                ok = (_key(v.func) == "nx.get_node_attributes") == spont and _key(v.args[0]) == "G" and _key(v.args[1]) == "wl"
            elif isinstance(v, ast.DictComp):
                if spont:
                    ok = _key(v.key) == _key(v.generators[0].target) and _key(v.generators[0].iter) in ("G", "G.nodes()") \
                        and _key(v.value) == "rf(G,%s,**spont_kwargs)" % _key(v.key)
                else:
                    tg = v.generators[0].target
                    ok = isinstance(tg, ast.Tuple) and _key(v.key) == "(%s,%s)" % (_key(tg.elts[0]), _key(tg.elts[1])) \
                        and _key(v.value) == "rf(G,%s,%s,**nbr_kwargs)" % (_key(tg.elts[0]), _key(tg.elts[1]))
            else:
                ok = False
            rep.ob("R11s", ok, "simple contagion: weight table of a %s transition is keyed by %s" % (
                "spontaneous" if spont else "induced", "node" if spont else "ordered pair"), func=f, node=st,
                construct="get_weight[transition] = %s" % short(v, 70), detail="" if ok else "weight table key/label changed")
    rep.floor("R11s", "weight table definitions", wl, 4)
    # reversed orientation added for undirected graphs: key (a, b) <-> value computed for (a, b)
    nrev = 0
    for c in walk_function(f.node):
        st = c.stmt
        if isinstance(st, ast.Expr) and isinstance(st.value, ast.Call) and _key(st.value.func) == "get_weight[transition].update" \
                and st.value.args and isinstance(st.value.args[0], ast.DictComp):
            nrev += 1
            dc = st.value.args[0]
            key = dc.key
            ok = isinstance(key, ast.Tuple) and len(key.elts) == 2
            if ok:
                a, b = _key(key.elts[0]), _key(key.elts[1])
                v = _key(dc.value)
                ok = v == "rf(G,%s,%s,**nbr_kwargs)" % (a, b) or v in ("G.adj[%s][%s][wl]" % (a, b), "G.adj[%s][%s][wl]" % (b, a),
                                                                  "G.edges[%s,%s][wl]" % (a, b))
                und = any((not pol) and _key(fx) == "nx.is_directed(G)" for fx, pol in c.facts) or \
                    any((not pol) and _key(fx) == "G.is_directed()" for fx, pol in c.facts)
                ok = ok and und
            rep.ob("R11s", ok, "simple contagion: the reversed orientation of an undirected edge gets the weight computed for that "
                   "ordered pair", func=f, node=st, construct="reverse table {%s: %s}" % (_key(dc.key), _key(dc.value)),
                   detail="" if ok else "reverse-orientation weight is computed for another pair than the key it is stored under")
    rep.floor("R11s", "reverse-orientation weight tables", nrev, 2)


# ---------------------------------------------------------------------------
# Gillespie_complex_contagion
# ---------------------------------------------------------------------------
def complex_contagion_rule(repo, rep):
    f = repo.f("Gillespie_complex_contagion")
    rep.analysed(f)
    loop = _main_loop(f)
    ctxs = contexts_by_node(f.node)
    tw = "nodes_by_rate.total_weight()"
    # loop condition: total weight > 0 and t < tmax
    facts = [(_key(fx), pol) for fx, pol in atomic_facts(loop.test, True)]
    ok = ("%s>0" % tw, True) in facts and ("t<tmax", True) in facts and len(facts) == 2
    rep.ob("R11c", ok, "complex contagion: runs exactly while some rate is positive and t < tmax", func=f, node=loop,
           construct="while %s" % short(loop.test), detail="" if ok else "loop condition changed")
    no_bypass(rep, "R11c", f, loop, "re-rating, then the next waiting time and t += delay")
    # clock draws: argument is the current total, guarded by > 0
    clocks = [c for c in ast.walk(f.node) if isinstance(c, ast.Call) and _key(c.func) == "random.expovariate"]
    okc = len(clocks) == 2
    for c in clocks:
        cx = ctxs[id(c)]
        g = fact_nonzero(cx.facts, c.args[0])
        okc = okc and _key(c.args[0]) == tw and g is not None
    rep.ob("R11c", okc, "complex contagion: waiting time ~ Exp(sum of current rates), drawn before the loop and after every event",
           func=f, node=clocks[0] if clocks else f.node, construct="clock draws %s" % [_key(c.args[0]) for c in clocks],
           detail="" if okc else "clock is not expovariate(nodes_by_rate.total_weight()) under a >0 guard, twice")
    # selection and new status
    sel = [s for s in loop.body if isinstance(s, ast.Assign) and _key(s.value) == "nodes_by_rate.choose_random()"]
    oks = len(sel) == 1 and isinstance(sel[0].targets[0], ast.Name)
    rep.ob("R11c", oks, "complex contagion: the changing node is sampled by rate", func=f, node=sel[0] if sel else loop,
           construct=short(sel[0]) if sel else None, detail="" if oks else "node selection changed")
    if not oks:
        return
    node = sel[0].targets[0].id
    ch = [s for s in loop.body if isinstance(s, ast.Assign) and isinstance(s.value, ast.Call) and _key(s.value.func) == "transition_choice"]
    okn = len(ch) == 1 and [_key(a) for a in ch[0].value.args] == ["G", node, "status", "parameters"]
    rep.ob("R11c", okn, "complex contagion: new status = transition_choice(G, node, status, parameters)", func=f,
           node=ch[0] if ch else loop, construct=short(ch[0]) if ch else None, detail="" if okn else "chooser call changed")
    sw = [s for s in loop.body if isinstance(s, ast.Assign) and _key(s.targets[0]) == "status[%s]" % node]
    okw = len(sw) == 1 and okn and _key(sw[0].value) == _key(ch[0].targets[0])
    rep.ob("R11c", okw, "complex contagion: the node's status becomes the chooser's answer", func=f, node=sw[0] if sw else loop,
           construct=short(sw[0]) if sw else None, detail="" if okw else "status write changed")
    if not okw:
        return
    i_w = loop.body.index(sw[0])
    i_sel, i_ch = loop.body.index(sel[0]), loop.body.index(ch[0])
    rep.ob("R11c", i_sel < i_ch < i_w, "complex contagion: select, ask the chooser on the pre-event statuses, then write", func=f, node=sw[0],
           construct="order select<choose<write: %s" % (i_sel < i_ch < i_w), detail="" if i_sel < i_ch < i_w else "order of selection / chooser / write changed")
    # re-rating after the write: node itself and every member of the influence set, before the clock
    clock_stmt = [s for s in loop.body if any(isinstance(x, ast.Call) and _key(x.func) == "random.expovariate" for x in ast.walk(s))]
    i_clock = loop.body.index(clock_stmt[0]) if clock_stmt else len(loop.body)

    def rated_insert(stmts, var):
        """stmts contain `w = rate_function(G, var, status, parameters)` followed by
        `nodes_by_rate.insert(var, weight=w)` (or the call inlined)."""
        wname = None
        for s in stmts:
            if isinstance(s, ast.Assign) and isinstance(s.value, ast.Call) and _key(s.value.func) == "rate_function":
                if [_key(a) for a in s.value.args] == ["G", var, "status", "parameters"] and isinstance(s.targets[0], ast.Name):
                    wname = s.targets[0].id
                else:
                    wname = None
            if isinstance(s, ast.Expr) and isinstance(s.value, ast.Call) and _key(s.value.func) == "nodes_by_rate.insert":
                c = s.value
                w = [k.value for k in c.keywords if k.arg == "weight"] or list(c.args[1:2])
                if _key(c.args[0]) == var and w:
                    if wname is not None and _key(w[0]) == wname:
                        return s
                    if _key(w[0]) == "rate_function(G,%s,status,parameters)" % var:
                        return s
        return None
    seg = loop.body[i_w + 1:i_clock]
    s1 = rated_insert(seg, node)
    rep.ob("R11c", s1 is not None, "complex contagion: the changed node is re-rated on the new statuses before the next clock", func=f,
           node=s1 if s1 is not None else sw[0], construct="re-rate changed node: %s" % (s1 is not None),
           detail="" if s1 is not None else "no nodes_by_rate.insert(node, weight=rate_function(G, node, status, parameters)) between the status write and the clock")
    inf = [s for s in seg if isinstance(s, ast.Assign) and isinstance(s.value, ast.Call) and _key(s.value.func) == "get_influence_set"]
    oki = len(inf) == 1 and [_key(a) for a in inf[0].value.args] == ["G", node, "status", "parameters"]
    rep.ob("R11c", oki, "complex contagion: influence set asked for the changed node on the new statuses", func=f,
           node=inf[0] if inf else sw[0], construct=short(inf[0]) if inf else None, detail="" if oki else "influence set call changed or precedes the status write")
    if oki:
        iname = _key(inf[0].targets[0])
        lp = [s for s in seg if isinstance(s, ast.For) and _key(s.iter) == iname and isinstance(s.target, ast.Name)
              and seg.index(s) > seg.index(inf[0])]
        ok2 = len(lp) == 1 and rated_insert(lp[0].body, lp[0].target.id) is not None and \
            not any(isinstance(x, (ast.If, ast.Continue, ast.Break)) for x in ast.walk(lp[0]))
        rep.ob("R11c", ok2, "complex contagion: every member of the influence set is re-rated, unconditionally", func=f,
               node=lp[0] if lp else inf[0], construct="re-rate loop over %s: %s" % (iname, ok2),
               detail="" if ok2 else "members of the influence set are not all re-rated with rate_function on the current statuses")
    # insert() semantic relied upon: replaces the weight and drops zero-weight items (R12 insert rule)
    # initial rating: every node
    init = [s for s in f.node.body if isinstance(s, ast.For) and _key(s.iter) in ("G.nodes()", "G") and
            any(isinstance(x, ast.Call) and _key(x.func) == "nodes_by_rate.insert" for x in ast.walk(s))]
    oki = len(init) == 1
    if oki:
        u = _key(init[0].target)
        r = [s for s in init[0].body if isinstance(s, ast.Assign) and isinstance(s.value, ast.Call) and _key(s.value.func) == "rate_function"]
        oki = len(r) == 1 and [_key(a) for a in r[0].value.args] == ["G", u, "status", "parameters"]
        ins = [x for x in ast.walk(init[0]) if isinstance(x, ast.Call) and _key(x.func) == "nodes_by_rate.insert"]
        oki = oki and len(ins) == 1 and _key(ins[0].args[0]) == u and any(k.arg == "weight" and _key(k.value) == _key(r[0].targets[0]) for k in ins[0].keywords)
    rep.ob("R11c", oki, "complex contagion: initially every node is rated on the initial statuses", func=f, node=init[0] if init else f.node,
           construct="initial rating loop", detail="" if oki else "initial rating changed")
    nb = [n for n in own_nodes(f.node) if isinstance(n, ast.Assign) and _key(n.targets[0]) == "nodes_by_rate"]
    okb = len(nb) == 1 and _key(nb[0].value) in ("_ListDict_(weighted=True)", "_ListDict_(True)")
    rep.ob("R11c", okb, "complex contagion: candidates live in a weighted _ListDict_", func=f, node=nb[0] if nb else f.node,
           construct=short(nb[0]) if nb else None, detail="" if okb else "candidate container changed")
    st0 = [n for n in f.node.body if isinstance(n, ast.Assign) and _key(n.targets[0]) == "status"]
    oks0 = len(st0) == 1 and _key(st0[0].value) == "{node:IC[node]fornodeinG.nodes()}"
    rep.ob("R11c", oks0, "complex contagion: works on its own copy of the initial statuses", func=f, node=st0[0] if st0 else f.node,
           construct=short(st0[0]) if st0 else None, detail="" if oks0 else "status initialisation changed")
