"""Rules for the analytic (ODE) entry points: R2/R3 via the flag-enumerating
abstract interpreter, time grid, conservation by construction, R4 state-vector
layout agreement, R6 node/position kinds, degree-class role agreement."""
import ast, functools
import re

from ..core import own_nodes, attr_chain, short, names_in, AnalysisError, Func, resolve_callee
from ..flow import walk_function, contexts_by_node, same, atomic_facts
from ..absint import Interp, analyse_entry
from ..linear import linear, lin_str
from .callrules import sites_of, in_scope, dependency_closure, depends_on
from .. import tables as T

NOTE_ONLY = {"Epi_Prob_cts_time", "Epi_Prob_non_Markovian", "Attack_rate_non_Markovian", "Gillespie_Arbitrary",
             "hierarchy_pos", "_SIR_pair_based_initialize_node_data", "_SIR_pair_based_initialize_edge_data", "visualize"}


def _k(e):
    return short(e, 600).replace(" ", "")


def _parses(t):
    try:
        ast.parse(t, mode="eval")
        return True
    except SyntaxError:
        return False


# ---------------------------------------------------------------------------
# R2 / R3
# ---------------------------------------------------------------------------
def r2r3(repo, rep, modules):
    rep.rule("R2", "None-flow: for every public entry point and every assignment of None-ness/boolean to its optional "
                   "parameters that is not rejected, no path uses a value that is None on that path (len, iteration, subscript, "
                   "attribute, arithmetic, */** unpacking), also inside the package functions it calls")
    rep.rule("R3", "definite assignment: on every such path every name read is bound (local assigned on the path, parameter, "
                   "enclosing/module-level name or builtin)")
    interp = Interp(repo)
    nfun = ncombo = 0
    entries = []
    for m in modules:
        for f in sorted(repo.public_functions(m), key=lambda f: f.name):
            if f.name in NOTE_ONLY:
                # still analysed, findings are notes
                pass
            entries.append(f)
    for f in entries:
        _, n = analyse_entry(repo, f, interp)
        nfun += 1
        ncombo += n
        rep.analysed(f)
    rep.count("R2R3:entry points", nfun)
    rep.count("R2R3:flag assignments enumerated", ncombo)
    rep.count("R2R3:function bodies entered (memoised)", interp.calls_entered)
    rep.count("R2R3:statements interpreted", interp.paths)
    rep.floor("R2R3", "entry points", nfun, 40 if "analytic" in modules else 10)
    seen = set()
    bad_funcs = set()
    for x in interp.findings:
        key = (x.rule, x.func.qual, short(x.node, 60), x.what.split(" on this path")[0][:80])
        if key in seen:
            continue
        seen.add(key)
        root = x.func
        while root.parent is not None:
            root = root.parent
        if root.name in NOTE_ONLY or not in_scope(x.func):
            rep.note("%s %s:%s %s (outside every claimed property) via %s" % (x.rule, x.func.qual, getattr(x.node, "lineno", "?"), x.what, x.path[:120]))
            continue
        bad_funcs.add(x.func.qual)
        rep.ob(x.rule, False, "%s: %s" % (x.func.qual, x.what[:70]), detail="%s [first seen on: %s]" % (x.what, x.path[:200]),
               func=x.func, node=x.node, construct="%s: %s" % (short(x.node, 60), x.what.split(" on this path")[0][:80]))
    for f in entries:
        if f.qual not in bad_funcs and f.name not in NOTE_ONLY:
            rep.ob("R2", True, "%s: no None use / unbound name on any flag combination" % f.name, func=f, construct="%s clean" % f.name)


# ---------------------------------------------------------------------------
# ODE sites
# ---------------------------------------------------------------------------
def ode_sites(repo):
    sites, _ = sites_of(repo)
    return [s for s in sites if s.kind == "ode"]


def _env_of(f):
    """name -> list of assigned value expressions (top-level and nested blocks)."""
    env = {}
    for n in own_nodes(f.node):
        if isinstance(n, ast.Assign) and len(n.targets) == 1 and isinstance(n.targets[0], ast.Name):
            env.setdefault(n.targets[0].id, []).append(n.value)
    return env


def time_grid(repo, rep):
    rep.rule("GRID", "the first returned array is np.linspace(tmin, tmax, tcount) and the same object is the grid handed to the integrator")
    n = 0
    for s in ode_sites(repo):
        f = s.caller
        if f.name.startswith("_") or not in_scope(f):
            continue
        n += 1
        rep.analysed(f)
        grid = s.node.args[2] if len(s.node.args) > 2 else None
        env = _env_of(f)
        ok = isinstance(grid, ast.Name) and len(env.get(grid.id, [])) == 1 and \
            _k(env[grid.id][0]) in ("np.linspace(tmin,tmax,tcount)",)
        rep.ob("GRID", ok, "%s: integrator grid is np.linspace(tmin, tmax, tcount)" % f.name, func=f, node=s.node,
               construct="%s grid %s = %s" % (f.name, _k(grid) if grid is not None else None,
                                              [_k(v) for v in env.get(getattr(grid, "id", ""), [])]),
               detail="" if ok else "the time grid is not linspace(tmin, tmax, tcount)")
        for r in [x for x in own_nodes(f.node) if isinstance(x, ast.Return)]:
            first = r.value.elts[0] if isinstance(r.value, ast.Tuple) else r.value
            okr = isinstance(grid, ast.Name) and isinstance(first, ast.Name) and first.id == grid.id
            rep.ob("GRID", okr, "%s: first returned element is that grid" % f.name, func=f, node=r,
                   construct="%s returns %s first" % (f.name, _k(first)), detail="" if okr else "returned times are not the integration grid")
    rep.floor("GRID", "ODE entry points", n, 19)
    # discrete-time models
    for name in ("EBCM_discrete", "EBCM_pref_mix_discrete"):
        f = repo.f(name)
        rep.analysed(f)
        env = _env_of(f)
        ok = [_k(v) for v in env.get("times", [])] == ["[tmin]"]
        lp = [x for x in f.node.body if isinstance(x, ast.For) and isinstance(x.iter, ast.Call) and _k(x.iter.func) == "range"]
        okl = len(lp) == 1 and [_k(a) for a in lp[0].iter.args] == ["tmin+1", "tmax+1"] and \
            any(_k(b) == "times.append(%s)" % _k(lp[0].target) for b in lp[0].body)
        rep.ob("GRID", ok and okl, "%s: times = tmin, tmin+1, ..., tmax" % name, func=f, node=lp[0] if lp else f.node,
               construct="%s times %s / range%s" % (name, [_k(v) for v in env.get("times", [])], [_k(a) for a in lp[0].iter.args] if lp else None),
               detail="" if (ok and okl) else "discrete time grid does not start at tmin and step by one to tmax")


# ---------------------------------------------------------------------------
# conservation
# ---------------------------------------------------------------------------
CONSERVATION_EXCLUDED = {
    "SIS_effective_degree": "population is conserved by a telescoping flux argument over the (s,i) lattice, not by construction",
}


def _plain_return_elts(f):
    """Elements of the return executed when return_full_data is False (or the only return)."""
    rets = [(c, c.stmt) for c in walk_function(f.node) if isinstance(c.stmt, ast.Return) and c.stmt.value is not None]
    if not rets:
        return None
    plain = [s for c, s in rets if any(((not pol) and _k(fx) == "return_full_data") or (pol and _k(fx) == "notreturn_full_data")
                                       for fx, pol in c.facts)]
    if not plain:
        plain = [rets[-1][1]] if len(rets) == 1 else []
    if not plain:
        return None
    v = plain[0].value
    return list(v.elts) if isinstance(v, ast.Tuple) else [v]


def conservation(repo, rep):
    rep.rule("CONS", "S+I(+R) equals the population by construction: after expanding definitions and using linearity of sum/.sum, "
                     "the total contains no term that depends on the integrator output; otherwise the integrated compartments' "
                     "right-hand sides sum to zero symbolically")
    n = 0
    for s in ode_sites(repo):
        f = s.caller
        if f.name.startswith("_") or not in_scope(f):
            continue
        elts = _plain_return_elts(f)
        if elts is None or len(elts) < 3:
            continue
        n += 1
        rep.analysed(f)
        if f.name in CONSERVATION_EXCLUDED:
            rep.note("CONS: %s excluded: %s" % (f.name, CONSERVATION_EXCLUDED[f.name]))
            continue
        comps = elts[1:]
        # solver output variable
        out = None
        for x in own_nodes(f.node):
            if isinstance(x, ast.Assign) and x.value is s.node and isinstance(x.targets[0], ast.Name):
                out = x.targets[0].id
        env = {}
        tuples = {}
        for x in own_nodes(f.node):
            if isinstance(x, ast.Assign) and len(x.targets) == 1:
                t = x.targets[0]
                if isinstance(t, ast.Name) and t.id not in names_in(x.value):
                    env.setdefault(t.id, x.value)
                elif isinstance(t, ast.Tuple):
                    for i, e in enumerate(t.elts):
                        if isinstance(e, ast.Name):
                            tuples[e.id] = (x.value, i)
        total = {}
        for c in comps:
            lf = linear(c, env=env)
            for k, v in lf.items():
                total[k] = total.get(k, 0.0) + v
        total = {k: v for k, v in total.items() if abs(v) > 1e-9}

        def depends_on_output(term):
            # shapes are not data: len(x), x.shape
            term = re.sub(r"len\([^()]*\)", "LEN", term)
            term = re.sub(r"[A-Za-z_][A-Za-z_0-9]*\.shape", "SHAPE", term)
            names = set(re.findall(r"[A-Za-z_][A-Za-z_0-9]*", term))
            seen = set()
            todo = list(names)
            while todo:
                nm = todo.pop()
                if nm in seen:
                    continue
                seen.add(nm)
                if nm == out:
                    return True
                if nm in tuples:
                    todo += list(names_in(tuples[nm][0]))
                if nm in env:
                    todo += list(names_in(env[nm]))
            return False
        dep_terms = [t for t in total if depends_on_output(t)]
        if not dep_terms:
            rep.ob("CONS", True, "%s: S+I(+R) = %s independent of the integrator output" % (f.name, lin_str(total)), func=f,
                   node=f.node, construct="%s total %s" % (f.name, lin_str(total)))
            continue
        # fall back: the rhs components that correspond sum to zero
        g = s.callee
        okz, why = _rhs_sums_to_zero(g)
        rep.ob("CONS", okz, "%s: total depends on the solution (%s); right-hand sides of %s sum to zero" % (f.name, dep_terms[:3], g.name),
               func=f, node=f.node, construct="%s total %s ; rhs %s" % (f.name, lin_str(total), why),
               detail="" if okz else "S+I(+R) is read from the integrator and the right-hand sides do not cancel: %s" % why)
    rep.floor("CONS", "ODE entry points with (t,S,I[,R]) output", n, 19)
    # discrete models
    for name in ("EBCM_discrete", "EBCM_pref_mix_discrete"):
        f = repo.f(name)
        rep.analysed(f)
        env = {}
        for x in own_nodes(f.node):
            if isinstance(x, ast.Assign) and len(x.targets) == 1 and isinstance(x.targets[0], ast.Name):
                env.setdefault(x.targets[0].id, x.value)
        lp = [x for x in f.node.body if isinstance(x, ast.For)][0]
        app = {}
        for b in lp.body:
            if isinstance(b, ast.Expr) and isinstance(b.value, ast.Call) and isinstance(b.value.func, ast.Attribute) \
                    and b.value.func.attr == "append" and _k(b.value.func.value) in ("S", "I", "R"):
                app[_k(b.value.func.value)] = b.value.args[0]
        ok = set(app) == {"S", "I", "R"}
        tot = {}
        if ok:
            for c in app.values():
                for k, v in linear(c, env=env).items():
                    tot[k] = tot.get(k, 0.0) + v
            tot = {k: v for k, v in tot.items() if abs(v) > 1e-9}
            ok = set(tot) == {"N"} and abs(tot["N"] - 1.0) < 1e-9
        rep.ob("CONS", ok, "%s: each new row satisfies S+I+R = N by construction" % name, func=f, node=lp,
               construct="%s row total %s" % (name, lin_str(tot)), detail="" if ok else "appended S, I, R do not sum to N")


def _rhs_sums_to_zero(g):
    env = {}
    for x in own_nodes(g.node):
        if isinstance(x, ast.Assign) and len(x.targets) == 1 and isinstance(x.targets[0], ast.Name) \
                and x.targets[0].id not in names_in(x.value):
            env.setdefault(x.targets[0].id, x.value)
    rets = [x for x in own_nodes(g.node) if isinstance(x, ast.Return)]
    if len(rets) != 1:
        return False, "no single return"
    v = rets[0].value
    if isinstance(v, ast.Name) and v.id in env:
        v = env[v.id]
    comps = None
    if isinstance(v, ast.Call) and _k(v.func) in ("np.array", "numpy.array") and isinstance(v.args[0], (ast.List, ast.Tuple)):
        comps = list(v.args[0].elts)
    elif isinstance(v, ast.Call) and _k(v.func) in ("np.concatenate",) and isinstance(v.args[0], (ast.Tuple, ast.List)):
        comps = list(v.args[0].elts)
    if not comps:
        return False, "return is not an array/concatenation of named parts"
    tot = {}
    for c in comps:
        for k, val in linear(c, env=env).items():
            tot[k] = tot.get(k, 0.0) + val
    tot = {k: val for k, val in tot.items() if abs(val) > 1e-9}
    return (not tot), lin_str(tot)


# ---------------------------------------------------------------------------
# DEFMAP: the status map is a defaultdict - susceptible nodes are implicit in it
# ---------------------------------------------------------------------------
def default_status_map_rule(repo, rep, modules=("analytic",)):
    rep.rule("DEFMAP", "the map returned by _initialize_node_status_ is a defaultdict that holds the listed infected / recovered nodes "
                       "(and whatever was looked up so far): it is only ever subscripted; counting or iterating it (len, values(), "
                       "items(), Counter, for ... in) leaves out the susceptible nodes nobody has asked about yet")
    n = 0
    for f in repo.all_funcs():
        if f.module not in modules or f.parent is not None:
            continue
        names = {x.targets[0].id for x in own_nodes(f.node) if isinstance(x, ast.Assign) and len(x.targets) == 1
                 and isinstance(x.targets[0], ast.Name) and isinstance(x.value, ast.Call)
                 and (_k(x.value.func) or "").split(".")[-1] == "_initialize_node_status_"}
        if not names:
            continue
        n += 1
        rep.analysed(f)
        bad = []
        parent = {}
        for z in ast.walk(f.node):
            for c in ast.iter_child_nodes(z):
                parent[id(c)] = z
        for z in ast.walk(f.node):
            if isinstance(z, ast.Name) and z.id in names and isinstance(z.ctx, ast.Load):
                p = parent.get(id(z))
                if isinstance(p, ast.Subscript) and p.value is z:
                    continue                                  # status[node]
                if isinstance(p, ast.Attribute) and p.attr in ("get", "__getitem__"):
                    continue
                if isinstance(p, ast.Call) and z in p.args and (_k(p.func) or "").startswith(("_", "EoN._")) :
                    continue                                  # handed on to another package helper (checked there)
                if isinstance(p, ast.Return) or isinstance(p, ast.Tuple) and isinstance(parent.get(id(p)), ast.Return):
                    continue
                bad.append(p if p is not None else z)
        rep.ob("DEFMAP", not bad, "%s: the default status map is only subscripted" % f.name, func=f, node=bad[0] if bad else f.node,
               construct="%s: uses of %s other than subscripts: %d" % (f.name, sorted(names), len(bad)),
               detail="" if not bad else "`%s` counts / iterates the defaultdict of statuses: susceptible nodes that were never looked up "
               "(isolated nodes, nodes not reached yet) are missing from it" % short(bad[0], 60))
    rep.floor("DEFMAP", "functions that build a default status map", n, 10)


# ---------------------------------------------------------------------------
# R4s: aggregates are taken before a solution block is given its 3-D shape
# ---------------------------------------------------------------------------
def r4s(repo, rep, modules=("analytic",)):
    rep.rule("R4s", "a block of the solution is summed over its rows (`.sum(axis=0)`, one value per time) BEFORE it is reshaped in "
                    "place to (k, l, time): after `A.shape = (a, b, tcount)` the same call sums over the first index only and "
                    "returns a 2-D array that is not a time series")
    n = 0
    for f in repo.all_funcs():
        if f.module not in modules or f.parent is not None:
            continue
        shaped = {}
        hits = []
        for c in walk_function(f.node):
            st = c.stmt
            if isinstance(st, ast.Assign) and len(st.targets) == 1 and isinstance(st.targets[0], ast.Attribute) \
                    and st.targets[0].attr == "shape" and isinstance(st.targets[0].value, ast.Name) \
                    and isinstance(st.value, ast.Tuple) and len(st.value.elts) >= 3:
                shaped[st.targets[0].value.id] = st
                n += 1
                continue
            if isinstance(st, (ast.Assign, ast.Return, ast.Expr, ast.AugAssign)):
                for z in ast.walk(st):
                    if isinstance(z, ast.Call) and isinstance(z.func, ast.Attribute) and z.func.attr == "sum" \
                            and isinstance(z.func.value, ast.Name) and z.func.value.id in shaped \
                            and any(k.arg == "axis" and _k(k.value) == "0" for k in z.keywords):
                        # only when the reshape precedes on this path (same or enclosing block, earlier statement)
                        sh = shaped[z.func.value.id]
                        if sh.lineno < st.lineno:
                            hits.append((z, sh, st))
                if isinstance(st, ast.Assign):
                    for t in st.targets:
                        if isinstance(t, ast.Name):
                            shaped.pop(t.id, None)
        if shaped or hits:
            rep.analysed(f)
        for nm, sh in shaped.items():
            bad = [h for h in hits if h[1] is sh]
            rep.ob("R4s", not bad, "%s: `%s` is aggregated before it is reshaped to three dimensions" % (f.name, nm), func=f,
                   node=bad[0][2] if bad else sh, construct="%s: %s" % (f.name, short(sh)),
                   detail="" if not bad else "`%s` is evaluated after `%s`: it now sums over the first of three axes and returns a "
                   "2-D array instead of one value per time" % (short(bad[0][0]), short(sh)))
    # `.T` of a three-dimensional block reverses ALL axes: (time, k, l) becomes (l, k, time) - the two degree indices swap.
    # Getting (k, l, time) needs transpose(1, 2, 0).
    for f in repo.all_funcs():
        if f.module not in modules or f.parent is not None:
            continue
        for z in ast.walk(f.node):
            if isinstance(z, ast.Attribute) and z.attr == "T" and isinstance(z.value, ast.Call) and isinstance(z.value.func, ast.Attribute) \
                    and z.value.func.attr == "reshape":
                dims = z.value.args[0].elts if len(z.value.args) == 1 and isinstance(z.value.args[0], ast.Tuple) else z.value.args
                if len(dims) >= 3:
                    rep.analysed(f)
                    rep.ob("R4s", False, "%s: a 3-D block is not transposed with .T" % f.name, func=f, node=z, construct=short(z, 70),
                           detail="`%s` reverses all three axes, so the two degree-class indices of the table are exchanged "
                           "(only symmetric tables survive that)" % short(z, 70))
    rep.floor("R4s", "in-place 3-D reshapes of solution blocks", n, 6)


# ---------------------------------------------------------------------------
# case enumeration for the edge tally of _count_edge_types_
# ---------------------------------------------------------------------------
class _NoCase(Exception):
    pass


def _edge_case_table(fnode):
    """{(a, b): {counter: increment}} for a, b in S/I/R: the body of the loop over G.edges() evaluated with the end
    statuses fixed (finite case analysis over literals; no code is run).  None if the loop uses anything but tests on the
    two end statuses, literal temporaries and += of literals on plain names."""
    loops = [n for n in own_nodes(fnode) if isinstance(n, ast.For) and _k(n.iter) in ("G.edges()", "G.edges")
             and isinstance(n.target, ast.Tuple) and len(n.target.elts) == 2 and all(isinstance(e, ast.Name) for e in n.target.elts)]
    if len(loops) != 1:
        return None
    lp = loops[0]
    u, v = (e.id for e in lp.target.elts)

    def ev(e, env):
        if isinstance(e, ast.Constant):
            return e.value
        if isinstance(e, ast.Name):
            if e.id in env:
                return env[e.id]
            raise _NoCase
        if isinstance(e, ast.Subscript):
            if _k(e.value) == "status" and isinstance(e.slice, ast.Name) and e.slice.id in (u, v):
                return env["status[%s]" % e.slice.id]
            base = ev(e.value, env)
            if isinstance(base, (tuple, str)) and not isinstance(e.slice, ast.Slice):
                i = ev(e.slice, env)
                if isinstance(i, int) and -len(base) <= i < len(base):
                    return base[i]
            raise _NoCase
        if isinstance(e, ast.Tuple):
            return tuple(ev(x, env) for x in e.elts)
        if isinstance(e, (ast.List, ast.Set)):
            return frozenset(ev(x, env) for x in e.elts) if isinstance(e, ast.Set) else tuple(ev(x, env) for x in e.elts)
        if isinstance(e, ast.UnaryOp) and isinstance(e.op, ast.Not):
            return not ev(e.operand, env)
        if isinstance(e, ast.BoolOp):
            vals = [ev(x, env) for x in e.values]          # all operands are effect-free here
            if not all(isinstance(x, bool) for x in vals):
                raise _NoCase
            return all(vals) if isinstance(e.op, ast.And) else any(vals)
        if isinstance(e, ast.BinOp) and isinstance(e.op, ast.Add):
            a, b = ev(e.left, env), ev(e.right, env)
            if type(a) is type(b) and isinstance(a, (str, tuple, int)):
                return a + b
            raise _NoCase
        if isinstance(e, ast.IfExp):
            return ev(e.body, env) if ev(e.test, env) is True else ev(e.orelse, env)
        if isinstance(e, ast.Compare):
            left = ev(e.left, env)
            res = True
            for op, c in zip(e.ops, e.comparators):
                right = ev(c, env)
                if isinstance(op, (ast.Eq, ast.Is)):
                    r = left == right
                elif isinstance(op, (ast.NotEq, ast.IsNot)):
                    r = left != right
                elif isinstance(op, ast.In) and isinstance(right, (tuple, frozenset, str)):
                    r = left in right
                elif isinstance(op, ast.NotIn) and isinstance(right, (tuple, frozenset, str)):
                    r = left not in right
                else:
                    raise _NoCase
                res = res and r
                left = right
            return res
        if isinstance(e, ast.Call) and _k(e.func) in ("sorted", "tuple", "frozenset", "set") and len(e.args) == 1 and not e.keywords:
            a = ev(e.args[0], env)
            if isinstance(a, (tuple, frozenset)):
                return {"sorted": lambda x: tuple(sorted(x)), "tuple": tuple, "frozenset": frozenset, "set": frozenset}[_k(e.func)](a)
            raise _NoCase
        raise _NoCase

    def run(body, env, acc):
        for st in body:
            if isinstance(st, ast.Pass):
                continue
            if isinstance(st, ast.Continue):
                return "continue"
            if isinstance(st, ast.If):
                t = ev(st.test, env)
                if not isinstance(t, bool):
                    raise _NoCase
                r = run(st.body if t else st.orelse, env, acc)
                if r:
                    return r
                continue
            if isinstance(st, ast.AugAssign) and isinstance(st.target, ast.Name) and isinstance(st.op, ast.Add) \
                    and st.target.id not in env:
                inc = ev(st.value, env)
                if not isinstance(inc, int) or isinstance(inc, bool):
                    raise _NoCase
                acc[st.target.id] = acc.get(st.target.id, 0) + inc
                continue
            if isinstance(st, ast.Assign) and len(st.targets) == 1:
                tg = st.targets[0]
                if isinstance(tg, ast.Name) and tg.id not in acc:
                    env[tg.id] = ev(st.value, env)
                    continue
                if isinstance(tg, ast.Tuple) and all(isinstance(x, ast.Name) for x in tg.elts):
                    val = ev(st.value, env)
                    if isinstance(val, tuple) and len(val) == len(tg.elts):
                        for x, y in zip(tg.elts, val):
                            env[x.id] = y
                        continue
            raise _NoCase
        return None

    out = {"loop": lp}
    try:
        for a in "SIR":
            for b in "SIR":
                acc = {}
                run(lp.body, {"status[%s]" % u: a, "status[%s]" % v: b}, acc)
                out[(a, b)] = acc
    except _NoCase:
        return None
    return out


# ---------------------------------------------------------------------------
# R4 layout
# ---------------------------------------------------------------------------
SYN = {"X": "S", "Y": "I", "Z": "R"}


def stem(name):
    s = name
    s = re.sub(r"^d(?=[A-Z]|theta|Theta|phi)", "", s)
    s = re.sub(r"(_?dt|dot)$", "", s)
    s = re.sub(r"0$", "", s)
    s = s.replace("_", "")
    if re.fullmatch(r"[A-Z]s", s):
        s = s[0]
    if s.lower() == "theta":
        s = "theta"
    if s in SYN:
        s = SYN[s]
    return s


def _size_env(fnode):
    """Names bound exactly once in the function to an arithmetic expression (pair_count = kcount**2): index
    expressions are evaluated through them."""
    seen = {}
    for n in own_nodes(fnode):
        for t in (n.targets if isinstance(n, ast.Assign) else [n.target] if isinstance(n, (ast.AugAssign, ast.AnnAssign, ast.For)) else []):
            for x in ast.walk(t):
                if isinstance(x, ast.Name):
                    seen.setdefault(x.id, []).append(n)
    return {k: v[0].value for k, v in seen.items()
            if len(v) == 1 and isinstance(v[0], ast.Assign) and isinstance(v[0].targets[0], ast.Name)
            and isinstance(v[0].value, (ast.BinOp, ast.UnaryOp, ast.Constant))}


def _num(e, sub=3, env=None, depth=0):
    """Evaluate an index expression with every size symbol := sub."""
    class V(ast.NodeTransformer):
        def visit_Name(self, n):
            if env and n.id in env and depth < 4:
                v = _num(env[n.id], sub, env, depth + 1)
                if v is not None:
                    return ast.copy_location(ast.Constant(v), n)
            return ast.copy_location(ast.Constant(sub), n)

        def visit_Call(self, n):
            return ast.copy_location(ast.Constant(sub), n)

        def visit_Subscript(self, n):
            return ast.copy_location(ast.Constant(sub), n)

        def visit_Attribute(self, n):
            return ast.copy_location(ast.Constant(sub), n)
    try:
        t = ast.Expression(V().visit(ast.parse(ast.unparse(e), mode="eval").body))
        ast.fix_missing_locations(t)
        return eval(compile(t, "<idx>", "eval"), {"__builtins__": {}})
    except Exception:
        return None


_NUM = _num


def _unpack_layout(fnode, vec, transposed):
    """Reads of `vec` (or `vec.T`): list of (stem, (tail?, start, stop|None), node)."""
    out = []
    base = "%s.T" % vec if transposed else vec
    env = _size_env(fnode)
    _num = functools.partial(_NUM, env=env)
    for n in own_nodes(fnode):
        if not isinstance(n, ast.Assign) or len(n.targets) != 1:
            continue
        tg, val = n.targets[0], n.value
        # np.array(X[a:b]) wrappers
        if isinstance(val, ast.Call) and _k(val.func) in ("np.array", "numpy.array") and len(val.args) == 1:
            val = val.args[0]
        if _k(val) == base and isinstance(tg, ast.Tuple):
            for i, e in enumerate(tg.elts):
                if isinstance(e, ast.Name):
                    out.append((stem(e.id), (0, i, i + 1), n, e.id))
            continue
        if isinstance(val, ast.Subscript) and _k(val.value) == base:
            sl = val.slice
            if isinstance(sl, ast.Slice):
                lo = _num(sl.lower) if sl.lower is not None else 0
                hi = _num(sl.upper) if sl.upper is not None else None
                if lo is None:
                    continue
                tail = 1 if (lo < 0) else 0
                if isinstance(tg, ast.Tuple):
                    for i, e in enumerate(tg.elts):
                        if isinstance(e, ast.Name):
                            out.append((stem(e.id), (tail, lo + i, lo + i + 1), n, e.id))
                elif isinstance(tg, ast.Name):
                    if hi is not None and hi < 0 and lo >= 0:
                        hi = ("end", hi)
                    out.append((stem(tg.id), (tail, lo, hi), n, tg.id))
            else:
                i = _num(sl)
                if i is not None and isinstance(tg, ast.Name) and not names_in(sl):
                    out.append((stem(tg.id), (1 if i < 0 else 0, i, i + 1), n, tg.id))
    return out


def _pack_layout(e, env, depth=0):
    """Ordered stems of a packed vector expression."""
    if depth > 4:
        return None
    if isinstance(e, ast.Name):
        vals = env.get(e.id, [])
        if len(vals) == 1 and isinstance(vals[0], (ast.Call, ast.List, ast.Subscript, ast.Attribute)):
            r = _pack_layout(vals[0], env, depth + 1)
            if r is not None:
                return r
        return [stem(e.id)]
    if isinstance(e, ast.Subscript):       # x[:,None], x.T[0]
        return _pack_layout(e.value, env, depth)
    if isinstance(e, ast.Attribute) and e.attr == "T":
        return _pack_layout(e.value, env, depth)
    if isinstance(e, (ast.List, ast.Tuple)):
        out = []
        for x in e.elts:
            r = _pack_layout(x, env, depth + 1) if not isinstance(x, ast.Constant) else ["*"]
            if r is None:
                return None
            out += r
        return out
    if isinstance(e, ast.Constant):
        return ["*"]
    if isinstance(e, ast.Call):
        f = _k(e.func)
        if f in ("np.array", "numpy.array") and e.args and isinstance(e.args[0], (ast.List, ast.Tuple)):
            return _pack_layout(e.args[0], env, depth + 1)
        if f in ("np.concatenate", "numpy.concatenate") and e.args and isinstance(e.args[0], (ast.List, ast.Tuple)):
            return _pack_layout(e.args[0], env, depth + 1)
    return None


def r4(repo, rep):
    rep.rule("R4", "state-vector layout agreement per (solver, right-hand side) pair: the initial vector, the unpacking at the top "
                   "of the right-hand side, the vector it returns and the solver's unpacking of the solution list the same "
                   "components in the same order and at the same offsets (names compared after stem normalisation; only "
                   "swapped/misaligned known components are reported)")
    pairs = 0
    for s in ode_sites(repo):
        f, g = s.caller, s.callee
        if not in_scope(f):
            continue
        pairs += 1
        rep.analysed(f); rep.analysed(g)
        inst = "%s / %s" % (f.name, g.name)
        if g.name == "_dEBCM_pref_mix_":
            _r4_pref_mix(rep, f, g, s)
            continue
        xin = g.params[0]
        rhs_un = _unpack_layout(g.node, xin, False)
        ref = sorted(rhs_un, key=lambda t: (t[1][0], t[1][1]))
        ref_stems = [t[0] for t in ref]
        if not ref:
            # the whole state is one component used as it comes (no unpacking): nothing to misalign
            x0 = s.node.args[1]
            single = isinstance(x0, ast.Name)
            rep.ob("R4", single, "%s: single-component state, used whole" % inst, func=g, node=g.node,
                   construct="%s: no unpacking, initial vector %s" % (g.name, _k(x0)),
                   detail="" if single else "right-hand side does not unpack its state but the initial vector is assembled from parts")
            continue
        rep.ob("R4", True, "%s: right-hand side unpacks its state" % inst, func=g, node=g.node,
               construct="%s unpack %s" % (g.name, [(t[0], t[1]) for t in ref]))
        # (iii) returned derivative vector
        genv = _env_of(g)
        rets = [x for x in own_nodes(g.node) if isinstance(x, ast.Return)]
        if len(rets) == 1:
            lay = _pack_layout(rets[0].value, genv)
            _compare(rep, g, rets[0], inst + ": derivative vector vs state unpacking", ref_stems, lay, full=True)
        # (i) initial vector
        fenv = _env_of(f)
        x0 = s.node.args[1]
        lay0 = _pack_layout(x0, fenv)
        _compare(rep, f, s.node, inst + ": initial vector vs state unpacking", ref_stems, lay0, full=True)
        # (iv) solver unpacks the solution
        out = None
        for x in own_nodes(f.node):
            if isinstance(x, ast.Assign) and x.value is s.node and isinstance(x.targets[0], ast.Name):
                out = x.targets[0].id
        if out is None:
            continue
        sol = _unpack_layout(f.node, out, True)
        refmap = {t[0]: t[1] for t in ref}
        for st_, pos, node, raw in sol:
            if st_ in refmap:
                ok = _pos_equal(refmap[st_], pos)
                rep.ob("R4", ok, "%s: solver reads `%s` where the right-hand side keeps it" % (inst, raw), func=f, node=node,
                       construct="%s: %s at %s, rhs has %s at %s" % (f.name, raw, pos, st_, refmap[st_]),
                       detail="" if ok else "solution component `%s` is read from offset %s but the right-hand side stores %s at %s" % (raw, pos, st_, refmap[st_]))
            else:
                # unknown name: is the offset that of a differently named known component while its own name exists elsewhere?
                rep.ob("R4", True, "%s: solver reads `%s` (no same-named component on the right-hand side; not compared)" % (inst, raw),
                       func=f, node=node, construct="%s: %s at %s (uncompared)" % (f.name, raw, pos))
        # relative order of the known ones
        known = [(st_, pos) for st_, pos, _, _ in sol if st_ in refmap]
        order_sol = [x[0] for x in sorted(known, key=lambda t: (t[1][0], t[1][1]))]
        order_ref = [x for x in ref_stems if x in order_sol]
        ok = order_sol == order_ref
        rep.ob("R4", ok, "%s: solution is unpacked in the order it was packed" % inst, func=f, node=f.node,
               construct="%s order %s vs rhs %s" % (f.name, order_sol, order_ref),
               detail="" if ok else "solver unpacks %s, right-hand side order is %s" % (order_sol, order_ref))
    rep.floor("R4", "solver / right-hand-side pairs", pairs, 19)


def _pos_equal(a, b):
    return a[0] == b[0] and a[1] == b[1] and (a[2] == b[2] or a[2] is None or b[2] is None)


def _compare(rep, f, node, inst, ref, lay, full):
    if lay is None:
        rep.ob("R4", True, inst + " (layout not recognised; not compared)", func=f, node=node, construct=inst + ": unrecognised")
        return
    # crossing: a known stem at another ordinal position
    ok = True
    det = ""
    if len(lay) == len(ref):
        for i, (a, b) in enumerate(zip(ref, lay)):
            if a == b or b == "*" or a == "*":
                continue
            if b in ref and ref.index(b) != i:
                ok = False
                det = "position %d holds `%s` in one and `%s` in the other" % (i, a, b)
    else:
        common_ref = [x for x in ref if x in lay]
        common_lay = [x for x in lay if x in ref]
        if common_ref != common_lay:
            ok = False
            det = "relative order differs: %s vs %s" % (common_ref, common_lay)
    rep.ob("R4", ok, inst, func=f, node=node, construct="%s: %s vs %s" % (inst.split(":")[-1].strip(), lay, ref), detail=det)


def _r4_pref_mix(rep, f, g, s):
    """Vector assembled in a loop: R then (theta_k, phiR_k) pairs -- compared through the index arithmetic."""
    def reads(fn, base):
        out = {}
        for n in ast.walk(fn.node):
            if isinstance(n, ast.Assign) and isinstance(n.value, ast.Subscript) and _k(n.value.value) == base \
                    and isinstance(n.targets[0], ast.Subscript):
                out.setdefault(_k(n.targets[0].value), []).append(_k(n.value.slice))
            if isinstance(n, ast.Assign) and isinstance(n.value, ast.Subscript) and _k(n.value.value) == base \
                    and isinstance(n.targets[0], ast.Name):
                out.setdefault(n.targets[0].id, []).append(_k(n.value.slice))
        return out
    r1 = reads(g, g.params[0])
    out = None
    for x in own_nodes(f.node):
        if isinstance(x, ast.Assign) and x.value is s.node and isinstance(x.targets[0], ast.Name):
            out = x.targets[0].id
    r2 = reads(f, "%s.T" % out)
    # only names that reach a return are compared (phiR is re-read but never used in the solver)
    live = set()
    for r in [x for x in own_nodes(f.node) if isinstance(x, ast.Return)]:
        live |= names_in(r.value)
    env = _env_of(f)
    changed = True
    while changed:
        changed = False
        for nm in list(live):
            for v in env.get(nm, []):
                for m in names_in(v):
                    if m not in live:
                        live.add(m); changed = True
    for nm, idx in r2.items():
        if nm not in live and nm not in ("R",):
            rep.note("R4: %s re-reads `%s` at %s but never uses it (dead)" % (f.name, nm, idx))
            continue
        ok = r1.get(nm) == idx
        rep.ob("R4", ok, "%s / %s: `%s` is read from the same offsets on both sides" % (f.name, g.name, nm), func=f, node=f.node,
               construct="%s at %s vs rhs %s" % (nm, idx, r1.get(nm)), detail="" if ok else "offsets of %s differ: %s vs %s" % (nm, idx, r1.get(nm)))
    # layout: 1 leading slot (R) then one (theta_k, phiR_k) pair per degree, degrees in ONE deterministic order on both sides
    def order_of(fn, e, depth=0):
        if isinstance(e, ast.Call) and _k(e.func) == "enumerate" and e.args:
            return order_of(fn, e.args[0], depth)
        if isinstance(e, ast.Name) and depth < 4:
            vals = _env_of(fn).get(e.id, [])
            if len(vals) == 1:
                return order_of(fn, vals[0], depth + 1)
            return "other"
        if isinstance(e, ast.Call) and _k(e.func) == "sorted" and e.args and "Pk" in names_in(e.args[0]):
            return "sorted"
        if "Pk" in names_in(e):
            return "dict order"
        return "other"

    def layout_loops(fn, vec_names, build_names):
        out = []
        for n in own_nodes(fn.node):
            if not isinstance(n, ast.For):
                continue
            reads = any(isinstance(x, ast.Subscript) and isinstance(x.ctx, ast.Load) and _k(x.value) in vec_names for x in ast.walk(n))
            builds = [x for x in ast.walk(n) if isinstance(x, ast.Call) and isinstance(x.func, ast.Attribute)
                      and x.func.attr in ("extend", "append") and _k(x.func.value) in build_names]
            if reads or builds:
                out.append((n, builds))
        return out

    rets = [x for x in own_nodes(g.node) if isinstance(x, ast.Return)]
    built_g = set()
    for r in rets:
        built_g |= names_in(r.value)
    built_g &= {n.targets[0].id for n in own_nodes(g.node) if isinstance(n, ast.Assign) and isinstance(n.targets[0], ast.Name)
                and isinstance(n.value, ast.List)}
    ic = s.node.args[1] if len(s.node.args) > 1 else None
    built_f = {ic.id} if isinstance(ic, ast.Name) else set()
    loops = [(g, l, b) for l, b in layout_loops(g, {g.params[0]}, built_g)] + \
            [(f, l, b) for l, b in layout_loops(f, {"%s.T" % out, out or ""}, built_f)]
    rep.floor("R4", "layout loops of the preferential-mixing EBCM (unpack, derivative, initial vector, read-back)", len(loops), 4)
    rep.rule("R4o", "every loop that fixes the position of a degree class in the packed state vector (build, unpack, derivative, "
                    "read-back) runs over the degrees in one and the same order (all sorted, or all the order of the same dict)")
    orders = [order_of(fn, l.iter) for fn, l, b in loops]
    ref_order = None
    for (fn, l, b), o in zip(loops, orders):
        if fn is f and b:
            ref_order = o            # the loop that builds the initial vector fixes the layout
    for (fn, l, b), o in zip(loops, orders):
        ok = o == ref_order and o in ("sorted", "dict order")
        rep.ob("R4o", ok, "%s: the loop that lays out / reads the state vector runs over the degrees in the order the initial vector was built in" % fn.name,
               func=fn, node=l, construct="layout loop over %s: %s (initial vector: %s)" % (short(l.iter, 40), o, ref_order),
               detail="" if ok else "the vector layout follows %s of Pk here while the initial vector is built over %s: components are "
               "attributed to the wrong degree class whenever the two orders differ" % (o, ref_order))
    # shape of the vector: one leading component, then pairs (theta, phiR)
    for fn, names, what in ((g, built_g, "derivative"), (f, built_f, "initial")):
        inits = [n for n in own_nodes(fn.node) if isinstance(n, ast.Assign) and isinstance(n.targets[0], ast.Name)
                 and n.targets[0].id in names and isinstance(n.value, ast.List)]
        exts = [x for x in own_nodes(fn.node) if isinstance(x, ast.Call) and isinstance(x.func, ast.Attribute)
                and x.func.attr == "extend" and _k(x.func.value) in names]
        ok = len(inits) == 1 and len(inits[0].value.elts) == 1 and len(exts) == 1 and exts[0].args \
            and isinstance(exts[0].args[0], (ast.List, ast.Tuple)) and len(exts[0].args[0].elts) == 2
        if ok and fn is g:
            a, b2 = exts[0].args[0].elts
            ok = "theta" in _k(a) and "phiR" in _k(b2)
        rep.ob("R4", ok, "%s: %s vector is one leading component then a (theta_k, phiR_k) pair per degree, as it is read" % (fn.name, what),
               func=fn, node=exts[0] if exts else fn.node, construct="pref_mix %s assembly" % what,
               detail="" if ok else "assembly of the %s vector no longer matches the offsets 1+2*index / 2+2*index used to read it" % what)


# ---------------------------------------------------------------------------
# R6 node / position kinds
# ---------------------------------------------------------------------------
MAP_NAMES = {"status", "rec_time", "pred_inf_time", "IC", "xi", "zeta", "node_history", "infection_times",
             "recovery_times", "susceptible", "infector", "index_of_node", "pos", "Pk", "Pnk", "Nk_counter",
             "trans_delay", "trans_delays", "get_weight", "potential_transitions", "rate", "data", "delta",
             "theta", "phiR", "phiS", "phiI", "newtheta", "color_dict", "leafpos", "rootpos", "weight", "item_to_position"}
NODE_MAPS = {"status", "index_of_node", "rec_time", "pred_inf_time", "susceptible", "infector", "node_history",
             "infection_times", "recovery_times", "IC", "xi", "zeta"}
NODE_ITERS = re.compile(r"^(G|H|nodelist|G\.nodes\(\)|G\.nodes|H\.nodes\(\)|initial_infecteds|initial_recovereds|"
                        r"G\.neighbors\(.*\)|G\.predecessors\(.*\)|G\.successors\(.*\)|infecteds|new_infecteds|"
                        r"sus_neighbors|suscep_neighbors|neighbors|influence_set|transmission_recipients|source_nodes|target_nodes)$")
EDGE_ITERS = re.compile(r"^(G\.edges\(\)|G\.edges|H\.edges\(\)|edges|edgelist)$")


def _kinds(fnode, params):
    """name -> kind in {'NODE','POS','MAP','DEG'} (flow-insensitive)."""
    kind = {}
    for p in params:
        if p in MAP_NAMES:
            kind[p] = "MAP"
        if p in ("node", "u", "v", "source", "target", "nbr"):
            kind[p] = "NODE"

    def bind_target(t, k):
        if isinstance(t, ast.Name):
            kind.setdefault(t.id, k)
        elif isinstance(t, (ast.Tuple, ast.List)):
            for e in t.elts:
                bind_target(e, k)

    for n in ast.walk(fnode):
        if isinstance(n, (ast.For, ast.comprehension)):
            it = _k(n.iter)
            if NODE_ITERS.match(it):
                bind_target(n.target, "NODE")
            elif EDGE_ITERS.match(it):
                bind_target(n.target, "NODE")
            elif isinstance(n.iter, ast.Call) and _k(n.iter.func) == "enumerate" and n.iter.args:
                inner = n.iter.args[0]
                if isinstance(n.target, ast.Tuple) and len(n.target.elts) == 2:
                    bind_target(n.target.elts[0], "POS")
                    ii = _k(inner)
                    if NODE_ITERS.match(ii) or EDGE_ITERS.match(ii):
                        bind_target(n.target.elts[1], "NODE")
                    elif isinstance(inner, ast.Call) and _k(inner.func) == "zip" and inner.args and NODE_ITERS.match(_k(inner.args[0])):
                        if isinstance(n.target.elts[1], ast.Tuple):
                            bind_target(n.target.elts[1].elts[0], "NODE")
            elif isinstance(n.iter, ast.Call) and _k(n.iter.func) == "range":
                bind_target(n.target, "POS")
            elif it.endswith(".items()") and isinstance(n.target, ast.Tuple) and it.split(".")[0] in MAP_NAMES | set(
                    k for k, v in kind.items() if v == "MAP"):
                bind_target(n.target.elts[0], "NODE")
        if isinstance(n, ast.Assign) and len(n.targets) == 1 and isinstance(n.targets[0], ast.Name):
            v = n.value
            nm = n.targets[0].id
            if isinstance(v, (ast.Dict, ast.DictComp)) or (isinstance(v, ast.Call) and _k(v.func) in (
                    "dict", "defaultdict", "Counter", "nx.get_node_attributes", "nx.get_edge_attributes", "_initialize_node_status_")):
                kind[nm] = "MAP"
            elif isinstance(v, ast.Subscript) and isinstance(v.value, ast.Name) and v.value.id == "index_of_node":
                kind[nm] = "POS"
            elif isinstance(v, ast.Call) and _k(v.func).endswith(".degree") and len(v.args) == 1:
                kind[nm] = "DEG"
            elif isinstance(v, ast.Call) and _k(v.func) in ("random.choice",) and v.args and NODE_ITERS.match(_k(v.args[0]).replace("list(", "").rstrip(")")):
                kind[nm] = "NODE"
    return kind


def r6(repo, rep, modules=("analytic", "simulation")):
    rep.rule("R6", "node/position kind discipline: a value known to be a node (loop variable over G, nodelist, neighbours, edges, "
                   "initial sets) never subscripts anything that is not a node-keyed map (dict/defaultdict/graph view); a position "
                   "(enumerate index, index_of_node[.]) never subscripts a node-keyed map; adjacency matrices are built in nodelist "
                   "order wherever a nodelist is in scope")
    nsub = 0
    for f in repo.all_funcs():
        if f.module not in modules or not in_scope(f) or f.parent is not None:
            continue
        if f.cls in ("_ListDict_", "myQueue"):
            continue
        rep.analysed(f)
        kind = _kinds(f.node, f.all_params)
        bad = 0
        for n in ast.walk(f.node):
            if isinstance(n, ast.Subscript):
                base = n.value
                # what subscripts
                idx = n.slice
                idx_kinds = set()
                for m in ast.walk(idx):
                    if isinstance(m, ast.Name) and m.id in kind:
                        # a node used inside a call such as index_of_node[node] is fine: only direct use counts
                        idx_kinds.add((m.id, kind[m.id]))
                direct = []
                cands = [idx] + (list(idx.elts) if isinstance(idx, ast.Tuple) else [])
                for c in cands:
                    if isinstance(c, ast.Name) and c.id in kind:
                        direct.append((c.id, kind[c.id]))
                    # list(initial_recovereds) etc. used as a fancy index
                    if isinstance(c, ast.Call) and _k(c.func) in ("list", "np.array", "tuple", "sorted") and c.args \
                            and _k(c.args[0]) in ("initial_infecteds", "initial_recovereds", "nodelist", "G", "G.nodes()"):
                        direct.append((_k(c.args[0]), "NODES"))
                if not direct:
                    continue
                nsub += 1
                bname = base.id if isinstance(base, ast.Name) else None
                chain = attr_chain(base) or ""
                # graph views and attribute access on graphs / self are node keyed
                base_is_map = (bname in kind and kind[bname] == "MAP") or bname in MAP_NAMES or \
                    chain.split(".")[0] in ("G", "H", "self") and "." in chain or \
                    isinstance(base, ast.Subscript) and _base_is_map(base, kind) or \
                    (isinstance(base, ast.Call) and _k(base.func).split(".")[0] in ("G", "H", "nx")) or \
                    (isinstance(base, ast.Attribute))
                for nm, kd in direct:
                    if kd in ("NODE", "NODES") and not base_is_map:
                        bad += 1
                        rep.ob("R6", False, "%s: `%s` is indexed by node `%s`" % (f.qual, _k(base), nm), func=f, node=n,
                               detail="`%s[%s]`: a node label is used as a position in a sequence/array; only works when the nodes "
                               "are 0..N-1 in that order" % (_k(base), _k(idx)), construct="%s[%s] with %s:%s" % (_k(base), _k(idx), nm, kd))
                    if kd == "POS" and bname in NODE_MAPS:
                        bad += 1
                        rep.ob("R6", False, "%s: node-keyed map `%s` is indexed by position `%s`" % (f.qual, bname, nm), func=f, node=n,
                               detail="`%s[%s]`: a position is used where a node is expected" % (_k(base), _k(idx)),
                               construct="%s[%s] with %s:%s" % (_k(base), _k(idx), nm, kd))
        if not bad:
            rep.ob("R6", True, "%s: no array indexed by a node, no node map indexed by a position" % f.qual, func=f, construct="%s clean" % f.name)
        # adjacency in graph order while a nodelist is in scope
        if "nodelist" in f.all_params or "nodelist" in {x.id for x in ast.walk(f.node) if isinstance(x, ast.Name)}:
            for n in ast.walk(f.node):
                if isinstance(n, ast.Call) and _k(n.func) in ("nx.adjacency_matrix", "nx.to_numpy_array", "nx.to_numpy_matrix",
                                                             "nx.to_scipy_sparse_array", "nx.to_scipy_sparse_matrix"):
                    kw = {k.arg: k.value for k in n.keywords}
                    nl = kw.get("nodelist") or (n.args[1] if len(n.args) > 1 else None)
                    ok = nl is not None and "nodelist" in names_in(nl)
                    rep.ob("R6", ok, "%s: adjacency matrix is ordered by nodelist" % f.qual, func=f, node=n,
                           construct="%s" % _k(n), detail="" if ok else "matrix is in G's own node order while the arrays of the system follow `nodelist`")
    rep.floor("R6", "subscripts by node/position examined", nsub, 60)


def _base_is_map(base, kind):
    b = base
    while isinstance(b, ast.Subscript):
        b = b.value
    if isinstance(b, ast.Name):
        return (b.id in kind and kind[b.id] == "MAP") or b.id in MAP_NAMES
    ch = attr_chain(b) or ""
    return ch.split(".")[0] in ("G", "H", "self") and "." in ch


# ---------------------------------------------------------------------------
# degree-class role agreement in the IC helpers
# ---------------------------------------------------------------------------
def degree_roles(repo, rep):
    rep.rule("ROLE", "degree-class initial conditions: an edge (u,v) with u in status A and v in status B is counted in the array "
                     "named [A_k B_l] at row degree(u)-class and column degree(v)-class (and symmetrically), and pair counters "
                     "SS/SI/II follow the statuses tested")
    f = repo.f("_get_NkNl_and_IC_as_arrays_")
    rep.analysed(f)
    n = 0
    for c in walk_function(f.node):
        st = c.stmt
        if not (isinstance(st, ast.AugAssign) and isinstance(st.target, ast.Subscript) and isinstance(st.target.value, ast.Subscript)):
            continue
        arr = _k(st.target.value.value)
        m = re.fullmatch(r"([SIR])k([SIR])l0", arr)
        if not m:
            continue
        n += 1
        row, col = st.target.value.slice, st.target.slice

        def degvar(e):
            # Ks.index(k) -> k ; k
            if isinstance(e, ast.Call) and _k(e.func) == "Ks.index":
                e = e.args[0]
            return _k(e)
        env = {}
        for lp in c.loops:
            for b in lp.body:
                if isinstance(b, ast.Assign) and isinstance(b.value, ast.Call) and _k(b.value.func) == "G.degree":
                    env[_k(b.targets[0])] = _k(b.value.args[0])
        rnode, cnode = env.get(degvar(row)), env.get(degvar(col))
        facts = {}
        for fx, pol in c.facts:
            mm = re.fullmatch(r"status\[(\w+)\]=='([SIR])'", _k(fx))
            if mm and pol:
                facts[mm.group(1)] = mm.group(2)
        ok = rnode in facts and cnode in facts and (facts[rnode], facts[cnode]) == (m.group(1), m.group(2))
        rep.ob("ROLE", ok, "_get_NkNl_and_IC_as_arrays_: %s[deg(%s)][deg(%s)] counted for statuses (%s, %s)" % (
            arr, rnode, cnode, facts.get(rnode), facts.get(cnode)), func=f, node=st,
            construct="%s[%s][%s] under %s" % (arr, degvar(row), degvar(col), sorted(facts.items())),
            detail="" if ok else "row/column degree classes do not belong to the nodes whose statuses name the array")
    rep.floor("ROLE", "degree-class pair counters", n, 6)
    f = repo.f("_count_edge_types_")
    rep.analysed(f)
    n = 0
    table = _edge_case_table(f.node)
    if table is not None:
        # decided by cases: the loop body evaluated for each of the 9 status pairs of an edge's ends
        want = {("S", "S"): {"SS0": 2}, ("S", "I"): {"SI0": 1}, ("I", "S"): {"SI0": 1}, ("I", "I"): {"II0": 2}}
        loop = table.pop("loop")
        for pair in sorted(table):
            got = {k: v for k, v in table[pair].items() if v}
            exp = want.get(pair, {})
            n += 1 if exp else 0
            rep.ob("ROLE", got == exp, "_count_edge_types_: an edge with end statuses %s adds %s" % (pair, exp or "nothing"),
                   func=f, node=loop, construct="edge %s -> %s" % (pair, sorted(got.items())),
                   detail="" if got == exp else "an edge whose ends are %s adds %s to the pair counts, expected %s (same-status pairs "
                   "count twice, S-I once, recovered ends never)" % (pair, got, exp))
    for c in ([] if table is not None else walk_function(f.node)):
        st = c.stmt
        if isinstance(st, ast.AugAssign) and _k(st.target) in ("SS0", "SI0", "II0"):
            n += 1
            facts = {}
            for fx, pol in c.facts:
                mm = re.fullmatch(r"status\[(\w+)\]=='([SIR])'", _k(fx))
                if mm and pol:
                    facts[mm.group(1)] = mm.group(2)
            have = "".join(sorted(facts.values(), reverse=True))
            want = _k(st.target)[:2]
            okp = have == "".join(sorted(want, reverse=True)) and len(facts) == 2
            inc = _k(st.value)
            oki = inc == ("2" if want[0] == want[1] else "1")
            rep.ob("ROLE", okp and oki, "_count_edge_types_: %s += %s for an edge with statuses %s" % (_k(st.target), inc, sorted(facts.values())),
                   func=f, node=st, construct="%s += %s under %s" % (_k(st.target), inc, sorted(facts.items())),
                   detail="" if (okp and oki) else "pair counter does not match the statuses tested (same-status pairs count twice, S-I once)")
    rep.floor("ROLE", "edge-type counters", n, 4)
    # _get_Nk_and_IC_as_arrays_: node counted in the class array of its own status and degree
    f = repo.f("_get_Nk_and_IC_as_arrays_")
    rep.analysed(f)
    env1 = {k: v[0] for k, v in _env_of(f).items() if len(v) == 1}
    degdicts = {k for k, v in env1.items() if _k(v) == "dict(G.degree())"}
    # dispatch tables {'S': Sk0, ...} (values: the class arrays, or fresh arrays later read back as Xk0 = T['X'])
    tables = {}
    for nm, v in env1.items():
        if isinstance(v, ast.Dict) and v.keys and all(isinstance(k, ast.Constant) and isinstance(k.value, str) for k in v.keys):
            ent = {}
            for k, val in zip(v.keys, v.values):
                if isinstance(val, ast.Name) and re.fullmatch(r"[SIR]k0", val.id):
                    ent[k.value] = val.id[0]
            for x in own_nodes(f.node):
                if isinstance(x, ast.Assign) and isinstance(x.targets[0], ast.Name) and re.fullmatch(r"[SIR]k0", x.targets[0].id) \
                        and isinstance(x.value, ast.Subscript) and _k(x.value.value) == nm and isinstance(x.value.slice, ast.Constant):
                    ent.setdefault(x.value.slice.value, x.targets[0].id[0])
            if len(ent) == len(v.keys):
                tables[nm] = ent

    def degree_of(kexpr, c):
        """the node whose degree `kexpr` is, at statement context c (None when it is not recognisably a degree of a loop node)"""
        def direct(e):
            if isinstance(e, ast.Call) and _k(e.func) == "G.degree" and len(e.args) == 1:
                return _k(e.args[0])
            if isinstance(e, ast.Subscript) and _k(e.value) in degdicts:
                return _k(e.slice)
            return None
        d = direct(kexpr)
        if d:
            return d
        if isinstance(kexpr, ast.Name):
            for lp in c.loops:
                for b in lp.body:
                    if isinstance(b, ast.Assign) and _k(b.targets[0]) == kexpr.id:
                        d = direct(b.value)
                        if d:
                            return d
                if isinstance(lp, ast.For) and isinstance(lp.target, ast.Tuple) and len(lp.target.elts) == 2 and _k(lp.target.elts[1]) == kexpr.id:
                    it = _k(lp.iter)
                    if it == "G.degree()" or any(it == "%s.items()" % dd for dd in degdicts):
                        return _k(lp.target.elts[0])
        return None
    covered = {}
    for c in walk_function(f.node):
        st = c.stmt
        if not (isinstance(st, ast.AugAssign) and isinstance(st.op, ast.Add) and isinstance(st.target, ast.Subscript)):
            continue
        tgt = st.target
        facts = {("%s" if pol else "not(%s)") % _k(fx) for fx, pol in c.facts}
        if isinstance(tgt.value, ast.Name) and re.fullmatch(r"[SIR]k0", tgt.value.id):
            letter = tgt.value.id[0]
            node = degree_of(tgt.slice, c)
            if letter in ("S", "I"):
                ok = node is not None and "status[%s]=='%s'" % (node, letter) in facts
            else:
                ok = node is not None and (("not(status[%s]=='S')" % node in facts and "not(status[%s]=='I')" % node in facts)
                                           or "status[%s]=='R'" % node in facts)
            ok = ok and _k(st.value) == "1"
            covered.setdefault(letter, []).append((ok, st, node))
        elif isinstance(tgt.value, ast.Subscript) and isinstance(tgt.value.value, ast.Name) and tgt.value.value.id in tables:
            ent = tables[tgt.value.value.id]
            node = degree_of(tgt.slice, c)
            sel = _k(tgt.value.slice)
            for key, letter in ent.items():
                ok = node is not None and sel == "status[%s]" % node and key == letter and _k(st.value) == "1"
                covered.setdefault(letter, []).append((ok, st, node))
    n = 0
    for letter in "SIR":
        for ok, st, node in covered.get(letter, []):
            n += 1
            rep.ob("ROLE", ok, "_get_Nk_and_IC_as_arrays_: a node of status %s and degree k adds 1 to %sk0[k]" % (letter, letter), func=f, node=st,
                   construct="%s += %s for node %s (class %s)" % (_k(st.target), _k(st.value), node, letter),
                   detail="" if ok else "class counter does not follow the node's own status/degree")
    if n < 3:
        rep.ob("ROLE", False, "_get_Nk_and_IC_as_arrays_: every node of G is counted in the class array of its own status", func=f, node=f.node,
               construct="node counters %d" % n,
               detail="Sk0/Ik0/Rk0 are no longer filled by `for node in G.nodes(): <class of status[node]>[G.degree(node)] += 1` "
               "(%d such counters found): counts taken from the raw argument collections count a repeated node twice" % n)
    # the class index sets cover every degree present in G
    for g in (repo.f("_get_Nk_and_IC_as_arrays_"), repo.f("_get_NkNl_and_IC_as_arrays_")):
        for x in own_nodes(g.node):
            if isinstance(x, ast.Assign) and _k(x.targets[0]) in ("Ks", "maxk", "klength") and "degree" in _k(x.value) + str(
                    [_k(v) for v in _env_of(g).get("Nk", [])]):
                v = x.value
                filt = [m for m in ast.walk(v) if isinstance(m, ast.comprehension) and m.ifs] or \
                    [m for m in ast.walk(v) if isinstance(m, ast.Call) and _k(m.func) == "filter"]
                def expanded(e, depth=0):
                    t = _k(e)
                    if depth > 4:
                        return t
                    for nm2, vals in _env_of(g).items():
                        if len(vals) >= 1 and re.search(r"\b%s\b" % re.escape(nm2), t) and nm2 != _k(x.targets[0]):
                            t = re.sub(r"\b%s\b" % re.escape(nm2), "(" + _k(vals[0]) + ")", t)
                    return t if t == _k(e) else expanded(ast.parse(t, mode="eval").body, depth + 1) if _parses(t) else t
                ex = expanded(v)
                alldeg = "dict(G.degree())" in ex and ".values()" in ex or "Nk.keys()" in _k(v)
                ok = alldeg and not filt
                rep.ob("ROLE", ok, "%s: degree classes `%s` range over every degree present in G" % (g.name, _k(x.targets[0])), func=g, node=x,
                       construct="%s = %s" % (_k(x.targets[0]), _k(v)),
                       detail="" if ok else "the degree-class index set leaves out some degrees (e.g. isolated nodes): those nodes drop out of the population")
    t = ast.unparse(f.node).replace(" ", "")
    ok = "Sk0=(1-rho)*Nk" in t and "Ik0=rho*Nk" in t and "Rk0=0*Nk" in t
    rep.ob("ROLE", ok, "_get_Nk_and_IC_as_arrays_: with rho the classes start at (1-rho)Nk, rho*Nk, 0", func=f, node=f.node,
           construct="rho initial classes", detail="" if ok else "rho initial condition changed")
    # the status map comes from the caller's sets: one entry per distinct node
    for g in (repo.f("_get_Nk_and_IC_as_arrays_"), repo.f("_get_NkNl_and_IC_as_arrays_")):
        calls = [x for x in ast.walk(g.node) if isinstance(x, ast.Call) and _k(x.func) == "_initialize_node_status_"]
        ok = len(calls) == 1 and [_k(a) for a in calls[0].args] == ["G", "initial_infecteds", "initial_recovereds"]
        rep.ob("ROLE", ok, "%s: statuses come from _initialize_node_status_(G, initial_infecteds, initial_recovereds)" % g.name, func=g,
               node=calls[0] if calls else g.node, construct="status source", detail="" if ok else "status map source changed")
        # counting loops range over the graph, not over the raw argument collections (duplicates would be counted twice)
        for lp in [x for x in ast.walk(g.node) if isinstance(x, ast.For)]:
            if any(isinstance(y, ast.AugAssign) and re.match(r"[SIR]k", _k(y.target)) for y in ast.walk(lp)):
                it = _k(lp.iter)
                ok = it in ("G.nodes()", "G", "G.edges()", "G.edges", "G.degree()") or \
                    any(_k(vv) == "dict(G.degree())" and it in (nm3, nm3 + ".items()", nm3 + ".keys()")
                        for nm3, vs in _env_of(g).items() for vv in vs)
                rep.ob("ROLE", ok, "%s: class counts are taken over the graph (%s)" % (g.name, it), func=g, node=lp,
                       construct="counting loop over %s" % it, detail="" if ok else "counts are accumulated over %s: a node listed twice is counted twice" % it)


def index_roles(repo, rep):
    """ROLE: (s, i) class arrays of the effective-degree models and outer products of the pair-based models."""
    rep.rule("ROLE", "S_si0[s][i]: s counts the susceptible and i the infected neighbours of the node (in SIR models by counting "
                     "status == 'I', because degree - s also contains recovered neighbours); XY0 = X0[:,None]*Y0[None,:] "
                     "(row factor is the first letter, column factor the second)")
    for name, sir in (("SIS_effective_degree_from_graph", False), ("SIR_effective_degree_from_graph", True)):
        f = repo.f(name)
        rep.analysed(f)
        n = 0
        for c in walk_function(f.node):
            st = c.stmt
            if isinstance(st, ast.AugAssign) and isinstance(st.target, ast.Subscript) and isinstance(st.target.value, ast.Subscript) \
                    and _k(st.target.value.value) in ("S_si0", "I_si0") and c.loops and isinstance(c.loops[-1], ast.For) \
                    and _k(c.loops[-1].iter) in ("G.nodes()", "G"):
                n += 1
                node = _k(c.loops[-1].target)
                a, b = _k(st.target.value.slice), _k(st.target.slice)
                env = {}
                for x in c.loops[-1].body:
                    if isinstance(x, ast.Assign) and isinstance(x.targets[0], ast.Name):
                        env[x.targets[0].id] = _k(x.value)

                def count_of(letter):
                    return "sum((1fornbrinG.neighbors(%s)ifstatus[nbr]=='%s'))" % (node, letter)
                oka = env.get(a) == count_of("S")
                okb = env.get(b) == count_of("I") or ((not sir) and env.get(b) in ("G.degree(%s)-%s" % (node, a),))
                rep.ob("ROLE", oka and okb, "%s: %s[%s][%s] uses (#susceptible, #infected) neighbours of the node" % (name, _k(st.target.value.value), a, b),
                       func=f, node=st, construct="%s: %s=%s ; %s=%s" % (name, a, env.get(a), b, env.get(b)),
                       detail="" if (oka and okb) else "index %s or %s is not the count of susceptible resp. infected neighbours%s" % (
                           a, b, " (in an SIR model degree - s also counts recovered neighbours)" if sir else ""))
        rep.floor("ROLE", "%s class counters" % name, n, 1)
    for name in ("SIS_pair_based", "SIR_pair_based"):
        f = repo.f(name)
        rep.analysed(f)
        n = 0
        # variables of an inlined helper carry a prefix (__h1_XY0): the pair array they build is named by the rest; a factor
        # under such a name counts as the function's own X0 / Y0 only when it is nothing but a copy of it
        allasg = {}
        for x in own_nodes(f.node):
            if isinstance(x, ast.Assign) and len(x.targets) == 1 and isinstance(x.targets[0], ast.Name):
                allasg.setdefault(x.targets[0].id, []).append(_k(x.value))

        def own(nm):
            m_ = re.fullmatch(r"__h\d+_(\w+)", nm or "")
            if m_ and set(allasg.get(nm, [])) == {m_.group(1)}:
                return m_.group(1)
            if m_ and m_.group(1) not in params and len(set(allasg.get(m_.group(1), []))) == 1 \
                    and set(allasg.get(nm, [])) - {"None"} == set(allasg[m_.group(1)]):
                return m_.group(1)      # computed by the same expression as the function's own local of that name
            if m_ and m_.group(1) == "X0" and "X0" not in params and set(allasg.get(nm, [])) - {"None"} == {"1-Y0"} \
                    and set(allasg.get("X0", [])) <= {"1-Y0"}:
                return "X0"             # the SIS model has no third state: the susceptible vector IS 1 - Y0
            return nm
        params = {a.arg for a in f.node.args.posonlyargs + f.node.args.args + f.node.args.kwonlyargs}
        for x in own_nodes(f.node):
            if isinstance(x, ast.Assign) and re.fullmatch(r"(__h\d+_)?[XY][XY]0", _k(x.targets[0])) and isinstance(x.value, ast.BinOp) \
                    and isinstance(x.value.op, ast.Mult) and isinstance(x.value.left, ast.Subscript) and isinstance(x.value.right, ast.Subscript):
                n += 1
                tgt = re.sub(r"^__h\d+_", "", _k(x.targets[0]))
                parts = {}
                for side in (x.value.left, x.value.right):
                    sl = side.slice
                    role = "?"
                    if isinstance(sl, ast.Tuple) and len(sl.elts) == 2:
                        a0, a1 = sl.elts
                        if isinstance(a0, ast.Slice) and isinstance(a1, ast.Constant) and a1.value is None:
                            role = "row"
                        elif isinstance(a1, ast.Slice) and isinstance(a0, ast.Constant) and a0.value is None:
                            role = "col"
                    parts[role] = own(_k(side.value))
                ok = parts.get("row") == tgt[0] + "0" and parts.get("col") == tgt[1] + "0"
                rep.ob("ROLE", ok, "%s: %s[i,j] = <%s_i %s_j> (row factor %s0, column factor %s0)" % (name, tgt, tgt[0], tgt[1], tgt[0], tgt[1]),
                       func=f, node=x, construct="%s = %s" % (tgt, _k(x.value)),
                       detail="" if ok else "%s[i,j] is built from (%s, %s), not from the function's own %s0 and %s0 (transposed, or a "
                       "different susceptible / infected vector than the one packed into the initial state)" % (
                           tgt, parts.get("row"), parts.get("col"), tgt[0], tgt[1]))
        rep.floor("ROLE", "%s default pair initial conditions" % name, n, 2)


def ic_guard(repo, rep):
    rep.rule("CONS", "the consistency guard of the homogeneous pairwise models compares the pair counts with n times the WHOLE "
                     "population (every compartment given), so that every consistent initial condition is accepted")
    for name in ("SIS_homogeneous_pairwise", "SIR_homogeneous_pairwise"):
        f = repo.f(name)
        rep.analysed(f)
        env = {}
        for x in own_nodes(f.node):
            if isinstance(x, ast.Assign) and isinstance(x.targets[0], ast.Name) and x.targets[0].id not in names_in(x.value):
                env.setdefault(x.targets[0].id, x.value)
        comps = [p for p in ("S0", "I0", "R0") if p in f.params]
        want = {"*".join(sorted(["n", c])): 1.0 for c in comps}
        guards = [c for c in walk_function(f.node) if isinstance(c.stmt, ast.Raise) and "EoNError" in short(c.stmt)]
        ok = False
        got = None
        for c in guards:
            for fx, pol in c.enclosing_conditions():
                if pol and isinstance(fx, ast.Compare) and isinstance(fx.ops[0], (ast.Gt, ast.Lt)):
                    big, small = (fx.left, fx.comparators[0]) if isinstance(fx.ops[0], ast.Gt) else (fx.comparators[0], fx.left)
                    lb = linear(big, env=env)
                    ls = linear(small, env=env)
                    got = (lin_str(lb), lin_str(ls))
                    from ..linear import lin_equal
                    if lin_equal(ls, want) and lin_equal(lb, {"SS0": 1.0, "SI0": 2.0}):
                        ok = True
        rep.ob("CONS", ok, "%s: rejects exactly SS0 + 2*SI0 > n*(%s)" % (name, "+".join(comps)), func=f, node=guards[0].stmt if guards else f.node,
               construct="%s guard: %s > %s" % (name, got[0] if got else None, got[1] if got else None),
               detail="" if ok else "the guard compares with %s, not with n times the whole population: consistent initial conditions (e.g. with "
               "recovered nodes of low degree) are rejected" % (got[1] if got else None))
