"""R10 (initial-condition discipline), R14 (percolation / estimator roles),
R15 (helper algebra), Simulation_Investigation sibling rules (C10)."""
import ast

from ..core import own_nodes, attr_chain, short, names_in, AnalysisError, Func
from ..flow import walk_function, contexts_by_node, same, atomic_facts, refs
from .callrules import sites_of, dependency_closure, depends_on
from .rows import series_names, _append_of

R10_SIBLINGS = ["discrete_SIR", "basic_discrete_SIS", "fast_nonMarkov_SIR", "fast_SIS",
                "fast_nonMarkov_SIS", "Gillespie_SIR", "Gillespie_SIS"]
N_EXPRS = ("G.order()", "len(G)", "G.number_of_nodes()")


def _k(e):
    return short(e, 400).replace(" ", "")


def _fact_set(c):
    return {("%s" if pol else "not(%s)") % _k(fx) for fx, pol in c.facts}


def r10(repo, rep):
    rep.rule("R10", "initial-condition discipline: EoNError when both rho and initial_infecteds are given (tested with "
                    "`is not None`), default/rho sampling int(round(N*rho)) distinct nodes by random.sample(list(G), n), a single "
                    "node is wrapped in a list, the first S and R depend on initial_recovereds, and initially recovered nodes "
                    "are made non-susceptible before anything reads the status map")
    for name in R10_SIBLINGS:
        f = repo.f(name)
        rep.analysed(f)
        # (a) the rejection guard
        guard = None
        for c in walk_function(f.node):
            if isinstance(c.stmt, ast.Raise) and "EoNError" in short(c.stmt) and len(c.parents) == 1:
                fs = _fact_set(c)
                if fs == {"rhoisnotNone", "initial_infectedsisnotNone"}:
                    guard = c
        # truthiness variants are named explicitly
        weak = None
        for c in walk_function(f.node):
            if isinstance(c.stmt, ast.Raise) and "EoNError" in short(c.stmt):
                fs = _fact_set(c)
                if fs & {"rho", "initial_infecteds"} and ("rho" in fs or "initial_infecteds" in fs) and \
                        any("initial_infecteds" in x for x in fs) and any(x.startswith("rho") for x in fs):
                    weak = c
        ok = guard is not None
        rep.ob("R10a", ok, "%s: rho together with initial_infecteds raises EoNError" % name, func=f,
               node=(weak.stmt if (weak and not ok) else (guard.stmt if guard else f.node)),
               construct="%s: guard %s" % (name, sorted(_fact_set(guard)) if guard else (sorted(_fact_set(weak)) if weak else None)),
               detail="" if ok else ("the conflict test uses truthiness (%s): node 0, an empty collection or rho=0 slip through" % sorted(_fact_set(weak))
                                     if weak else "no `raise EoNError` under exactly `rho is not None and initial_infecteds is not None`"))
        if guard is not None:
            # dominates the first other use of initial_infecteds
            first_use = None
            for st in f.node.body:
                if st is guard.parents[0]:
                    break
                if "initial_infecteds" in names_in(st) and not isinstance(st, (ast.FunctionDef,)):
                    first_use = st
                    break
            rep.ob("R10a", first_use is None, "%s: the conflict check precedes every use of initial_infecteds" % name, func=f,
                   node=first_use if first_use is not None else guard.stmt, construct="%s: guard first" % name,
                   detail="" if first_use is None else "initial_infecteds is used before the rho/initial_infecteds conflict is rejected")
        # (b) normalisation pieces
        sample = wrap = None
        count_defs = []
        for c in walk_function(f.node):
            st = c.stmt
            if isinstance(st, ast.Assign) and _k(st.targets[0]) == "initial_infecteds":
                fs = _fact_set(c)
                v = st.value
                if isinstance(v, ast.Call) and _k(v.func) == "random.sample" and "initial_infectedsisNone" in fs:
                    sample = (st, c)
                if "G.has_node(initial_infecteds)" in fs and "not(initial_infectedsisNone)" in fs:
                    wrap = (st, c)
        oks = sample is not None and len(sample[0].value.args) == 2 and _k(sample[0].value.args[0]) in (
            "list(G)", "list(G.nodes())", "list(G.nodes)", "sorted(G)", "sorted(G.nodes())")
        rep.ob("R10b", oks, "%s: default/rho seeding draws distinct nodes with random.sample(list(G), n)" % name, func=f,
               node=sample[0] if sample else f.node, construct="%s: %s" % (name, short(sample[0].value) if sample else None),
               detail="" if oks else "no `initial_infecteds = random.sample(list(G), n)` under `initial_infecteds is None`")
        if oks:
            nvar = sample[0].value.args[1]
            one = rho = False
            for c in walk_function(f.node):
                st = c.stmt
                if isinstance(st, ast.Assign) and same(st.targets[0], nvar):
                    fs = _fact_set(c)
                    v = _k(st.value)
                    if "rhoisNone" in fs and v == "1":
                        one = True
                    if "not(rhoisNone)" in fs or "rhoisnotNone" in fs:
                        if v in ["int(round(%s*rho))" % n for n in N_EXPRS] + ["int(round(rho*%s))" % n for n in N_EXPRS] + \
                                ["int(round(N*rho))", "int(round(rho*N))"]:
                            rho = True
            rep.ob("R10b", one, "%s: without rho and initial_infecteds exactly one node is seeded" % name, func=f, node=sample[0],
                   construct="%s: default count 1" % name, detail="" if one else "default count under `rho is None` is not 1")
            rep.ob("R10b", rho, "%s: rho seeds int(round(N*rho)) nodes" % name, func=f, node=sample[0],
                   construct="%s: rho count int(round(G.order()*rho))" % name, detail="" if rho else "count under rho is not int(round(N*rho))")
        okw = wrap is not None and _k(wrap[0].value) in ("[initial_infecteds]", "(initial_infecteds,)", "{initial_infecteds}",
                                                          "set([initial_infecteds])")
        rep.ob("R10b", okw, "%s: a single node means the collection holding that node" % name, func=f,
               node=wrap[0] if wrap else f.node, construct="%s: %s" % (name, short(wrap[0]) if wrap else None),
               detail="" if okw else "no `initial_infecteds = [initial_infecteds]` under `G.has_node(initial_infecteds)`")
        # normalisation happens before the collection is iterated / measured
        if sample is not None:
            top = sample[1].parents[0] if sample[1].parents else sample[0]
            idx = f.node.body.index(top) if top in f.node.body else None
            early = None
            if idx is not None:
                for st in f.node.body[:idx]:
                    for n in ast.walk(st):
                        if isinstance(n, (ast.For, ast.comprehension)) and _k(n.iter) == "initial_infecteds":
                            early = n
                        if isinstance(n, ast.Call) and _k(n.func) in ("len", "set", "list") and n.args and _k(n.args[0]) == "initial_infecteds":
                            early = n
            rep.ob("R10b", early is None, "%s: initial_infecteds is normalised before it is iterated or counted" % name, func=f,
                   node=early if early is not None and hasattr(early, "lineno") else f.node, construct="%s: normalise first" % name,
                   detail="" if early is None else "initial_infecteds is consumed before the single-node / rho normalisation")
    # (c),(d) SIR simulators with initial_recovereds
    for name in ("discrete_SIR", "fast_nonMarkov_SIR", "Gillespie_SIR"):
        f = repo.f(name)
        dep = dependency_closure(f)
        rst, names = series_names(f)
        init = {}
        for st in f.node.body:
            if isinstance(st, ast.Assign):
                tg, val = st.targets[0], st.value
                if isinstance(tg, ast.Name) and isinstance(val, ast.List) and len(val.elts) == 1:
                    init.setdefault(tg.id, val.elts[0])
                if isinstance(tg, ast.Tuple) and isinstance(val, ast.Tuple) and len(tg.elts) == len(val.elts):
                    for a, b in zip(tg.elts, val.elts):
                        if isinstance(a, ast.Name) and isinstance(b, ast.List) and len(b.elts) == 1:
                            init.setdefault(a.id, b.elts[0])
        for s in ("S", "R"):
            e = init.get(s)
            ok = e is not None and (depends_on(e, "initial_recovereds", dep) or
                                    any(depends_on(init[x], "initial_recovereds", dep) for x in names_in(e) if x in init and x != s))
            rep.ob("R10c", ok, "%s: %s[0] depends on initial_recovereds" % (name, s), func=f, node=f.node,
                   construct="%s: %s[0] = %s" % (name, s, short(e) if e is not None else None),
                   detail="" if ok else "the first %s ignores initial_recovereds (initially recovered nodes are reported as susceptible)" % s)
        # (d) nodes made non-susceptible before the status map is read
        marks = []
        smap = None
        rec_names = {"initial_recovereds"} | _none_normalised(f.node, "initial_recovereds")
        for i, st in enumerate(f.node.body):
            for n in ast.walk(st):
                if isinstance(n, ast.For) and _k(n.iter) in rec_names:
                    for b in ast.walk(n):
                        if isinstance(b, ast.Assign) and isinstance(b.targets[0], ast.Subscript) and \
                                _k(b.targets[0].slice) == _k(n.target) and _k(b.value) in ("'R'", "False") \
                                and _k(b.targets[0].value) in ("status", "susceptible"):
                            # unconditional inside the loop
                            uncond = any(x is b for x in n.body)
                            marks.append((i, b, uncond, n))
                            smap = _k(b.targets[0].value)
        okm = len(marks) >= 1 and all(m[2] for m in marks)
        rep.ob("R10d", okm, "%s: every initially recovered node is marked, unconditionally" % name, func=f,
               node=marks[0][1] if marks else f.node, construct="%s: mark loop (%d, unconditional=%s)" % (name, len(marks), [m[2] for m in marks]),
               detail="" if okm else "the loop over initial_recovereds does not set %s for each node on every path" % (smap or "the status"))
        if marks:
            imark = min(m[0] for m in marks)
            # the mark loop itself must not sit under a condition other than `initial_recovereds is not None`
            for c in walk_function(f.node):
                if c.stmt is marks[0][3]:
                    enc = {("%s" if pol else "not(%s)") % _k(fx) for fx, pol in c.enclosing_conditions()}
                    extra = enc - {"initial_recoveredsisnotNone", "not(initial_recoveredsisNone)"}
                    rep.ob("R10d", not extra, "%s: marking does not depend on anything but initial_recovereds being given" % name,
                           func=f, node=c.stmt, construct="%s: mark loop under %s" % (name, sorted(enc)),
                           detail="" if not extra else "initially recovered nodes are only marked when %s" % sorted(extra))
            first_read = None
            for i, st in enumerate(f.node.body):
                if i == imark:
                    continue
                for n in ast.walk(st):
                    if isinstance(n, ast.Subscript) and isinstance(n.ctx, ast.Load) and _k(n.value) == smap:
                        if first_read is None:
                            first_read = (i, n)
                    if isinstance(n, ast.Call) and _k(n.func).endswith("pop_and_run") and first_read is None:
                        first_read = (i, n)
                    if isinstance(n, ast.Tuple) and any(isinstance(e, ast.Name) and e.id == smap for e in n.elts) and first_read is None:
                        pass
            ok = first_read is None or first_read[0] > imark
            rep.ob("R10d", ok, "%s: initially recovered nodes are marked before the status map is read" % name, func=f,
                   node=first_read[1] if first_read else f.node, construct="%s: mark at stmt %d, first read at stmt %s" % (
                       name, imark, first_read[0] if first_read else None),
                   detail="" if ok else "%s is read (candidate sets are built) before initial_recovereds are marked: they are treated as susceptible" % smap)
    # history of initially infected / recovered nodes starts at tmin (full data)
    f = repo.f("fast_nonMarkov_SIR")
    for c in walk_function(f.node):
        st = c.stmt
        if isinstance(st, ast.Assign) and isinstance(st.targets[0], ast.Subscript) and _k(st.targets[0].value) in ("rec_time", "pred_inf_time"):
            if any(isinstance(l, ast.For) and _k(l.iter) in ("initial_recovereds", "initial_infecteds") for l in c.loops):
                ok = _k(st.value) == "tmin"
                rep.ob("R10e", ok, "fast_nonMarkov_SIR: initial nodes enter the histories at tmin", func=f, node=st,
                       construct=short(st), detail="" if ok else "an initial node's history time is %s, not tmin" % short(st.value))
    for name in ("Gillespie_SIR", "Gillespie_SIS"):
        f = repo.f(name)
        for c in walk_function(f.node):
            a = _append_of(c.stmt)
            if a and isinstance(a[0], ast.Subscript) and _k(a[0].value) in ("infection_times", "recovery_times") and \
                    any(isinstance(l, ast.For) and _k(l.iter) in ("initial_recovereds", "initial_infecteds") for l in c.loops):
                tdef = [n for n in f.node.body if isinstance(n, ast.Assign) and _k(n.targets[0]) == _k(a[1])]
                ok = _k(a[1]) == "tmin" or (len(tdef) >= 1 and _k(tdef[0].value) == "tmin" and tdef[0].lineno < c.stmt.lineno
                                           and not any(isinstance(n, ast.AugAssign) and _k(n.target) == _k(a[1]) and n.lineno < c.stmt.lineno
                                                       for n in f.node.body))
                rep.ob("R10e", ok, "%s: initial nodes enter the histories at tmin" % name, func=f, node=c.stmt,
                       construct=short(c.stmt), detail="" if ok else "initial history time is not tmin")
    for name in ("discrete_SIR", "basic_discrete_SIS"):
        f = repo.f(name)
        for c in walk_function(f.node):
            st = c.stmt
            if isinstance(st, ast.Assign) and isinstance(st.targets[0], ast.Subscript) and _k(st.targets[0].value) == "node_history" \
                    and any(isinstance(l, ast.For) and _k(l.iter) in ("initial_recovereds", "initial_infecteds") for l in c.loops):
                lp = [l for l in c.loops if isinstance(l, ast.For)][-1]
                want = "'I'" if _k(lp.iter) == "initial_infecteds" else "'R'"
                ok = _k(st.value) == "([tmin],[%s])" % want
                rep.ob("R10e", ok, "%s: initial nodes start as %s at tmin" % (name, want), func=f, node=st,
                       construct=short(st), detail="" if ok else "initial history is %s" % short(st.value))
        dh = [n for n in own_nodes(f.node) if isinstance(n, ast.Assign) and _k(n.targets[0]) == "node_history"]
        ok = len(dh) == 1 and _k(dh[0].value) == "defaultdict(lambda:([tmin],['S']))"
        rep.ob("R10e", ok, "%s: every other node starts as 'S' at tmin" % name, func=f, node=dh[0] if dh else f.node,
               construct=short(dh[0]) if dh else None, detail="" if ok else "default history changed")


def _none_normalised(fnode, param):
    """Names that hold `param`, or an empty collection when `param` is None: Y = () if param is None else param, in
    either orientation, as a conditional expression or as an if/else that assigns nothing else to Y."""
    empty = ("()", "[]", "set()", "list()", "tuple()", "{}", "frozenset()")
    isnone, notnone = "%sisNone" % param, "%sisnotNone" % param

    def arms(test, a, b):          # value when test holds, value otherwise
        t = _k(test)
        if t == isnone:
            return _k(a) in empty and _k(b) == param
        if t in (notnone, "not(%s)" % isnone, "not%s" % isnone):
            return _k(b) in empty and _k(a) == param
        return False
    stores = {}
    for n in ast.walk(fnode):
        if isinstance(n, ast.Name) and isinstance(n.ctx, ast.Store):
            stores[n.id] = stores.get(n.id, 0) + 1
    out = set()
    for n in own_nodes(fnode):
        if isinstance(n, ast.Assign) and len(n.targets) == 1 and isinstance(n.targets[0], ast.Name) and isinstance(n.value, ast.IfExp):
            if stores.get(n.targets[0].id) == 1 and arms(n.value.test, n.value.body, n.value.orelse):
                out.add(n.targets[0].id)
        if isinstance(n, ast.If) and len(n.body) == 1 and len(n.orelse) == 1:
            a, b = n.body[0], n.orelse[0]
            if all(isinstance(x, ast.Assign) and len(x.targets) == 1 and isinstance(x.targets[0], ast.Name) for x in (a, b)) \
                    and a.targets[0].id == b.targets[0].id and stores.get(a.targets[0].id) == 2 and arms(n.test, a.value, b.value):
                out.add(a.targets[0].id)
    return out


def initial_record_rule(repo, rep):
    """Gillespie_SIR / Gillespie_SIS: what is recorded for the initial condition carries the start time."""
    rep.rule("R10t", "Gillespie_SIR / Gillespie_SIS: the infection / recovery times and the source-less transmissions recorded for the "
                     "initial condition are stamped tmin (the clock is read before anything advances it)")
    n = 0
    for name in ("Gillespie_SIR", "Gillespie_SIS"):
        f = repo.f(name)
        rep.analysed(f)
        clock = {}           # name -> "tmin" while the only thing the variable has been given is tmin
        for st in f.node.body:
            if isinstance(st, ast.While):
                break
            stores = {x.id for x in ast.walk(st) if isinstance(x, ast.Name) and isinstance(x.ctx, ast.Store)}
            for c in ast.walk(st):
                if not (isinstance(c, ast.Call) and isinstance(c.func, ast.Attribute) and c.func.attr == "append" and len(c.args) == 1):
                    continue
                root = c.func.value
                while isinstance(root, (ast.Subscript, ast.Attribute)):
                    root = root.value
                if not (isinstance(root, ast.Name) and root.id in ("infection_times", "recovery_times", "transmissions")):
                    continue
                e = c.args[0].elts[0] if isinstance(c.args[0], ast.Tuple) and c.args[0].elts else c.args[0]
                ok = _k(e) == "tmin" or (isinstance(e, ast.Name) and clock.get(e.id) == "tmin" and e.id not in stores)
                n += 1
                rep.ob("R10t", ok, "%s: %s record of the initial condition is stamped tmin" % (name, root.id), func=f, node=c,
                       construct="%s: %s at clock=%s" % (name, short(c), clock.get(_k(e))),
                       detail="" if ok else "the initial condition is recorded with `%s` after the clock has been advanced (or before it is "
                       "set): initially infected nodes are reported susceptible until the first event" % _k(e))
            # the same records built in one go: infection_times = {node: [t] for ...} / defaultdict(list, dict.fromkeys(X, [t])) /
            # transmissions = [(t, None, node) for node in X]
            for a in ast.walk(st):
                if not (isinstance(a, ast.Assign) and len(a.targets) == 1 and isinstance(a.targets[0], ast.Name)
                        and a.targets[0].id in ("infection_times", "recovery_times", "transmissions")):
                    continue
                for z in ast.walk(a.value):
                    e = None
                    if a.targets[0].id == "transmissions" and isinstance(z, ast.Tuple) and len(z.elts) == 3 and _k(z.elts[1]) == "None":
                        e = z.elts[0]
                    elif a.targets[0].id != "transmissions" and isinstance(z, ast.List) and len(z.elts) == 1:
                        e = z.elts[0]
                    if e is None:
                        continue
                    ok = _k(e) == "tmin" or (isinstance(e, ast.Name) and clock.get(e.id) == "tmin" and e.id not in stores)
                    n += 1
                    rep.ob("R10t", ok, "%s: %s record of the initial condition is stamped tmin" % (name, a.targets[0].id), func=f, node=a,
                           construct="%s: %s at clock=%s" % (name, short(a), clock.get(_k(e))),
                           detail="" if ok else "the initial condition is recorded with `%s` after the clock has been advanced" % _k(e))
            for x in stores:
                clock[x] = "tmin" if (isinstance(st, ast.Assign) and len(st.targets) == 1 and _k(st.targets[0]) == x
                                      and _k(st.value) == "tmin" and x not in clock) else "advanced"
    rep.floor("R10t", "initial-condition records", n, 5)


def transform_history_rule(repo, rep):
    """_transform_to_node_history_: histories start at tmin and only make legal moves."""
    f = repo.f("_transform_to_node_history_")
    rep.analysed(f)
    rep.rule("HIST", "_transform_to_node_history_: default ([tmin],['S']); an event at tmin replaces the default entry in every "
                     "loop that can see one; infection -> 'I', recovery -> 'R' (SIR) / alternating I,S (SIS)")
    dd = [n for n in own_nodes(f.node) if isinstance(n, ast.Assign) and _k(n.targets[0]) == "node_history"]
    ok = len(dd) == 2 and all(_k(d.value) == "defaultdict(lambda:([tmin],['S']))" for d in dd)
    rep.ob("HIST", ok, "every node starts as 'S' at tmin unless an event says otherwise", func=f, node=dd[0] if dd else f.node,
           construct="default history x%d" % len(dd), detail="" if ok else "default history changed")
    # each for loop over *.items() in the SIR arm: reset under time == tmin, then append time and the right letter
    nloops = 0
    sir_sources = set()
    for c in walk_function(f.node):
        st = c.stmt
        if isinstance(st, ast.For) and _k(st.iter).endswith(".items()") and not c.loops:
            nloops += 1
            sir = "SIR" in _fact_set(c)
            src = _k(st.iter).split(".")[0]
            if sir:
                sir_sources.add(src)
            node, tvar = [_k(e) for e in st.target.elts]
            body = st.body
            if sir:
                letter = "'I'" if src == "infection_times" else "'R'"
                reset = [s for s in body if isinstance(s, ast.If) and _k(s.test) in ("%s==tmin" % tvar, "tmin==%s" % tvar)
                         and any(isinstance(x, ast.Assign) and _k(x.targets[0]) == "node_history[%s]" % node and _k(x.value) == "([],[])" for x in s.body)]
                at = [s for s in body if _append_of(s) and _k(_append_of(s)[0]) == "node_history[%s][0]" % node and _k(_append_of(s)[1]) == tvar]
                al = [s for s in body if _append_of(s) and _k(_append_of(s)[0]) == "node_history[%s][1]" % node and _k(_append_of(s)[1]) == letter]
                ok = len(reset) == 1 and len(at) == 1 and len(al) == 1 and body.index(reset[0]) < body.index(at[0])
                rep.ob("HIST", ok, "SIR %s: a change at tmin replaces the default 'S' entry, then (time, %s) is appended" % (src, letter),
                       func=f, node=st, construct="SIR loop over %s: reset=%d time=%d letter=%d" % (src, len(reset), len(at), len(al)),
                       detail="" if ok else "loop over %s no longer resets the default entry for events at tmin and appends (time, %s)" % (src, letter))
            else:
                wl = [s for s in body if isinstance(s, ast.While)]
                ok = len(wl) == 1
                if ok:
                    wb = wl[0].body
                    txt = [_k(s) for s in wb]
                    pops = [s for s in ast.walk(wl[0]) if isinstance(s, ast.Call) and _k(s.func).endswith(".pop") and s.args and _k(s.args[0]) == "0"]
                    allpops = [s for s in ast.walk(wl[0]) if isinstance(s, ast.Call) and _k(s.func).endswith(".pop")]
                    letters = [_k(_append_of(s)[1]) for s in ast.walk(wl[0]) if isinstance(s, ast.Expr) and _append_of(s)
                               and _k(_append_of(s)[0]) == "node_history[%s][1]" % node]
                    reset = [s for s in wb if isinstance(s, ast.If) and _k(s.test).replace("time", "T") in ("T==tmin", "tmin==T")]
                    ok = len(pops) == 2 and len(allpops) == 2 and letters == ["'I'", "'S'"] and len(reset) == 1
                rep.ob("HIST", ok, "SIS: infection and recovery times are consumed alternately from the front (oldest first) as I, S; an infection at tmin replaces the default",
                       func=f, node=st, construct="SIS loop", detail="" if ok else "SIS history reconstruction changed")
    # every recorded infection AND every recorded recovery reaches the history: each table is walked by its own
    # loop (an initially recovered node has a recovery time and no infection time)
    missing = sorted({"infection_times", "recovery_times"} - sir_sources)
    rep.ob("HIST", not missing, "SIR: every entry of infection_times and of recovery_times is turned into a history entry",
           func=f, node=f.node, construct="SIR tables walked: %s" % ",".join(sorted(sir_sources)),
           detail="" if not missing else "no loop over all of %s in the SIR arm: nodes that only occur there "
           "(initially recovered nodes) lose their history" % ", ".join(missing))
    rep.floor("HIST", "reconstruction loops", nloops, 3)


# ---------------------------------------------------------------------------
# R14
# ---------------------------------------------------------------------------
def r14(repo, rep):
    rep.rule("R14", "percolation builders keep every node, add u->v exactly under the stated test; estimators use the in-component "
                    "for the probability and the out-component for the size of a largest strongly connected component, over H.order()")
    # nonMarkov_directed_percolate_network_with_timing
    f = repo.f("nonMarkov_directed_percolate_network_with_timing")
    rep.analysed(f)
    arms = 0
    for c in walk_function(f.node):
        st = c.stmt
        if isinstance(st, ast.For) and _k(st.iter) in ("G.nodes()", "G") and not c.loops:
            arms += 1
            u = _k(st.target)
            weighted = "weights" in _fact_set(c)
            dur = [s for s in st.body if isinstance(s, ast.Assign) and isinstance(s.value, ast.Call) and _k(s.value.func) == "rec_time_fxn"]
            okd = len(dur) == 1 and _k(dur[0].value.args[0]) == u and isinstance(dur[0].value.args[-1], ast.Starred) \
                and _k(dur[0].value.args[-1].value) == "rec_time_args"
            def is_call(s, fn, first):
                return isinstance(s, ast.Expr) and isinstance(s.value, ast.Call) and _k(s.value.func) == fn and s.value.args \
                    and [_k(a) for a in s.value.args[:len(first)]] == first

            def on_weights(block, fn, first):
                """[stmt] for `fn(first...)` at the top of block, or [with-attributes, without] for a two-armed test on
                `weights` alone with one such call in each arm."""
                direct = [s for s in block if is_call(s, fn, first)]
                split = [s for s in block if isinstance(s, ast.If) and names_in(s.test) == {"weights"} and _k(s.test) in ("weights", "notweights", "not(weights)")
                         and len(s.body) == 1 and len(s.orelse) == 1 and is_call(s.body[0], fn, first) and is_call(s.orelse[0], fn, first)]
                if len(direct) == 1 and not split:
                    return direct
                if len(split) == 1 and not direct:
                    a, b = split[0].body[0], split[0].orelse[0]
                    return [a, b] if _k(split[0].test) == "weights" else [b, a]
                return []
            addn = on_weights(st.body, "H.add_node", [u])
            okn = len(addn) in (1, 2) and (len(addn) == 1 or not addn[1].value.keywords)
            if len(addn) == 2:
                weighted = True        # the arm with attributes is checked below; the other arm carries none
            rep.ob("R14", okn, "with_timing (%s): every node of G is added unconditionally" % ("weights" if weighted else "no weights"),
                   func=f, node=addn[0] if addn else st, construct="H.add_node(%s) at loop top level: %d" % (u, len(addn)),
                   detail="" if okn else "H.add_node(u) is missing or conditional: nodes without kept edges vanish from H")
            if weighted and okn:
                kw = {k.arg: _k(k.value) for k in addn[0].value.keywords}
                okk = okd and kw.get("duration") == _k(dur[0].targets[0])
                rep.ob("R14", okk, "with_timing: node attribute duration is the drawn duration", func=f, node=addn[0],
                       construct=short(addn[0]), detail="" if okk else "duration attribute changed")
            nl = [s for s in st.body if isinstance(s, ast.For) and _k(s.iter) == "G.neighbors(%s)" % u]
            oke = False
            if len(nl) == 1 and okd:
                v = _k(nl[0].target)
                dl = [s for s in nl[0].body if isinstance(s, ast.Assign) and isinstance(s.value, ast.Call) and _k(s.value.func) == "trans_time_fxn"]
                if len(dl) == 1 and [_k(a) for a in dl[0].value.args[:2]] == [u, v] and isinstance(dl[0].value.args[-1], ast.Starred) \
                        and _k(dl[0].value.args[-1].value) == "trans_time_args":
                    dn, un = _k(dl[0].targets[0]), _k(dur[0].targets[0])
                    ifs = [s for s in nl[0].body if isinstance(s, ast.If) and _k(s.test) in ("%s<=%s" % (dn, un), "%s>=%s" % (un, dn))]
                    adds = [x for x in ast.walk(nl[0]) if isinstance(x, ast.Call) and _k(x.func) == "H.add_edge"]
                    kept = on_weights(ifs[0].body, "H.add_edge", [u, v]) if len(ifs) == 1 and not ifs[0].orelse else []
                    if kept and len(adds) == len(kept) and (len(kept) == 1 or (len(addn) == 2 and not kept[1].value.keywords)):
                        oke = True
                        if weighted:
                            kw = {k.arg: _k(k.value) for k in kept[0].value.keywords}
                            oke = kw.get("delay_to_infection") == dn
            rep.ob("R14", oke, "with_timing (%s): edge u->v kept iff delay(u,v) <= duration(u)" % ("weights" if weighted else "no weights"),
                   func=f, node=st, construct="with_timing %s edge rule: %s" % ("weights" if weighted else "no weights", oke),
                   detail="" if oke else "edge rule is not `delay = trans_time_fxn(u, v, *args); if delay <= duration: H.add_edge(u, v)`")
    rep.floor("R14", "with_timing arms", arms, 1)
    # when the function branches on `weights` at its top level, BOTH branches build H by the per-node loop checked above
    # (a branch that builds H some other way escapes the duration / delay obligations)
    top = [s2 for s2 in f.node.body if isinstance(s2, ast.If) and "weights" in names_in(s2.test)]
    if top:
        def has_arm(block):
            return any(isinstance(x, ast.For) and _k(x.iter) in ("G.nodes()", "G") for z in block for x in ast.walk(z))
        okb = all(has_arm(t.body) and (not t.orelse or has_arm(t.orelse)) for t in top)
        rep.ob("R14", okb, "with_timing: each branch on `weights` draws one duration per node and keeps u->v iff delay <= that duration",
               func=f, node=top[0], construct="branches on weights with a per-node loop: %s" % okb,
               detail="" if okb else "one branch on `weights` does not build H with the per-node loop (e.g. it draws the duration inside a "
               "per-edge test): the contacts of a node then no longer share one infectious period")
    hd = [n for n in own_nodes(f.node) if isinstance(n, ast.Assign) and _k(n.targets[0]) == "H"]
    rep.ob("R14", len(hd) == 1 and _k(hd[0].value) == "nx.DiGraph()", "with_timing: H is a fresh DiGraph", func=f,
           node=hd[0] if hd else f.node, construct=short(hd[0]) if hd else None, detail="")
    # nonMarkov_directed_percolate_network
    f = repo.f("nonMarkov_directed_percolate_network")
    rep.analysed(f)
    lp = [s for s in f.node.body if isinstance(s, ast.For) and _k(s.iter) in ("G.nodes()", "G")]
    ok = len(lp) == 1
    if ok:
        u = _k(lp[0].target)
        addn = [s for s in lp[0].body if isinstance(s, ast.Expr) and _k(s.value) == "H.add_node(%s)" % u]
        nl = [s for s in lp[0].body if isinstance(s, ast.For) and _k(s.iter) == "G.neighbors(%s)" % u]
        ok = len(addn) == 1 and len(nl) == 1
        if ok:
            v = _k(nl[0].target)
            ifs = [s for s in nl[0].body if isinstance(s, ast.If) and _k(s.test) == "transmission(xi[%s],zeta[%s])" % (u, v)]
            ok = len(ifs) == 1 and [_k(s) for s in ifs[0].body] == ["H.add_edge(%s,%s)" % (u, v)] and not ifs[0].orelse
    rep.ob("R14", ok, "nonMarkov_directed_percolate_network: all nodes kept; u->v iff transmission(xi[u], zeta[v])", func=f,
           node=lp[0] if lp else f.node, construct="xi/zeta edge rule: %s" % ok,
           detail="" if ok else "edge rule is not `if transmission(xi[u], zeta[v]): H.add_edge(u, v)` with every node added")
    # percolate_network
    f = repo.f("percolate_network")
    rep.analysed(f)
    t = [_k(s) for s in f.node.body if not (isinstance(s, ast.Expr) and isinstance(s.value, ast.Constant))]
    nodes_ok = "H=nx.Graph()" in t and any(x in t for x in ("H.add_nodes_from(G.nodes())", "H.add_nodes_from(G)", "H.add_nodes_from(G.nodes)"))
    lp = [s for s in f.node.body if isinstance(s, ast.For) and _k(s.iter) in ("G.edges()", "G.edges")]
    ok = nodes_ok and len(lp) == 1
    if ok:
        e = lp[0].target
        ifs = [s for s in lp[0].body if isinstance(s, ast.If)]
        ok = len(lp[0].body) == 1 and len(ifs) == 1 and _k(ifs[0].test) in ("random.random()<p", "p>random.random()") and not ifs[0].orelse \
            and len(ifs[0].body) == 1 and _k(ifs[0].body[0]) in ("H.add_edge(*%s)" % _k(e), "H.add_edge(%s)" % _k(e).strip("()"))
    rep.ob("R14", ok, "percolate_network: same node set, one Bernoulli(p) draw per edge of G, edge kept iff it succeeds", func=f,
           node=f.node, construct="percolate_network body: %s" % ok,
           detail="" if ok else "percolate_network is no longer `H = Graph on G's nodes; for edge in G.edges(): if random.random() < p: add`")
    rr = [n for n in own_nodes(f.node) if isinstance(n, ast.Return)]
    rep.ob("R14", len(rr) == 1 and _k(rr[0].value) == "H", "percolate_network returns H", func=f, node=rr[0] if rr else f.node,
           construct="return H", detail="")
    # components
    for name, nxfn in (("_out_component_", "nx.descendants"), ("_in_component_", "nx.ancestors")):
        f = repo.f(name)
        rep.analysed(f)
        p0, p1 = f.params[0], f.params[1]
        calls = [c for c in ast.walk(f.node) if isinstance(c, ast.Call) and _k(c.func) in ("nx.descendants", "nx.ancestors")]
        ok = len(calls) == 1 and _k(calls[0].func) == nxfn and _k(calls[0].args[0]) == p0
        rep.ob("R14", ok, "%s uses %s on the graph it was given" % (name, nxfn), func=f, node=calls[0] if calls else f.node,
               construct="%s -> %s" % (name, [_k(c.func) for c in calls]), detail="" if ok else "component direction changed")
        # the start nodes are included and the result only grows by union
        rets = [n for n in own_nodes(f.node) if isinstance(n, ast.Return)]
        ok2 = len(rets) == 1 and isinstance(rets[0].value, ast.Name)
        if ok2:
            rv = rets[0].value.id
            defs = [n for n in own_nodes(f.node) if isinstance(n, ast.Assign) and _k(n.targets[0]) == rv]
            ok2 = len(defs) == 2 and ".union(" in _k(defs[0].value) and ".union(" in _k(defs[1].value) \
                and _k(defs[1].value).startswith(rv + ".union(")
            single = [c for c in walk_function(f.node) if isinstance(c.stmt, ast.Assign) and "G.has_node(%s)" % p1 in _fact_set(c)]
            ok2 = ok2 and len(single) == 1 and _k(single[0].stmt.value) in ("{%s}" % p1, "set([%s])" % p1)
        rep.ob("R14", ok2, "%s: starts from the given node(s) and only adds reachable nodes" % name, func=f, node=f.node,
               construct="%s accumulation" % name, detail="" if ok2 else "component accumulation changed")
    # estimate_SIR_prob_size_from_dir_perc
    f = repo.f("estimate_SIR_prob_size_from_dir_perc")
    rep.analysed(f)
    H = f.params[0]
    env = {}
    for st in f.node.body:
        if isinstance(st, ast.Assign) and isinstance(st.targets[0], ast.Name):
            env[st.targets[0].id] = st.value

    def expand(e, d=0):
        if d > 6:
            return e
        if isinstance(e, ast.Name) and e.id in env:
            return expand(env[e.id], d + 1)
        for fld, val in ast.iter_fields(e):
            pass
        return e
    rets = [n for n in own_nodes(f.node) if isinstance(n, ast.Return)]
    ok = len(rets) == 1 and isinstance(rets[0].value, ast.Tuple) and len(rets[0].value.elts) == 2
    if ok:
        def chain(e, seen=()):
            """text of e with local names expanded one level at a time"""
            out = _k(e)
            for _ in range(6):
                for nm, v in env.items():
                    import re
                    out = re.sub(r"(?<![\w.])%s(?![\w(])" % re.escape(nm), "(" + _k(v) + ")", out)
            return out
        pe, ar = chain(rets[0].value.elts[0]), chain(rets[0].value.elts[1])
        scc = "max(nx.strongly_connected_components(%s),key=len)" % H
        scc2 = "max((nx.strongly_connected_components(%s)),key=len)" % H
        ok_pe = "_in_component_(%s," % H in pe and (scc in pe or scc2 in pe) and "%s.order()" % H in pe and "_out_component_" not in pe
        ok_ar = "_out_component_(%s," % H in ar and (scc in ar or scc2 in ar) and "%s.order()" % H in ar and "_in_component_" not in ar
        rep.ob("R14", ok_pe, "from_dir_perc: probability = |in-component of a largest SCC| / H.order()", func=f, node=rets[0],
               construct="PE = %s" % pe[:150], detail="" if ok_pe else "first output is not len(_in_component_(H, node of largest SCC))/H.order()")
        rep.ob("R14", ok_ar, "from_dir_perc: size = |out-component of a largest SCC| / H.order()", func=f, node=rets[0],
               construct="AR = %s" % ar[:150], detail="" if ok_ar else "second output is not len(_out_component_(H, node of largest SCC))/H.order()")
        # the member of the component from which the in / out components are grown is picked without comparing labels
        # (node labels need not be orderable: tuples mixed with strings, user objects)
        rest = (pe + ar).replace(scc2, "SCC").replace(scc, "SCC")
        ok_u = not any(w in rest for w in ("min(", "max(", "sorted(", ".sort("))
        rep.ob("R14", ok_u, "from_dir_perc: the start node is any member of the largest SCC, chosen without ordering the labels", func=f,
               node=rets[0], construct="start node in %s" % rest[:120],
               detail="" if ok_u else "the start node is chosen by min / max / sorted over node labels: labels that are not mutually "
               "orderable make every estimate_*_SIR_prob_size front end raise TypeError")
        # SCC searched in the whole graph
        sdef = [v for v in env.values() if "strongly_connected_components" in _k(v)]
        ok_s = len(sdef) == 1 and _k(sdef[0]) in (scc, scc2)
        rep.ob("R14", ok_s, "from_dir_perc: the largest strongly connected component of the whole of H", func=f, node=f.node,
               construct="SCC = %s" % (_k(sdef[0]) if sdef else None), detail="" if ok_s else "largest SCC is searched in a subgraph or by another key")
    else:
        rep.ob("R14", False, "from_dir_perc returns (PE, AR)", func=f, node=f.node, construct="return shape", detail="return changed")
    # estimate_SIR_prob_size
    f = repo.f("estimate_SIR_prob_size")
    rep.analysed(f)
    env = {_k(x.targets[0]): x.value for x in f.node.body if isinstance(x, ast.Assign)}
    rets = [n for n in own_nodes(f.node) if isinstance(n, ast.Return)]
    ok = len(rets) == 1 and isinstance(rets[0].value, ast.Tuple) and len(rets[0].value.elts) == 2 \
        and _k(rets[0].value.elts[0]) == _k(rets[0].value.elts[1])
    if ok:
        v = rets[0].value.elts[0]
        v = env.get(_k(v), v)
        ok = isinstance(v, ast.BinOp) and isinstance(v.op, ast.Div) and _k(v.right) in N_EXPRS
        if ok:
            num = v.left
            if isinstance(num, ast.Call) and _k(num.func) == "float":
                num = num.args[0]
            num = env.get(_k(num), num)
            it = None
            if isinstance(num, ast.Call) and _k(num.func) == "len" and len(num.args) == 1 and isinstance(num.args[0], ast.Call) \
                    and _k(num.args[0].func) == "max" and len(num.args[0].args) == 1 \
                    and [(k.arg, _k(k.value)) for k in num.args[0].keywords] == [("key", "len")]:
                # len(max(components, key=len)): the size of a largest component, the same number
                it = num.args[0].args[0]
                it = env.get(_k(it), it)
                ok = True
            else:
                ok = isinstance(num, ast.Call) and _k(num.func) == "max" and isinstance(num.args[0], (ast.GeneratorExp, ast.ListComp)) \
                    and _k(num.args[0].elt) == "len(%s)" % _k(num.args[0].generators[0].target)
            if ok:
                it = it if it is not None else num.args[0].generators[0].iter
                it = env.get(_k(it), it) if isinstance(it, ast.Name) else it
                ok = isinstance(it, ast.Call) and _k(it.func) == "nx.connected_components"
                if ok:
                    h = env.get(_k(it.args[0]), it.args[0])
                    ok = _k(h) == "percolate_network(G,p)"
    rep.ob("R14", ok, "estimate_SIR_prob_size: both outputs are the largest-component fraction of the bond-percolated network", func=f,
           node=f.node, construct="estimate_SIR_prob_size body: %s" % ok, detail="" if ok else "estimator body changed")
    # wrappers: build H with the right builder, pass it on
    for name, builder in (("estimate_directed_SIR_prob_size", "directed_percolate_network(G,tau,gamma)"),
                          ("estimate_nonMarkov_SIR_prob_size_with_timing",
                           "nonMarkov_directed_percolate_network_with_timing(G,trans_time_fxn,rec_time_fxn,trans_time_args,rec_time_args)"),
                          ("estimate_nonMarkov_SIR_prob_size", "nonMarkov_directed_percolate_network(G,xi,zeta,transmission)")):
        f = repo.f(name)
        rep.analysed(f)
        t = [_k(s) for s in f.node.body if not (isinstance(s, ast.Expr) and isinstance(s.value, ast.Constant))]
        ok = t == ["H=%s" % builder, "returnestimate_SIR_prob_size_from_dir_perc(H)"]
        rep.ob("R14", ok, "%s = estimator applied to the percolated graph with all nodes" % name, func=f, node=f.node,
               construct="%s body" % name, detail="" if ok else "wrapper changed: %s" % t)
    # get_infected_nodes
    f = repo.f("get_infected_nodes")
    rep.analysed(f)
    body = f.node.body
    hb = [s for s in body if isinstance(s, ast.Assign) and _k(s.targets[0]) == "H"]
    rm = [s for s in body if isinstance(s, ast.For) and _k(s.iter) == "initial_recovereds" and
          [_k(x) for x in s.body] == ["H.remove_node(%s)" % _k(s.target)]]
    oc = [s for s in body if isinstance(s, ast.Assign) and isinstance(s.value, ast.Call) and _k(s.value.func) == "_out_component_"]
    ok = len(hb) == 1 and _k(hb[0].value) == "directed_percolate_network(G,tau,gamma)" and len(rm) == 1 and len(oc) == 1 \
        and body.index(hb[0]) < body.index(rm[0]) < body.index(oc[0]) and [_k(a) for a in oc[0].value.args] == ["H", "initial_infecteds"] \
        and not oc[0].value.keywords
    rep.ob("R14.gin", ok, "get_infected_nodes: initially recovered nodes are removed from H before the out-component is taken", func=f,
           node=oc[0] if oc else f.node, construct="get_infected_nodes order: build, remove, out-component: %s" % ok,
           detail="" if ok else "the out-component is not computed on H with initial_recovereds removed")
    rr = [n for n in own_nodes(f.node) if isinstance(n, ast.Return)]
    okr = bool(oc) and len(rr) == 1 and _k(rr[0].value) == _k(oc[0].targets[0])
    rep.ob("R14.gin", okr, "get_infected_nodes returns that out-component", func=f, node=rr[0] if rr else f.node, construct="return", detail="")
    # directed_percolate_network: exponential delays with the matching rates
    f = repo.f("directed_percolate_network")
    rep.analysed(f)
    for nm, rate in (("trans_time_fxn", "tau"), ("rec_time_fxn", "gamma")):
        g = f.nested.get(nm)
        ok = g is not None and g.params[-1] == rate
        if ok:
            rets = [(c, c.stmt) for c in walk_function(g.node) if isinstance(c.stmt, ast.Return)]
            pos = [c for c, s in rets if _k(s.value) == "random.expovariate(%s)" % rate and "%s>0" % rate in _fact_set(c)]
            inf = [c for c, s in rets if _k(s.value) in ("float('Inf')", "float('inf')") and "not(%s>0)" % rate in _fact_set(c)]
            ok = len(pos) == 1 and len(inf) == 1 and len(rets) == 2
        rep.ob("R14", ok, "directed_percolate_network: %s ~ Exp(%s), Inf when the rate is 0" % (nm, rate), func=f, node=g.node if g else f.node,
               construct="%s body" % nm, detail="" if ok else "delay rule changed")


# ---------------------------------------------------------------------------
# R15 and C20 helpers
# ---------------------------------------------------------------------------
def _poly(e, x, k):
    """Parse `c * x**e` products used in the PGF lambdas into (coef text list, exponent shift).

    Returns (coefs, shift) meaning  prod(coefs) * x**(ks + shift), or None."""
    if isinstance(e, ast.BinOp) and isinstance(e.op, ast.Pow) and _k(e.left) == x:
        ex = e.right
        if _k(ex) == k:
            return [], 0
        if isinstance(ex, ast.BinOp) and isinstance(ex.op, ast.Sub) and _k(ex.left) == k and isinstance(ex.right, ast.Constant):
            return [], -int(ex.right.value)
        return None
    if isinstance(e, ast.BinOp) and isinstance(e.op, ast.Mult):
        l, r = _poly(e.left, x, k), _poly(e.right, x, k)
        def facs(z):
            if isinstance(z, ast.BinOp) and isinstance(z.op, ast.Mult):
                return facs(z.left) + facs(z.right)
            return [_k(z)]
        if l is not None and r is None:
            return l[0] + facs(e.right), l[1]
        if r is not None and l is None:
            return r[0] + facs(e.left), r[1]
        if l is None and r is None:
            return None
        return None
    return None


def _deriv(coefs, shift, k):
    """d/dx of prod(coefs) * x**(k+shift) = prod(coefs) * (k+shift) * x**(k+shift-1)"""
    f = k if shift == 0 else "%s%+d" % (k, shift)
    return sorted(coefs + [f]), shift - 1


def r15(repo, rep):
    rep.rule("R15", "get_PGF/get_PGFPrime/get_PGFDPrime are Pk . (polynomial in x) with each the power-rule derivative of the "
                    "previous one over the same support 0..maxk; estimate_R0 = T*psi''(1)/psi'(1) with T = tau/(tau+gamma)")
    forms = {}
    for name in ("get_PGF", "get_PGFPrime", "get_PGFDPrime"):
        f = repo.f(name)
        rep.analysed(f)
        rets = [n for n in own_nodes(f.node) if isinstance(n, ast.Return)]
        ok = len(rets) == 1 and isinstance(rets[0].value, ast.Lambda)
        form = None
        if ok:
            lam = rets[0].value
            x = lam.args.args[0].arg
            b = lam.body
            if isinstance(b, ast.Call) and isinstance(b.func, ast.Attribute) and b.func.attr == "dot" and len(b.args) == 1:
                pk = _k(b.func.value)
                # what ks / Pkarray are
                env = {_k(s.targets[0]): _k(s.value) for s in f.node.body if isinstance(s, ast.Assign)}
                arg = b.args[0]
                knames = [nm for nm, v in env.items() if v.startswith("np.linspace(0,") or v.startswith("np.arange(")]
                kname = knames[0] if knames else None
                parsed = _poly(arg, x, kname) if kname else None
                sup_ok = kname is not None and env.get(kname) in ("np.linspace(0,maxk,maxk+1)", "np.arange(maxk+1)", "np.arange(0,maxk+1)") \
                    and env.get("maxk") == "max(%s.keys())" % f.params[0]
                pk_ok = env.get(pk) in ("np.array([%s.get(k,0)forkin%s])" % (f.params[0], kname),)
                if parsed is not None:
                    form = (sorted(parsed[0]), parsed[1], kname)
                # a derivative raises x to ks - 1 / ks - 2, negative for the smallest degrees: an INTEGER degree grid makes
                # psi'(1) fail ("integers to negative integer powers") where the float grid gives 0 * 1.0 ** -1
                int_grid = (env.get(kname) or "").startswith("np.arange(") and "float" not in (env.get(kname) or "") \
                    and "." not in (env.get(kname) or "").replace("np.arange", "")
                neg = parsed is not None and parsed[1] != 0
                rep.ob("R15", not (int_grid and neg), "%s: the degree grid is a float array where negative exponents occur" % name, func=f,
                       node=rets[0], construct="%s grid %s, exponent offset %s" % (name, env.get(kname), parsed[1] if parsed else None),
                       detail="" if not (int_grid and neg) else "`%s` is an integer array: %s(1) (an integer argument, as the package itself "
                       "passes) raises instead of returning the derivative" % (env.get(kname), name))
                rep.ob("R15", sup_ok and pk_ok, "%s: probabilities of every degree 0..maxk, in that order" % name, func=f, node=rets[0],
                       construct="%s support %s=%s, %s=%s" % (name, kname, env.get(kname), pk, env.get(pk)),
                       detail="" if (sup_ok and pk_ok) else "support or probability array changed (a dropped degree changes psi(1) or a derivative)")
        rep.ob("R15", form is not None, "%s: body is Pk . (coef * x**(ks - c))" % name, func=f, node=rets[0] if rets else f.node,
               construct="%s form %s" % (name, form), detail="" if form is not None else "lambda body is not a recognised polynomial form")
        forms[name] = form
    if all(forms.values()):
        k = forms["get_PGF"][2]
        ok0 = forms["get_PGF"][:2] == ([], 0)
        rep.ob("R15", ok0, "get_PGF(x) = sum_k P(k) x**k", func=repo.f("get_PGF"), node=repo.f("get_PGF").node,
               construct="psi form %s" % (forms["get_PGF"],), detail="" if ok0 else "psi is not sum P(k) x**k")
        d1 = _deriv(*forms["get_PGF"][:2], k=k)
        ok1 = (forms["get_PGFPrime"][0], forms["get_PGFPrime"][1]) == (d1[0], d1[1])
        rep.ob("R15", ok1, "get_PGFPrime is d/dx get_PGF (power rule, term by term)", func=repo.f("get_PGFPrime"),
               node=repo.f("get_PGFPrime").node, construct="psi' form %s vs derivative %s" % (forms["get_PGFPrime"][:2], d1),
               detail="" if ok1 else "psi' is not the derivative of psi")
        d2 = _deriv(forms["get_PGFPrime"][0], forms["get_PGFPrime"][1], k=k)
        got2 = (forms["get_PGFDPrime"][0], forms["get_PGFDPrime"][1])
        ok2 = got2 == (d2[0], d2[1])
        rep.ob("R15", ok2, "get_PGFDPrime is d/dx get_PGFPrime (power rule, term by term)", func=repo.f("get_PGFDPrime"),
               node=repo.f("get_PGFDPrime").node, construct="psi'' form %s vs derivative %s" % (got2, d2),
               detail="" if ok2 else "psi'' is not the derivative of psi'")
    # estimate_R0
    f = repo.f("estimate_R0")
    rep.analysed(f)
    env = {_k(s.targets[0]): _k(s.value) for s in f.node.body if isinstance(s, ast.Assign)}
    rets = [n for n in own_nodes(f.node) if isinstance(n, ast.Return)]
    ok = len(rets) == 1 and isinstance(rets[0].value, ast.BinOp)
    if ok:
        v = rets[0].value
        ok = isinstance(v.op, ast.Div) and isinstance(v.left, ast.BinOp) and isinstance(v.left.op, ast.Mult)
        if ok:
            T, num, den = v.left.left, v.left.right, v.right
            ok = _k(T) == "transmissibility" and isinstance(num, ast.Call) and isinstance(den, ast.Call) and \
                env.get(_k(num.func)) == "get_PGFDPrime(Pk)" and env.get(_k(den.func)) == "get_PGFPrime(Pk)" and \
                _k(num.args[0]) in ("1.0", "1", "1.") and _k(den.args[0]) in ("1.0", "1", "1.") and env.get("Pk") == "get_Pk(G)"
    rep.ob("R15", ok, "estimate_R0 = T * psi''(1) / psi'(1) on the degree distribution of G", func=f, node=rets[0] if rets else f.node,
           construct="estimate_R0 return %s" % (short(rets[0].value) if rets else None), detail="" if ok else "R0 formula changed")
    tdef = [c for c in walk_function(f.node) if isinstance(c.stmt, ast.Assign) and _k(c.stmt.targets[0]) == "transmissibility"]
    okt = len(tdef) == 1 and _k(tdef[0].stmt.value) in ("tau/(tau+gamma)", "tau/(gamma+tau)") and "transmissibilityisNone" in _fact_set(tdef[0])
    rep.ob("R15", okt, "estimate_R0: T = tau/(tau+gamma) when not given", func=f, node=tdef[0].stmt if tdef else f.node,
           construct="T default", detail="" if okt else "default transmissibility changed")
    # get_Pk
    f = repo.f("get_Pk")
    rep.analysed(f)
    env = {_k(s.targets[0]): _k(s.value) for s in f.node.body if isinstance(s, ast.Assign)}
    pk = env.get("Pk") or ""
    for nx_ in N_EXPRS:
        pk = pk.replace("float(%s)" % nx_, "N").replace(nx_, "N")
    ok = env.get("Nk") == "Counter(dict(G.degree()).values())" and pk in (
        "{x:Nk[x]/NforxinNk.keys()}", "{x:Nk[x]/NforxinNk}")
    rep.ob("R15", ok, "get_Pk = degree histogram / number of nodes", func=f, node=f.node, construct="get_Pk body",
           detail="" if ok else "get_Pk changed")
    # get_Pnk: every (node, neighbour) contributes 1/(k1*Nk[k1]) to Pnk[k1][k2]
    f = repo.f("get_Pnk")
    rep.analysed(f)
    ok = False
    # a degree map read once (D = dict(G.degree())) stands for the calls it replaces: D[x] is G.degree(x)
    dmaps = {_k(s.targets[0]) for s in f.node.body if isinstance(s, ast.Assign) and len(s.targets) == 1
             and isinstance(s.targets[0], ast.Name) and _k(s.value) == "dict(G.degree())"}
    stores = [x.id for x in ast.walk(f.node) if isinstance(x, ast.Name) and isinstance(x.ctx, ast.Store)]
    dmaps = {d for d in dmaps if stores.count(d) == 1}
    if dmaps:
        import copy

        class _D(ast.NodeTransformer):
            def visit_Subscript(self, n):
                self.generic_visit(n)
                if isinstance(n.value, ast.Call) and _k(n.value) == "dict(G.degree())" and isinstance(n.ctx, ast.Load):
                    return ast.copy_location(ast.parse("G.degree(%s)" % ast.unparse(n.slice), mode="eval").body, n)
                return n

            def visit_Name(self, n):
                if n.id in dmaps and isinstance(n.ctx, ast.Load):
                    return ast.copy_location(ast.parse("dict(G.degree())", mode="eval").body, n)
                return n
        g = ast.fix_missing_locations(_D().visit(copy.deepcopy(f.node)))
        fnode = g
    else:
        fnode = f.node
    inner = None
    for c in walk_function(fnode):
        st = c.stmt
        if isinstance(st, ast.AugAssign) and _k(st.target) == "Pnk[k1][k2]" and isinstance(st.op, ast.Add) and \
                _k(st.value) in ("1.0/(k1*Nk[k1])", "1/(k1*Nk[k1])", "1./(k1*Nk[k1])"):
            ok = len(c.loops) == 2
            inner = c.loops[-1]
    env = {_k(s.targets[0]): _k(s.value) for s in ast.walk(fnode) if isinstance(s, ast.Assign)}
    # k2 runs over the degrees of the neighbours of `node`: through a list of them, or directly in the neighbour loop
    via_list = env.get("nbr_degrees") == "[G.degree(nbr)fornbrinG.neighbors(node)]" and inner is not None and _k(inner.iter) == "nbr_degrees"
    direct = inner is not None and _k(inner.iter) == "G.neighbors(node)" and isinstance(inner.target, ast.Name) \
        and env.get("k2") == "G.degree(%s)" % inner.target.id
    ok = ok and env.get("k1") == "G.degree(node)" and (via_list or direct) \
        and env.get("Nk") == "Counter(dict(G.degree()).values())"
    rep.ob("R15", ok, "get_Pnk: each neighbour of each degree-k1 node adds 1/(k1*N_k1) to row k1 (rows sum to 1)", func=f, node=f.node,
           construct="get_Pnk body", detail="" if ok else "get_Pnk changed")


def subsample_rule(repo, rep):
    rep.rule("SUB", "subsample: two-pointer scan advancing while times[i] <= report_time (last observation at or before), same scan "
                    "for one/two/three series via recursion that shifts the remaining series; get_time_shift: first index with L >= threshold")
    f = repo.f("subsample")
    rep.analysed(f)
    outer = [s for s in f.node.body if isinstance(s, ast.While)]
    ok = len(outer) == 1
    inner = [s for s in outer[0].body if isinstance(s, ast.While)] if ok else []
    ok = ok and len(inner) == 1
    if ok:
        facts = {_k(fx) for fx, pol in atomic_facts(inner[0].test, True)}
        rp, ob = "next_report_index", "next_observation_index"
        okc = "times[%s]<=report_times[%s]" % (ob, rp) in facts or "report_times[%s]>=times[%s]" % (rp, ob) in facts
        okb = "%s<len(times)" % ob in facts
        rep.ob("SUB", okc, "subsample: an observation at exactly the report time counts (<=)", func=f, node=inner[0],
               construct="inner scan test %s" % sorted(facts), detail="" if okc else "scan comparison is not times[i] <= report_times[j]")
        rep.ob("SUB", okb, "subsample: the scan stops at the last observation (final value is held)", func=f, node=inner[0],
               construct="inner bound", detail="" if okb else "bound on the observation index changed")
        ib = inner[0].body
        okv = len(ib) == 2 and isinstance(ib[0], ast.Assign) and isinstance(ib[0].targets[0], ast.Name) \
            and _k(ib[0].value) == "status1[%s]" % ob and _k(ib[1]) == "%s+=1" % ob
        cand = ib[0].targets[0].id if okv else None
        rep.ob("SUB", okv, "subsample: the candidate is the value of the observation just passed", func=f, node=inner[0],
               construct="inner body %s" % [_k(x) for x in ib], detail="" if okv else "candidate update changed")
        obody = [x for x in outer[0].body if not isinstance(x, ast.While)]
        oko = okv and len(obody) == 2 and _append_of(obody[0]) is not None and _k(_append_of(obody[0])[1]) == cand \
            and _k(obody[1]) == "%s+=1" % rp and outer[0].body.index(inner[0]) == 0 \
            and _k(outer[0].test) == "%s<len(report_times)" % rp
        if oko:
            # what is appended to is what is returned first (as an array)
            recv = _k(_append_of(obody[0])[0])
            oko = any(_k(n.value).replace("np.array(%s)" % recv, recv) == recv for n in ast.walk(f.node)
                      if isinstance(n, ast.Assign) and isinstance(n.value, ast.Call) and _k(n.value.func) == "np.array")
        rep.ob("SUB", oko, "subsample: exactly one value per report time, in order", func=f, node=outer[0],
               construct="outer loop %s" % [_k(x) for x in obody], detail="" if oko else "outer loop changed")
        # the pointer is never reset: one pass
        resets = [n for n in ast.walk(outer[0]) if isinstance(n, ast.Assign) and _k(n.targets[0]) in (rp, ob)]
        rep.ob("SUB", not resets, "subsample: pointers only advance", func=f, node=resets[0] if resets else outer[0],
               construct="pointer resets %d" % len(resets), detail="" if not resets else "a scan pointer is reset inside the loop")
    else:
        rep.ob("SUB", False, "subsample: two-pointer scan", func=f, node=f.node, construct="scan shape", detail="scan loops changed shape")
    g = [c for c in walk_function(f.node) if isinstance(c.stmt, ast.Raise)]
    okg = len(g) == 1 and _fact_set(g[0]) == {"report_times[0]<times[0]"}
    rep.ob("SUB", okg, "subsample: a report before the first observation is rejected", func=f, node=g[0].stmt if g else f.node,
           construct="guard", detail="" if okg else "guard changed")
    # recursion: forwards (report_times, times) and shifts the remaining series, returns in order
    sites, _ = sites_of(repo)
    rec = [s for s in sites if s.caller is f and s.callee is f]
    for s in rec:
        b = {k: _k(v) for k, v in s.binding.items() if isinstance(v, ast.AST)}
        ctx = contexts_by_node(f.node)[id(s.node)]
        three = "status3isnotNone" in _fact_set(ctx)
        want = {"report_times": "report_times", "times": "times", "status1": "status2"}
        if three:
            want["status2"] = "status3"
        ok = b == want
        rep.ob("SUB", ok, "subsample recursion (%s series): same grids, remaining series shifted down" % ("three" if three else "two"),
               func=f, node=s.node, construct="recursion binding %s" % sorted(b.items()), detail="" if ok else "recursive call binds %s" % b)
    rets = [(c, c.stmt) for c in walk_function(f.node) if isinstance(c.stmt, ast.Return)]
    wantr = {"(report_status1,report_status2,report_status3)", "(report_status1,report_status2)", "report_status1"}
    gotr = {_k(s.value) for c, s in rets}
    rep.ob("SUB", gotr == wantr and len(rec) == 2, "subsample returns the resampled series in the order given", func=f, node=f.node,
           construct="returns %s" % sorted(gotr), detail="" if gotr == wantr else "return order changed")
    f = repo.f("get_time_shift")
    rep.analysed(f)
    lp = [s for s in f.node.body if isinstance(s, ast.For)]
    ok = len(lp) == 1 and _k(lp[0].iter) == "enumerate(times)" and len(lp[0].body) == 1 and isinstance(lp[0].body[0], ast.If) \
        and _k(lp[0].body[0].test) in ("L[index]>=threshold", "threshold<=L[index]") and isinstance(lp[0].body[0].body[0], ast.Break)
    rr = [n for n in own_nodes(f.node) if isinstance(n, ast.Return)]
    ok = ok and len(rr) == 1 and _k(rr[0].value) == _k(lp[0].target.elts[1])
    rep.ob("SUB", ok, "get_time_shift: linear scan for the first time with L >= threshold", func=f, node=f.node,
           construct="get_time_shift body: %s" % ok, detail="" if ok else "not a first-crossing scan any more (e.g. a search that assumes a monotone series)")


def investigation_rule(repo, rep):
    rep.rule("INV", "Simulation_Investigation: node_status and get_statuses are the same computation (number of change times <= "
                    "query, status at index count-1); summary applies +1 to the new and -1 to the old status at the change time; "
                    "t/S/I/R read the summary; transmissions() returns what the constructor stored")
    ns = repo.method("Simulation_Investigation", "node_status")
    gs = repo.method("Simulation_Investigation", "get_statuses")
    sm = repo.method("Simulation_Investigation", "summary")
    init = repo.method("Simulation_Investigation", "__init__")
    for f in (ns, gs, sm, init):
        rep.analysed(f)

    def lookup_shape(f):
        """(comparison, index offset) of `status at the latest change at or before time`:
        count = len([x for x in <history times of node> if x <= time]); status = <history statuses>[count-1]"""
        env = {}
        for n in ast.walk(f.node):
            if isinstance(n, ast.Assign) and isinstance(n.targets[0], ast.Name):
                env[n.targets[0].id] = n.value
        out = []
        for n in ast.walk(f.node):
            if isinstance(n, ast.Subscript) and isinstance(n.value, ast.Subscript) and _k(n.value.slice) == "1" \
                    and isinstance(n.value.value, ast.Subscript) and _k(n.value.value.value) == "self._node_history_":
                node = _k(n.value.value.slice)
                idx = n.slice
                if not (isinstance(idx, ast.BinOp) and isinstance(idx.op, ast.Sub) and _k(idx.right) == "1"):
                    out.append(("index", _k(idx)))
                    continue
                cnt = env.get(_k(idx.left), idx.left)
                if not (isinstance(cnt, ast.Call) and _k(cnt.func) in ("len", "sum") and isinstance(cnt.args[0], (ast.ListComp, ast.GeneratorExp))):
                    out.append(("count", _k(cnt)))
                    continue
                g = cnt.args[0].generators[0]
                src = env.get(_k(g.iter), g.iter)
                if _k(src) != "self._node_history_[%s][0]" % node or len(g.ifs) != 1:
                    out.append(("source", _k(src)))
                    continue
                t = g.ifs[0]
                v = _k(g.target)
                if isinstance(t, ast.Compare) and len(t.ops) == 1:
                    l, r, op = _k(t.left), _k(t.comparators[0]), type(t.ops[0]).__name__
                    if (l, r, op) == (v, "time", "LtE") or (l, r, op) == ("time", v, "GtE"):
                        out.append(("ok", "<="))
                        continue
                    out.append(("cmp", "%s %s %s" % (l, op, r)))
                    continue
                out.append(("cmp", _k(t)))
        return out
    s1, s2 = lookup_shape(ns), lookup_shape(gs)
    ok1 = s1 == [("ok", "<=")]
    rep.ob("INV", ok1, "node_status: status of the latest change at or before the query time", func=ns, node=ns.node,
           construct="node_status lookup %s" % s1, detail="" if ok1 else "node_status is not `statuses[#(change times <= time) - 1]`: %s" % s1)
    ok2 = s2 == [("ok", "<=")]
    rep.ob("INV", ok2, "get_statuses: the same computation as node_status for every requested node", func=gs, node=gs.node,
           construct="get_statuses lookup %s" % s2, detail="" if ok2 else "get_statuses is not `statuses[#(change times <= time) - 1]`: %s" % s2)
    dflt = [c for c in walk_function(gs.node) if isinstance(c.stmt, ast.Assign) and _k(c.stmt.targets[0]) == "time"]
    okd = len(dflt) == 1 and _k(dflt[0].stmt.value) == "self._t_[0]" and "timeisNone" in _fact_set(dflt[0])
    rep.ob("INV", okd, "get_statuses: default time is the first time of the simulation", func=gs, node=dflt[0].stmt if dflt else gs.node,
           construct="default time", detail="" if okd else "default query time changed")
    # summary deltas (local aliases such as node_statuses = self._node_history_[node][1] are written out first)
    import re as _re
    alias = {}
    for x in own_nodes(sm.node):
        if isinstance(x, ast.Assign) and len(x.targets) == 1 and isinstance(x.targets[0], ast.Name):
            alias.setdefault(x.targets[0].id, []).append(x.value)
    alias = {k: v[0] for k, v in alias.items() if isinstance(v[0], (ast.Subscript, ast.Attribute))}

    def ex(e, depth=0):
        t = _k(e)
        for _ in range(4):
            t2 = t
            for nm, v in alias.items():
                t2 = _re.sub(r"(?<![\w.])%s(?![\w])" % _re.escape(nm), _k(v), t2)
            if t2 == t:
                break
            t = t2
        return t
    NODE = r"self\._node_history_\[(\w+)\]"
    okp = okm = okz = False
    dname = None
    for c in walk_function(sm.node):
        st = c.stmt
        if isinstance(st, ast.For) and isinstance(st.iter, ast.Call) and _k(st.iter.func) == "zip" and isinstance(st.target, ast.Tuple) \
                and len(st.target.elts) == 3 and len(st.iter.args) == 3:
            args = [ex(a) for a in st.iter.args]
            m0 = _re.fullmatch(NODE + r"\[1\]\[1:\]", args[0])
            okz = bool(m0) and args[1] == "self._node_history_[%s][1][:-1]" % m0.group(1) and args[2] == "self._node_history_[%s][0][1:]" % m0.group(1)
            new_, old_, t_ = [_k(e) for e in st.target.elts]
            for b_ in st.body:
                tx = _k(b_)
                mp = _re.fullmatch(r"(\w+)\[%s\]\[%s\](?:\+=1|=\1\[%s\]\[%s\]\+1)" % (new_, t_, new_, t_), tx)
                mm_ = _re.fullmatch(r"(\w+)\[%s\]\[%s\](?:-=1|=\1\[%s\]\[%s\]-1)" % (old_, t_, old_, t_), tx)
                if mp:
                    okp, dname = True, mp.group(1)
                if mm_:
                    okm = okm or (dname is None or mm_.group(1) == dname)
    rep.ob("INV", okz and okp and okm, "summary: each change adds 1 to the new status and removes 1 from the old one at the change time",
           func=sm, node=sm.node, construct="summary deltas zip=%s +1=%s -1=%s" % (okz, okp, okm),
           detail="" if (okz and okp and okm) else "summary delta bookkeeping changed (consecutive (new, old, time) triples of one node's history; "
           "+1 for the new status and -1 for the old one at that time)")
    d = dname or "delta"
    stm = [ex(x) for x in own_nodes(sm.node) if isinstance(x, (ast.Assign, ast.AugAssign, ast.Expr))]
    ini = any(_re.fullmatch(r"%s\[%s\[1\]\[0\]\]\[%s\[0\]\[0\]\](?:\+=1|=.*\+1)" % (d, NODE, NODE), t) for t in stm)
    srt = any(_re.fullmatch(r"(\w+)=np\.array\(sorted\((?:list\()?(\w+)\)?\)\)", t) for t in stm)
    acc = any(_re.fullmatch(r"(.+)\[(\w+)\]\.append\(\1\[\2\]\[-1\]\+%s\[\2\]\[(\w+)\]\)" % d, t) for t in stm)
    oki = ini and srt and acc
    rep.ob("INV", oki, "summary: starts from the initial statuses and accumulates the deltas in time order", func=sm, node=sm.node,
           construct="summary accumulation initial=%s sorted=%s accumulate=%s" % (ini, srt, acc),
           detail="" if oki else "summary accumulation changed (initial +1 at the first change time of each node; times sorted; "
           "running value = previous value + delta at that time)")
    for nm, key in (("t", "self._summary_[0]"), ("S", "self._summary_[1]['S']"), ("I", "self._summary_[1]['I']"), ("R", "self._summary_[1]['R']")):
        m = repo.method("Simulation_Investigation", nm)
        rets = [_k(n.value) for n in own_nodes(m.node) if isinstance(n, ast.Return)]
        rep.ob("INV", rets == [key], "%s() reads the cached summary" % nm, func=m, node=m.node, construct="%s() -> %s" % (nm, rets),
               detail="" if rets == [key] else "%s() no longer returns %s" % (nm, key))
    a = [n for n in own_nodes(init.node) if isinstance(n, ast.Assign) and _k(n.targets[0]) in ("self._transmissions_", "self._node_history_", "self.G")]
    want = {"self._transmissions_": "transmissions", "self._node_history_": "node_history", "self.G": "G"}
    got = {_k(n.targets[0]): _k(n.value) for n in a}
    rep.ob("INV", got == want, "constructor stores G, the histories and the transmissions it was given", func=init, node=init.node,
           construct="ctor stores %s" % sorted(got.items()), detail="" if got == want else "constructor stores %s" % got)
    tr = repo.method("Simulation_Investigation", "transmissions")
    rets = [_k(n.value) for n in own_nodes(tr.node) if isinstance(n, ast.Return)]
    rep.ob("INV", rets == ["self._transmissions_"], "transmissions() returns the stored list", func=tr, node=tr.node,
           construct="transmissions() -> %s" % rets, detail="")
    tt = repo.method("Simulation_Investigation", "transmission_tree")
    t = ast.unparse(tt.node).replace(" ", "")
    ok = "fort,u,vinself._transmissions_:" in t.replace("\n", "") or "fort,u,vinself._transmissions_" in t
    ok = ok and "ifuisnotNone" in t and "T.add_edge(u,v,time=t)" in t
    rep.ob("INV", ok, "transmission_tree: one edge source->target per sourced record", func=tt, node=tt.node, construct="transmission_tree body",
           detail="" if ok else "tree construction changed")
    # the graph handed out is built in the call: callers (hierarchy_pos users add an artificial root) may change it
    # without changing what the next call returns
    fresh = {_k(n.targets[0]) for n in own_nodes(tt.node) if isinstance(n, ast.Assign) and len(n.targets) == 1
             and isinstance(n.targets[0], ast.Name) and isinstance(n.value, ast.Call) and _k(n.value.func).endswith("DiGraph")}
    rets = [_k(n.value) for n in own_nodes(tt.node) if isinstance(n, ast.Return)]
    stores = sorted({_k(x) for n in own_nodes(tt.node) if isinstance(n, (ast.Assign, ast.AugAssign, ast.AnnAssign))
                     for tg in (n.targets if isinstance(n, ast.Assign) else [n.target]) for x in ast.walk(tg)
                     if isinstance(x, ast.Attribute) and isinstance(x.ctx, ast.Store) and _k(x.value) == "self"})
    okf = bool(rets) and all(r in fresh for r in rets) and not stores
    rep.ob("INV", okf, "transmission_tree: every call returns a graph built in that call (no shared object)", func=tt, node=tt.node,
           construct="transmission_tree returns %s fresh=%s stores=%s" % (rets, sorted(fresh), stores),
           detail="" if okf else "transmission_tree returns %s and stores %s on the object: the graph handed to one caller is "
           "the graph the next caller gets" % (rets, stores))


def full_data_handoff(repo, rep):
    rep.rule("HANDOFF", "full-data hand-off: histories are built only from events that were executed (scheduled-but-unexecuted "
                        "times are filtered by the final status), and _transform_to_node_history_ receives (infection times, "
                        "recovery times, tmin) in that order with SIR matching the simulator")
    sites, _ = sites_of(repo)
    f = repo.f("fast_nonMarkov_SIR")
    rep.analysed(f)
    want = {"pred_inf_time": ("infection_times", ("status[node]!='S'", "status[node]in('I','R')", "status[node]in['I','R']")),
            "rec_time": ("recovery_times", ("status[node]=='R'",))}
    found = {}
    for n in own_nodes(f.node):
        if isinstance(n, ast.Assign) and isinstance(n.value, ast.DictComp) and isinstance(n.targets[0], ast.Name):
            g = n.value.generators[0]
            src = _k(g.iter).replace(".items()", "")
            if src in want and isinstance(g.target, ast.Tuple):
                nodev, timev = [_k(e) for e in g.target.elts]
                flt = [_k(c).replace(nodev, "node").replace('"', "'") for c in g.ifs]
                okv = _k(n.value.key) == nodev and _k(n.value.value) == timev
                found[src] = (n, n.targets[0].id, flt, okv)
    for src, (name, filters) in want.items():
        got = found.get(src)
        ok = got is not None and got[1] == name and got[3] and len(got[2]) == 1 and got[2][0] in filters
        rep.ob("HANDOFF", ok, "fast_nonMarkov_SIR: %s keeps a scheduled time only if the event happened (%s)" % (name, filters[0]),
               func=f, node=got[0] if got else f.node, construct="%s from %s filtered by %s" % (name, src, got[2] if got else None),
               detail="" if ok else "%s is not {node: time for node, time in %s.items() if %s}: times of events that never ran would "
               "enter the node histories" % (name, src, filters[0]))
    # what the hand-off reads must have been written for the initial nodes: their infection time is tmin
    enq = [n for n in f.node.body if isinstance(n, ast.For) and _k(n.iter) == "initial_infecteds"
           and any(isinstance(x, ast.Call) and _k(x.func).endswith(".add") for x in ast.walk(n))]
    oki = False
    if len(enq) == 1:
        u = _k(enq[0].target)
        oki = any(isinstance(b, ast.Assign) and _k(b.targets[0]) == "pred_inf_time[%s]" % u and _k(b.value) == "tmin" for b in enq[0].body)
    rep.ob("HANDOFF", oki, "fast_nonMarkov_SIR: every initially infected node gets infection time tmin in the table the histories are built from",
           func=f, node=enq[0] if enq else f.node, construct="pred_inf_time[u] = tmin in the initial enqueue loop: %s" % oki,
           detail="" if oki else "the loop that enqueues the initial infections no longer sets pred_inf_time[u] = tmin: with full data the "
           "initial nodes have no (or a later, predicted) infection time")
    for fname, sir in (("fast_nonMarkov_SIR", True), ("Gillespie_SIR", True), ("fast_SIS", False), ("fast_nonMarkov_SIS", False),
                       ("Gillespie_SIS", False)):
        g = repo.f(fname)
        rep.analysed(g)
        ss = [s for s in sites if s.caller is g and isinstance(s.callee, Func) and s.callee.name == "_transform_to_node_history_"]
        ok = len(ss) == 1 and not ss[0].error
        if ok:
            b = ss[0].binding
            sv = b.get("SIR")
            sval = sv.value if isinstance(sv, ast.Constant) else (True if sv is None else None)
            ok = _k(b.get("infection_times")) == "infection_times" and _k(b.get("recovery_times")) == "recovery_times" \
                and _k(b.get("tmin")) == "tmin" and sval is sir
        rep.ob("HANDOFF", ok, "%s: node histories = _transform_to_node_history_(infection_times, recovery_times, tmin, SIR=%s)" % (fname, sir),
               func=g, node=ss[0].node if ss else g.node,
               construct="%s hand-off %s" % (fname, sorted((k, _k(v)) for k, v in ss[0].binding.items() if isinstance(v, ast.AST)) if ss else None),
               detail="" if ok else "arguments of the history reconstruction are crossed or the SIR flag does not match the simulator")
    # Gillespie_SIR keeps the single infection / recovery time of each node
    g = repo.f("Gillespie_SIR")
    for nm in ("infection_times", "recovery_times"):
        d = [n for n in own_nodes(g.node) if isinstance(n, ast.Assign) and _k(n.targets[0]) == nm and isinstance(n.value, ast.DictComp)]
        ok = len(d) == 1 and _k(d[0].value.generators[0].iter) == "%s.items()" % nm and not d[0].value.generators[0].ifs
        if ok:
            kk, vv = [_k(e) for e in d[0].value.generators[0].target.elts]
            ok = _k(d[0].value.key) == kk and _k(d[0].value.value) == "%s[0]" % vv
        rep.ob("HANDOFF", ok, "Gillespie_SIR: %s maps every node to the time of its (only) such event" % nm, func=g, node=d[0] if d else g.node,
               construct="%s conversion" % nm, detail="" if ok else "conversion of %s changed" % nm)


def tmin_relative_defaults(repo, rep):
    rep.rule("TMIN", "sentinel times are expressed relative to tmin: the 'never infected' recovery time is tmin - c (c > 0), the "
                     "'no infection predicted' time is +Inf; the simulation clock starts at tmin")
    for name in ("fast_nonMarkov_SIR", "fast_SIS", "fast_nonMarkov_SIS"):
        f = repo.f(name)
        rep.analysed(f)
        for n in own_nodes(f.node):
            if isinstance(n, ast.Assign) and _k(n.targets[0]) in ("rec_time", "pred_inf_time") and isinstance(n.value, ast.Call) \
                    and _k(n.value.func) == "defaultdict" and n.value.args and isinstance(n.value.args[0], ast.Lambda):
                body = n.value.args[0].body
                if _k(n.targets[0]) == "rec_time":
                    ok = isinstance(body, ast.BinOp) and isinstance(body.op, ast.Sub) and _k(body.left) == "tmin" \
                        and isinstance(body.right, ast.Constant) and isinstance(body.right.value, (int, float)) and body.right.value > 0
                    why = "the default recovery time of a never-infected node must lie before tmin whatever tmin is (tmin - 1); %s does not for tmin <= %s" % (_k(body), _k(body))
                else:
                    ok = _k(body) in ("float('Inf')",)
                    why = "default predicted infection time must be +Inf"
                rep.ob("TMIN", ok, "%s: default of %s" % (name, _k(n.targets[0])), func=f, node=n, construct="%s default %s" % (_k(n.targets[0]), _k(body)),
                       detail="" if ok else why)
    for name in ("Gillespie_SIR", "Gillespie_SIS", "Gillespie_simple_contagion", "Gillespie_complex_contagion"):
        f = repo.f(name)
        rep.analysed(f)
        loop = [x for x in f.node.body if isinstance(x, ast.While)][0]
        tvar = None
        for fx, pol in atomic_facts(loop.test, True):
            if isinstance(fx, ast.Compare) and isinstance(fx.ops[0], ast.Lt) and _k(fx.comparators[0]) == "tmax" and isinstance(fx.left, ast.Name):
                tvar = fx.left.id
        if tvar is None:
            continue
        defs = [x for x in f.node.body[:f.node.body.index(loop)] if isinstance(x, (ast.Assign, ast.AugAssign))
                and _k(x.targets[0] if isinstance(x, ast.Assign) else x.target) == tvar]
        ok = len(defs) >= 1 and isinstance(defs[0], ast.Assign) and _k(defs[0].value) == "tmin"
        for d in defs[1:]:
            v = _k(d.value)
            ok = ok and ((isinstance(d, ast.AugAssign) and isinstance(d.op, ast.Add) and v == "delay") or v in ("%s+delay" % tvar, "delay+%s" % tvar))
        rep.ob("TMIN", ok, "%s: the clock starts at tmin and only advances by the drawn delays" % name, func=f, node=defs[0] if defs else loop,
               construct="%s clock defs before the loop: %s" % (name, [_k(d) for d in defs]),
               detail="" if ok else "the event clock `%s` is not initialised to tmin (+ delay): times are reported from another origin and tmax is measured from it" % tvar)
        # events are reported at the clock itself (no offset added when recording)
    for name in ("discrete_SIR", "basic_discrete_SIS"):
        f = repo.f(name)
        rep.analysed(f)
        rst, names = series_names(f)
        tser = names[0] if names else "t"
        for n in own_nodes(f.node):
            if isinstance(n, ast.Assign) and _k(n.targets[0]) == "next_time":
                ok = _k(n.value) in ("%s[-1]+1" % tser, "1+%s[-1]" % tser)
                rep.ob("TMIN", ok, "%s: the time of the next step is the last reported time + 1" % name, func=f, node=n,
                       construct="next_time = %s" % _k(n.value), detail="" if ok else "next_time is %s: only equal to the next step when tmin is 0" % _k(n.value))
