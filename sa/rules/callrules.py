"""R1 (call-binding agreement), R16 (semantic parameters are read),
R8 (Simulation_Investigation constructor agreement)."""
import ast

from ..core import own_nodes, names_in, short, Func, is_const
from ..calls import collect_sites, dependency_closure, depends_on
from .. import tables as T

_cache = {}


def sites_of(repo):
    # cached on the Repo object itself (an id()-keyed table would hand a dead tree's sites to a new Repo
    # that happens to reuse the address, e.g. in the self-test worker processes)
    got = getattr(repo, "_sites_cache", None)
    if got is None:
        got = collect_sites(repo)
        repo._sites_cache = got
    return got


def in_scope(func):
    f = func
    while f is not None:
        if f.name in T.OUT_OF_SCOPE_FUNCS:
            return False
        if f.cls and f.name in T.OUT_OF_SCOPE_CLASS_METHODS:
            return False
        if f.cls == "_time_series_":
            return False
        f = f.parent
    return True


def _root(func):
    f = func
    while f.parent is not None:
        f = f.parent
    return f


def r1(repo, rep, callers=None, callees=None, floor_sites=0):
    """callers / callees: iterables of short function names restricting which
    sites are examined (a site is examined if its outermost caller is in
    `callers` or its callee is in `callees`; None = no restriction)."""
    rep.rule("R1", "call-binding agreement: binding succeeds; no positional actual named "
                   "like another formal of the callee (crossing); same-named formals are fed "
                   "from the caller's parameter (no dropped pass-through)")
    sites, unresolved = sites_of(repo)
    callers = set(callers) if callers is not None else None
    callees = set(callees) if callees is not None else None
    n = 0
    for s in sites:
        if not in_scope(s.caller) or (isinstance(s.callee, Func) and not in_scope(s.callee)):
            continue
        rc = _root(s.caller).name
        ok_scope = (callers is None and callees is None) or \
                   (callers is not None and rc in callers) or \
                   (callees is not None and s.callee.name in callees)
        if not ok_scope:
            continue
        n += 1
        rep.analysed(s.caller)
        inst = "%s -> %s [%s]" % (s.caller.qual, s.callee.qual, s.kind)
        # (a) binding succeeds
        rep.ob("R1a", s.error is None, inst,
               detail=s.error or "binds", func=s.caller, node=s.node,
               construct="%s(...) %s" % (s.callee.name, s.error or ""))
        if s.error:
            continue
        role_site = s.callee.name in T.TRANS_HANDLERS and s.kind in ("deferred", "direct") \
            and s.caller.name in T.TRANS_HANDLERS
        dep = dependency_closure(s.caller)
        # also names of enclosing functions' parameters are visible
        cal = s.callee
        for fml, act in s.binding.items():
            if not isinstance(act, ast.AST):
                continue
            if role_site and fml in T.ROLE_FORMALS:
                continue
            # (b) crossing
            if isinstance(act, ast.Name) and s.positional.get(fml) and act.id != fml \
                    and act.id in cal.all_params:
                if (s.caller.qual, cal.qual, fml) in T.R1_EXCEPTIONS:
                    continue
                if role_site and act.id in T.ROLE_FORMALS:
                    continue
                rep.ob("R1b", False, inst,
                       detail="positional actual `%s` lands on formal `%s` although the callee has "
                              "a formal `%s`" % (act.id, fml, act.id),
                       func=s.caller, node=s.node,
                       construct="%s: %s <- %s" % (cal.name, fml, act.id))
            else:
                rep.ob("R1b", True, inst + " " + fml, func=s.caller, node=s.node,
                       construct="%s: %s <- %s" % (cal.name, fml, short(act, 40)))
        # (c) dropped pass-through
        if s.kind == "ctor":
            continue
        caller_params = set()
        f = s.caller
        while f is not None:
            caller_params |= set(f.all_params)
            f = f.parent
        for p in cal.all_params:
            if p not in caller_params or p in ("self",):
                continue
            if s.kind == "deferred" and p in T.DEFERRED_FRESH:
                continue
            if role_site and p in T.ROLE_FORMALS:
                continue
            if (s.caller.qual, cal.qual, p) in T.R1_EXCEPTIONS:
                continue
            if p in s.binding:
                act = s.binding[p]
                ok = isinstance(act, ast.AST) and depends_on(act, p, dep)
                rep.ob("R1c", ok, inst + " " + p,
                       detail="" if ok else "callee's `%s` is bound to `%s`, which does not depend on the "
                       "caller's `%s`" % (p, short(act, 60), p),
                       func=s.caller, node=s.node,
                       construct="%s: %s <- %s" % (cal.name, p, short(act, 60)))
            elif p in s.defaulted and s.dstar is None and s.star is None and p in T.SEMANTIC:
                rep.ob("R1c", False, inst + " " + p,
                       detail="caller has `%s` but leaves the callee's `%s` at its default" % (p, p),
                       func=s.caller, node=s.node,
                       construct="%s: %s <- (default)" % (cal.name, p))
    rep.count("R1:sites_examined", n)
    rep.count("R1:unresolved_calls(user callbacks, library)", len(unresolved))
    if floor_sites:
        rep.floor("R1", "resolved call sites in scope", n, floor_sites)


def r16(repo, rep, funcs):
    rep.rule("R16", "every semantic parameter of an entry point is read somewhere in its body")
    for name in funcs:
        f = repo.f(name)
        rep.analysed(f)
        loads = set()
        for n in own_nodes(f.node):
            if isinstance(n, ast.Name) and isinstance(n.ctx, ast.Load):
                loads.add(n.id)
            elif isinstance(n, ast.FunctionDef) and n is not f.node:
                for m in ast.walk(n):
                    if isinstance(m, ast.Name) and isinstance(m.ctx, ast.Load):
                        loads.add(m.id)
        for p in f.all_params:
            if p in T.SEMANTIC:
                rep.ob("R16", p in loads, "%s(%s)" % (f.name, p),
                       detail="" if p in loads else "parameter `%s` is never read" % p,
                       func=f, node=f.node, construct="param %s" % p)


def status_literals(repo, roots):
    """Single-letter status literals written by `roots` and the package
    functions reachable from them (not through _transform_to_node_history_)."""
    sites, _ = sites_of(repo)
    seen, todo = set(), list(roots)
    lits = set()
    while todo:
        f = todo.pop()
        if f.qual in seen or f.name == "_transform_to_node_history_":
            continue
        seen.add(f.qual)
        for n in own_nodes(f.node):
            if isinstance(n, ast.Call) and short(n.func).endswith("Simulation_Investigation"):
                continue
        for n in own_nodes(f.node):
            if isinstance(n, ast.Constant) and n.value in ("S", "I", "R"):
                lits.add(n.value)
        for s in sites:
            if s.caller is f or _root(s.caller) is f:
                if isinstance(s.callee, Func) and s.kind != "ctor" and s.callee.module == "simulation" \
                        and s.callee.cls is None:
                    todo.append(s.callee)
    return lits


def r8(repo, rep, funcs):
    rep.rule("R8", "Simulation_Investigation(...) receives G, the node histories, the recorded "
                   "transmissions list whenever one is maintained, and possible_statuses equal to the "
                   "statuses the simulator writes")
    sites, _ = sites_of(repo)
    for name in funcs:
        f = repo.f(name)
        rep.analysed(f)
        ctors = [s for s in sites if s.caller is f and s.kind == "ctor"
                 and s.callee.cls == "Simulation_Investigation"]
        rep.ob("R8", len(ctors) >= 1, "%s builds a Simulation_Investigation" % name,
               detail="" if ctors else "no constructor call found", func=f, node=f.node,
               construct="ctor present")
        # a list to which 3-tuples are appended = a transmissions list
        tlists = set()
        handlers = [f]
        seen = set()
        while handlers:
            h = handlers.pop()
            if h.qual in seen:
                continue
            seen.add(h.qual)
            for s in sites:
                if s.caller is h and s.kind == "deferred":
                    handlers.append(s.callee)
        for n in own_nodes(f.node):
            if isinstance(n, ast.Call) and isinstance(n.func, ast.Attribute) \
                    and n.func.attr == "append" and isinstance(n.func.value, ast.Name) \
                    and len(n.args) == 1 and isinstance(n.args[0], ast.Tuple) \
                    and len(n.args[0].elts) == 3:
                tlists.add(n.func.value.id)
        # lists handed to handlers that append triples to their formal
        for s in sites:
            if s.caller is f and s.kind == "deferred":
                for h in [x for x in repo.all_funcs() if x.qual in seen]:
                    pass
                for fml, act in s.binding.items():
                    if isinstance(act, ast.Name) and _appends_triple(s.callee, fml):
                        tlists.add(act.id)
        dep = dependency_closure(f)
        for s in ctors:
            inst = "%s ctor" % name
            g = s.binding.get("G")
            rep.ob("R8", g is not None and depends_on(g, "G", dep), inst + " G", func=f, node=s.node,
                   detail="G not forwarded", construct="ctor G <- %s" % (short(g, 40) if g is not None else None))
            nh = s.binding.get("node_history")
            rep.ob("R8", nh is not None, inst + " node_history", func=f, node=s.node,
                   construct="ctor node_history <- %s" % (short(nh, 40) if nh is not None else None))
            tr = s.binding.get("transmissions")
            if tlists:
                ok = tr is not None and any(depends_on(tr, t, dep) for t in tlists)
                rep.ob("R8", ok, inst + " transmissions", func=f, node=s.node,
                       detail="" if ok else "the function records transmissions in %s but does not hand them "
                       "to Simulation_Investigation" % sorted(tlists),
                       construct="ctor transmissions <- %s" % (short(tr, 40) if tr is not None else "(default None)"))
            ps = s.binding.get("possible_statuses")
            if isinstance(ps, ast.List) and all(is_const(e) for e in ps.elts):
                want = status_literals(repo, [f])
                got = {e.value for e in ps.elts}
                rep.ob("R8", got == want, inst + " possible_statuses", func=f, node=s.node,
                       detail="" if got == want else "possible_statuses %s but the simulator writes %s" %
                       (sorted(got), sorted(want)),
                       construct="ctor possible_statuses <- %s" % short(ps, 40))
            elif ps is not None:
                ok = depends_on(ps, "return_statuses", dep)
                rep.ob("R8", ok, inst + " possible_statuses", func=f, node=s.node,
                       detail="" if ok else "possible_statuses is neither a literal list nor return_statuses",
                       construct="ctor possible_statuses <- %s" % short(ps, 40))
            else:
                rep.ob("R8", False, inst + " possible_statuses", func=f, node=s.node,
                       detail="possible_statuses not given", construct="ctor possible_statuses <- (default)")


def _appends_triple(func, formal):
    for n in own_nodes(func.node):
        if isinstance(n, ast.Call) and isinstance(n.func, ast.Attribute) \
                and n.func.attr == "append" and isinstance(n.func.value, ast.Name) \
                and n.func.value.id == formal and len(n.args) == 1 \
                and isinstance(n.args[0], ast.Tuple) and len(n.args[0].elts) == 3:
            return True
    return False


def r1d(repo, rep, callers=None):
    """Default agreement: a parameter that a wrapper hands on to the same-named parameter of the function it wraps has the
    same default in both signatures."""
    rep.rule("R1d", "default agreement: where a wrapper forwards its parameter p to the callee's parameter p and both declare a "
                    "default, the defaults are the same expression")
    sites, _ = sites_of(repo)
    callers = set(callers) if callers is not None else None
    n = 0
    for s in sites:
        if s.kind != "direct" or s.error or not isinstance(s.callee, Func) or not in_scope(s.caller) or s.caller.parent is not None:
            continue
        if callers is not None and s.caller.name not in callers:
            continue
        # only for returned calls (wrappers)
        for p, act in s.binding.items():
            if isinstance(act, ast.Name) and act.id == p and p in s.caller.defaults and p in s.callee.defaults:
                n += 1
                a, b = short(s.caller.defaults[p]), short(s.callee.defaults[p])
                ok = a.replace('"', "'").lower() == b.replace('"', "'").lower()
                rep.ob("R1d", ok, "%s -> %s: default of `%s`" % (s.caller.name, s.callee.name, p), func=s.caller, node=s.caller.node,
                       construct="%s(%s=%s) -> %s(%s=%s)" % (s.caller.name, p, a, s.callee.name, p, b),
                       detail="" if ok else "wrapper defaults `%s` to %s but the function it wraps defaults it to %s: the wrapper silently "
                       "changes the documented default behaviour" % (p, a, b))
    rep.count("R1d:forwarded defaults compared", n)
