"""R5 -- argument-effect analysis.

Abstract locations are the parameters of a function.  A flow-sensitive walk
keeps, for every local name, the set of parameters it may alias and how:
'same' (the very object) or 'view' (an element / slice / transposed view / graph
view: data writes reach the argument, metadata writes such as `.shape =` do not).
Effects are summarised per function ("formal i may be mutated") and propagated
bottom-up through resolved calls, deferred queue calls and ODE right-hand sides
to a fixpoint."""
import ast

from ..core import own_nodes, attr_chain, short, Func
from ..flow import MUTATORS
from .callrules import sites_of, in_scope

# calls that return (a view of) their first argument / receiver
SAME_FUNCS = {"np.asarray", "np.asanyarray", "numpy.asarray", "np.atleast_1d",
              "np.ascontiguousarray"}
VIEW_FUNCS = {"np.reshape", "np.ravel", "np.transpose", "np.squeeze", "np.swapaxes",
              "iter", "zip", "enumerate", "reversed", "np.nditer", "np.diag",
              "np.atleast_2d"}
VIEW_METHODS = {"reshape", "ravel", "view", "squeeze", "transpose", "swapaxes",
                "nodes", "edges", "neighbors", "successors", "predecessors",
                "items", "values", "keys", "get", "nodes_iter", "edges_iter",
                "adjacency", "nbunch_iter", "diagonal", "__iter__", "in_edges",
                "out_edges", "degree", "setdefault"}
VIEW_ATTRS = {"T", "real", "imag", "flat", "adj", "nodes", "edges", "node",
              "edge", "pred", "succ", "graph", "_adj", "_node", "base"}
# free functions that mutate their first argument
MUT_FUNCS = {"random.shuffle", "np.random.shuffle", "numpy.random.shuffle",
             "nx.set_node_attributes", "nx.set_edge_attributes",
             "nx.relabel_nodes_inplace", "heapq.heappush", "heapq.heappop",
             "heapq.heapify", "np.fill_diagonal", "np.put", "np.place",
             "np.copyto", "nx.freeze", "nx.add_path", "nx.add_cycle", "nx.add_star"}
# metadata attributes whose assignment changes the object itself
META_ATTRS_ANY = True

# parameters that are numbers by documentation (augmented assignment on an
# alias of a number rebinds, it does not mutate)
SCALAR_PARAMS = {
    "tmin", "tmax", "tcount", "tau", "gamma", "rho", "p", "N", "n", "S0", "I0",
    "R0", "SI0", "SS0", "II0", "k_ave", "ksquare_ave", "kcube_ave", "phiS0",
    "phiR0", "number_its", "umin", "umax", "ucount", "threshold", "time",
    "width", "vert_gap", "vert_loc", "xcenter", "leftmost", "leafdx", "T", "rate",
    "t", "transmissibility", "leaf_vs_root_factor",
}


class Effect:
    __slots__ = ("param", "node", "what", "via")

    def __init__(self, param, node, what, via=None):
        self.param, self.node, self.what, self.via = param, node, what, via


def _base_name(e):
    while isinstance(e, (ast.Subscript, ast.Attribute)):
        e = e.value
    return e


class _Walker:
    def __init__(self, func, summaries, callee_of, ret_alias=None):
        self.func = func
        self.summaries = summaries      # qual -> set of mutated formals
        self.callee_of = callee_of      # id(call node) -> list of Site
        self.ret_alias = ret_alias or {}  # qual -> set of formals the return value may alias
        self.returned = set()
        self.effects = []
        self.scalars = set(SCALAR_PARAMS)
        for p, d in func.defaults.items():
            if isinstance(d, ast.Constant) and isinstance(d.value, (int, float)) \
                    and not isinstance(d.value, bool):
                self.scalars.add(p)

    # -- origins ----------------------------------------------------------
    def origins(self, e, st):
        if e is None:
            return frozenset()
        if isinstance(e, ast.Name):
            return st.get(e.id, frozenset())
        if isinstance(e, ast.Attribute):
            o = self.origins(e.value, st)
            if e.attr in VIEW_ATTRS:
                return frozenset((p, "view") for p, _ in o)
            return frozenset((p, "view") for p, _ in o)
        if isinstance(e, ast.Subscript):
            return frozenset((p, "same" if k == "member" else "view") for p, k in self.origins(e.value, st))
        if isinstance(e, (ast.Tuple, ast.List)):
            # a display holds the very objects it names: iterating it (or indexing it) gives them back
            out = frozenset()
            for x in e.elts:
                out |= frozenset((p, "member") for p, k in self.origins(x, st) if k in ("same", "member"))
            return out
        if isinstance(e, ast.Starred):
            return self.origins(e.value, st)
        if isinstance(e, ast.IfExp):
            return self.origins(e.body, st) | self.origins(e.orelse, st)
        if isinstance(e, ast.BoolOp):
            out = frozenset()
            for v in e.values:
                out |= self.origins(v, st)
            return out
        if isinstance(e, ast.NamedExpr):
            return self.origins(e.value, st)
        if isinstance(e, ast.Call):
            ch = attr_chain(e.func)
            if ch in SAME_FUNCS and e.args:
                return self.origins(e.args[0], st)
            # shallow copies of a container: X.copy(), dict(X), list(X), copy.copy(X) - the rows / elements are still the
            # argument's (a dict of dicts, a list of lists); numeric arrays copy their data, and a subscript of an array
            # copy is written with one index tuple, which is why only the element level is tracked
            if isinstance(e.func, ast.Attribute) and e.func.attr == "copy" and not e.args and not e.keywords:
                return frozenset((p, "elems") for p, k in self.origins(e.func.value, st) if k in ("same", "elems"))
            if ch in ("dict", "list", "copy.copy") and len(e.args) == 1 and not e.keywords:
                return frozenset((p, "elems") for p, k in self.origins(e.args[0], st) if k in ("same", "elems"))
            if ch in VIEW_FUNCS and e.args:
                out = frozenset()
                for a in e.args:
                    out |= frozenset((p, "view") for p, _ in self.origins(a, st))
                return out
            if isinstance(e.func, ast.Attribute) and e.func.attr in VIEW_METHODS:
                return frozenset((p, "view") for p, _ in self.origins(e.func.value, st))
            # package function whose return value may alias one of its arguments
            out = frozenset()
            for s in self.callee_of.get(id(e), ()):
                if s.error or not isinstance(s.callee, Func):
                    continue
                for fml in self.ret_alias.get(s.callee.qual, ()):
                    act = s.binding.get(fml)
                    if isinstance(act, ast.AST):
                        out |= frozenset((p, "view") for p, _ in self.origins(act, st))
            return out
        return frozenset()

    # -- recording -----------------------------------------------------------
    def hit(self, origins, node, what, data=True, via=None):
        for p, kind in origins:
            if kind in ("elems", "member"):
                continue            # a shallow copy / a display: its own slots are fresh; what it HOLDS is reached through a subscript (view)
            if not data and kind != "same":
                continue            # metadata write on a view does not reach the argument
            self.effects.append(Effect(p, node, what, via))

    # -- expression scan -------------------------------------------------------
    def scan_expr(self, e, st):
        """Effects of evaluating expression e (mutator calls, calls into the
        package that mutate a formal)."""
        if e is None:
            return
        for n in self._walk_expr(e, st):
            pass

    def _walk_expr(self, e, st):
        # handles comprehension scoping
        if isinstance(e, (ast.ListComp, ast.SetComp, ast.GeneratorExp, ast.DictComp)):
            st2 = dict(st)
            for g in e.generators:
                self.scan_expr(g.iter, st2)
                self.bind(g.target, frozenset((p, "view") for p, _ in self.origins(g.iter, st2)), st2)
                for c in g.ifs:
                    self.scan_expr(c, st2)
            if isinstance(e, ast.DictComp):
                self.scan_expr(e.key, st2)
                self.scan_expr(e.value, st2)
            else:
                self.scan_expr(e.elt, st2)
            return ()
        if isinstance(e, ast.Lambda):
            self.scan_expr(e.body, st)
            return ()
        if isinstance(e, ast.Call):
            self.call_effects(e, st)
        for c in ast.iter_child_nodes(e):
            if isinstance(c, ast.expr):
                self._walk_expr(c, st)
            elif isinstance(c, ast.keyword):
                self._walk_expr(c.value, st)
            elif isinstance(c, ast.comprehension):
                pass
        return ()

    def call_effects(self, call, st):
        ch = attr_chain(call.func)
        if isinstance(call.func, ast.Attribute) and call.func.attr in MUTATORS:
            recv = call.func.value
            # module functions such as heapq.heappush are handled below
            if not (isinstance(recv, ast.Name) and recv.id in ("heapq", "random", "np", "nx", "numpy")):
                o = self.origins(recv, st)
                self.hit(o, call, "mutator method .%s() on %s" % (call.func.attr, short(recv, 40)))
        if ch in MUT_FUNCS and call.args:
            self.hit(self.origins(call.args[0], st), call, "%s(%s, ...)" % (ch, short(call.args[0], 40)))
        # calls into the package
        for s in self.callee_of.get(id(call), ()):
            if s.error or not isinstance(s.callee, Func):
                continue
            mut = self.summaries.get(s.callee.qual, {})
            for fml, act in s.binding.items():
                if fml in mut and isinstance(act, ast.AST):
                    kind_needed = mut[fml]
                    o = self.origins(act, st)
                    if o:
                        self.hit(o, call, "passed as `%s` to %s, which mutates it" % (fml, s.callee.name),
                                 data=(kind_needed != "meta"), via=s.callee.qual)

    # -- statements -------------------------------------------------------------
    def bind(self, target, o, st):
        if isinstance(target, ast.Name):
            st[target.id] = o
        elif isinstance(target, (ast.Tuple, ast.List)):
            for t in target.elts:
                self.bind(t, frozenset((p, "view") for p, _ in o), st)
        elif isinstance(target, ast.Starred):
            self.bind(target.value, o, st)

    def store(self, target, st, node, value_desc=""):
        """A store through `target` (not a plain rebind)."""
        if isinstance(target, ast.Subscript):
            o = self.origins(target.value, st)
            self.hit(o, node, "item store %s = ..." % short(target, 50))
        elif isinstance(target, ast.Attribute):
            o = self.origins(target.value, st)
            self.hit(o, node, "attribute store %s = ..." % short(target, 50), data=False)
        elif isinstance(target, (ast.Tuple, ast.List)):
            for t in target.elts:
                self.store(t, st, node)

    def run_body(self, body, st):
        for s in body:
            st = self.run_stmt(s, st)
        return st

    @staticmethod
    def join(a, b):
        out = dict(a)
        for k, v in b.items():
            out[k] = out.get(k, frozenset()) | v
        return out

    def run_stmt(self, s, st):
        if isinstance(s, ast.Assign):
            self.scan_expr(s.value, st)
            o = self.origins(s.value, st)
            for t in s.targets:
                if isinstance(t, ast.Name):
                    st = dict(st); st[t.id] = o
                elif isinstance(t, (ast.Tuple, ast.List)) and not any(
                        isinstance(x, (ast.Subscript, ast.Attribute)) for x in ast.walk(t)):
                    st = dict(st)
                    if isinstance(s.value, (ast.Tuple, ast.List)) and len(s.value.elts) == len(t.elts):
                        for tt, vv in zip(t.elts, s.value.elts):
                            self.bind(tt, self.origins(vv, st), st)
                    else:
                        self.bind(t, o, st)
                else:
                    self.store(t, st, s)
                    for x in ast.walk(t):
                        if isinstance(x, ast.Subscript):
                            self.scan_expr(x.slice, st)
            return st
        if isinstance(s, ast.AugAssign):
            self.scan_expr(s.value, st)
            if isinstance(s.target, ast.Name):
                o = frozenset((p, k) for p, k in st.get(s.target.id, frozenset())
                              if p not in self.scalars)
                self.hit(o, s, "augmented assignment %s (in place for arrays/lists)" % short(s, 50))
            else:
                self.store(s.target, st, s)
            return st
        if isinstance(s, ast.AnnAssign):
            if s.value is not None:
                self.scan_expr(s.value, st)
                if isinstance(s.target, ast.Name):
                    st = dict(st); st[s.target.id] = self.origins(s.value, st)
            return st
        if isinstance(s, ast.Delete):
            for t in s.targets:
                if isinstance(t, (ast.Subscript, ast.Attribute)):
                    self.hit(self.origins(t.value, st), s, "del %s" % short(t, 50))
                elif isinstance(t, ast.Name):
                    st = dict(st); st[t.id] = frozenset()
            return st
        if isinstance(s, ast.Expr):
            self.scan_expr(s.value, st)
            return st
        if isinstance(s, (ast.Return,)):
            self.scan_expr(s.value, st)
            if s.value is not None:
                vals = list(s.value.elts) if isinstance(s.value, ast.Tuple) else [s.value]
                for v in vals:
                    for p, _ in self.origins(v, st):
                        self.returned.add(p)
            return st
        if isinstance(s, ast.Raise):
            self.scan_expr(s.exc, st)
            return st
        if isinstance(s, ast.If):
            self.scan_expr(s.test, st)
            a = self.run_body(s.body, dict(st))
            b = self.run_body(s.orelse, dict(st))
            return self.join(a, b)
        if isinstance(s, (ast.For, ast.AsyncFor)):
            self.scan_expr(s.iter, st)
            cur = dict(st)
            for _ in range(2):
                inner = dict(cur)
                self.bind(s.target, frozenset((p, "same" if k == "member" else "view") for p, k in self.origins(s.iter, inner)), inner)
                out = self.run_body(s.body, inner)
                cur = self.join(cur, out)
            if s.orelse:
                cur = self.run_body(s.orelse, cur)
            return cur
        if isinstance(s, ast.While):
            cur = dict(st)
            for _ in range(2):
                self.scan_expr(s.test, cur)
                out = self.run_body(s.body, dict(cur))
                cur = self.join(cur, out)
            if s.orelse:
                cur = self.run_body(s.orelse, cur)
            return cur
        if isinstance(s, ast.Try):
            a = self.run_body(s.body, dict(st))
            cur = self.join(st, a)
            for h in s.handlers:
                cur = self.join(cur, self.run_body(h.body, dict(cur)))
            cur = self.run_body(s.orelse, cur) if s.orelse else cur
            cur = self.run_body(s.finalbody, cur) if s.finalbody else cur
            return cur
        if isinstance(s, (ast.With, ast.AsyncWith)):
            for it in s.items:
                self.scan_expr(it.context_expr, st)
                if it.optional_vars is not None:
                    st = dict(st)
                    self.bind(it.optional_vars, self.origins(it.context_expr, st), st)
            return self.run_body(s.body, st)
        if isinstance(s, (ast.FunctionDef, ast.AsyncFunctionDef)):
            # nested function: analysed with the enclosing state (closure reads)
            inner = dict(st)
            for a in s.args.posonlyargs + s.args.args + s.args.kwonlyargs:
                inner[a.arg] = frozenset()
            self.run_body(s.body, inner)
            st = dict(st); st[s.name] = frozenset()
            return st
        if isinstance(s, ast.Global):
            for n in s.names:
                self.effects.append(Effect("<module global %s>" % n, s, "global statement"))
            return st
        return st


def _site_index(repo):
    sites, _ = sites_of(repo)
    idx = {}
    for s in sites:
        idx.setdefault(id(s.node), []).append(s)
    return idx


def summaries(repo):
    """qual -> {formal: 'data'|'meta'} mutated, at fixpoint."""
    got = getattr(repo, "_effects_cache", None)
    if got is not None:
        return got
    idx = _site_index(repo)
    summ = {f.qual: {} for f in repo.all_funcs()}
    ret_alias = {f.qual: set() for f in repo.all_funcs()}
    details = {}
    for _ in range(8):
        changed = False
        for f in repo.all_funcs():
            if f.parent is not None:
                continue   # nested functions are analysed within their parent
            w = _Walker(f, summ, idx, ret_alias)
            st = {p: frozenset([(p, "same")]) for p in f.all_params}
            w.run_body(f.node.body, st)
            ra = {p for p in w.returned if p in f.all_params}
            if ra != ret_alias[f.qual]:
                ret_alias[f.qual] = ra
                changed = True
            cur = {}
            for e in w.effects:
                if e.param in f.all_params or e.param.startswith("<module"):
                    cur[e.param] = "data"
            details[f.qual] = w.effects
            if cur != summ[f.qual]:
                summ[f.qual] = cur
                changed = True
        if not changed:
            break
    repo._effects_cache = (summ, details)
    return repo._effects_cache


_cache = {}


def r5(repo, rep, modules=("simulation", "analytic"), extra=(), rhs_only=False):
    rep.rule("R5", "no public simulator / ODE entry point stores into, deletes from, reshapes, "
                   "augments in place or calls a mutator on an object that may alias one of its "
                   "arguments, directly or through any package function it calls (flow-sensitive "
                   "alias walk + bottom-up effect summaries)")
    summ, details = summaries(repo)
    n = 0
    for m in ([] if rhs_only else modules):
        for f in sorted(repo.public_functions(m), key=lambda x: x.name):
            if not in_scope(f):
                continue
            n += 1
            rep.analysed(f)
            effs = details.get(f.qual, [])
            byp = {}
            for e in effs:
                if e.param in f.all_params or e.param.startswith("<module"):
                    byp.setdefault(e.param, []).append(e)
            for p in f.all_params:
                es = byp.get(p, [])
                if not es:
                    rep.ob("R5", True, "%s(%s)" % (f.name, p), func=f, node=f.node,
                           construct="param %s unmodified" % p)
                for e in es:
                    rep.ob("R5", False, "%s(%s)" % (f.name, p),
                           detail="argument `%s` may be modified: %s" % (p, e.what),
                           func=f, node=e.node,
                           construct="%s: %s" % (p, short(e.node, 80)))
            for p, es in byp.items():
                if p.startswith("<module"):
                    for e in es:
                        rep.ob("R5", False, "%s %s" % (f.name, p), detail=e.what, func=f, node=e.node)
    # right-hand sides of the ODE systems: the state vector (and time) they are handed belong to the integrator; a write
    # through a view of it (`tmp = Sk[:]; tmp[tmp == 0] = 1`) changes the solution under the solver
    nrhs = 0
    if "analytic" in modules:
        import re as _re
        for f in sorted(repo.all_funcs(), key=lambda x: x.qual):
            if f.module != "analytic" or f.parent is not None or not _re.fullmatch(r"_d[A-Z]\w*_", f.name) or not f.params:
                continue
            nrhs += 1
            rep.analysed(f)
            es = [e for e in details.get(f.qual, []) if e.param == f.params[0]]
            if not es:
                rep.ob("R5", True, "%s(%s)" % (f.name, f.params[0]), func=f, node=f.node, construct="state vector %s unmodified" % f.params[0])
            for e in es:
                rep.ob("R5", False, "%s(%s)" % (f.name, f.params[0]), func=f, node=e.node, construct="%s: %s" % (f.params[0], short(e.node, 80)),
                       detail="the right-hand side writes into the state vector the integrator passed it: %s" % e.what)
        rep.floor("R5", "ODE right-hand sides analysed", nrhs, 15)
    # module-level state written from functions
    if not rhs_only:
        rep.floor("R5", "public entry points analysed", n, 80 if "analytic" in modules else 20)


# ---------------------------------------------------------------------------
# R5d: reading a defaultdict row with a key it may not have inserts that key
# ---------------------------------------------------------------------------
def _defaultdict_row_producers(repo):
    """Package functions that return a mapping whose VALUES are defaultdicts (e.g. get_Pnk)."""
    out = set()
    for f in repo.all_funcs():
        env = {}
        for n in own_nodes(f.node):
            if isinstance(n, ast.Assign) and len(n.targets) == 1 and isinstance(n.targets[0], ast.Name):
                env.setdefault(n.targets[0].id, []).append(n.value)

        def rows_default(v):
            if isinstance(v, ast.DictComp):
                return isinstance(v.value, ast.Call) and attr_chain(v.value.func) in ("defaultdict", "collections.defaultdict")
            if isinstance(v, ast.Dict):
                return bool(v.values) and all(isinstance(x, ast.Call) and attr_chain(x.func) in ("defaultdict", "collections.defaultdict")
                                              for x in v.values)
            if isinstance(v, ast.Call) and attr_chain(v.func) in ("defaultdict", "collections.defaultdict") and v.args \
                    and isinstance(v.args[0], ast.Lambda) and isinstance(v.args[0].body, ast.Call) \
                    and attr_chain(v.args[0].body.func) in ("defaultdict", "collections.defaultdict"):
                return True
            return False
        for n in own_nodes(f.node):
            if isinstance(n, ast.Return) and isinstance(n.value, ast.Name) and any(rows_default(v) for v in env.get(n.value.id, [])):
                out.add(f.name)
            elif isinstance(n, ast.Return) and n.value is not None and rows_default(n.value):
                out.add(f.name)
    return out


def r5d(repo, rep):
    rep.rule("R5d", "an argument that the package itself produces as a mapping of defaultdict rows (get_Pnk) is only read with "
                    "`rows[a][b]` where b is taken from rows[a] itself (its keys/items, or under `b in rows[a]`, or .get): a read "
                    "with any other key silently INSERTS that key into the caller's object")
    producers = _defaultdict_row_producers(repo)
    rep.count("R5d:producers of defaultdict-row mappings", len(producers))
    sites, _ = sites_of(repo)
    tainted = set()
    for s in sites:
        if not isinstance(s.callee, Func):
            continue
        env = {}
        for n in own_nodes(s.caller.node):
            if isinstance(n, ast.Assign) and len(n.targets) == 1 and isinstance(n.targets[0], ast.Name):
                env.setdefault(n.targets[0].id, []).append(n.value)
        for formal, actual in s.binding.items():
            vals = [actual] + (env.get(actual.id, []) if isinstance(actual, ast.Name) else [])
            if any(isinstance(v, ast.Call) and (attr_chain(v.func) or "").split(".")[-1] in producers for v in vals):
                tainted.add(formal)
    rep.count("R5d:parameter names fed from such a producer", len(tainted))
    nread = 0
    for f in repo.all_funcs():
        if f.module != "analytic" and f.module != "simulation":
            continue
        mine = [p for p in f.all_params if p in tainted]
        if not mine:
            continue
        rep.analysed(f)
        for c in walk_nodes_with_parents(f.node):
            n, parents = c
            if not (isinstance(n, ast.Subscript) and isinstance(n.ctx, ast.Load) and isinstance(n.value, ast.Subscript)
                    and isinstance(n.value.value, ast.Name) and n.value.value.id in mine):
                continue
            nread += 1
            rows, a, b = n.value.value.id, n.value.slice, n.slice
            row_txt = "%s[%s]" % (rows, short(a, 30))
            ok = False
            if isinstance(b, ast.Name):
                for par in parents:
                    its = []
                    if isinstance(par, ast.For):
                        its.append((par.target, par.iter))
                    for g in getattr(par, "generators", []) or []:
                        its.append((g.target, g.iter))
                    for tgt, it in its:
                        tn = [x.id for x in ast.walk(tgt) if isinstance(x, ast.Name)]
                        if b.id in tn:
                            base = it
                            if isinstance(base, ast.Call) and isinstance(base.func, ast.Attribute) and base.func.attr in ("keys", "items") and not base.args:
                                base = base.func.value
                            if short(base, 80).replace(" ", "") == row_txt.replace(" ", ""):
                                ok = True
                    if isinstance(par, (ast.If, ast.IfExp)) and isinstance(par.test, ast.Compare) and len(par.test.ops) == 1 \
                            and isinstance(par.test.ops[0], ast.In) and short(par.test.left, 30) == b.id \
                            and short(par.test.comparators[0], 80).replace(" ", "") == row_txt.replace(" ", ""):
                        ok = True
            rep.ob("R5d", ok, "%s: %s[...] is read with a key of that row" % (f.name, row_txt), func=f, node=n,
                   construct="%s read with %s" % (row_txt, short(b, 30)),
                   detail="" if ok else "`%s[%s]` with a key that does not come from %s: when the rows are defaultdicts (as %s makes "
                   "them) every miss inserts an entry into the caller's argument" % (row_txt, short(b, 30), row_txt, "/".join(sorted(producers))))
    rep.floor("R5d", "reads of defaultdict rows", nread, 2)


def walk_nodes_with_parents(root):
    """(node, [ancestors inside root, outermost first]) not entering nested defs."""
    stack = [(c, []) for c in root.body]
    while stack:
        n, par = stack.pop()
        yield n, par
        if isinstance(n, (ast.FunctionDef, ast.ClassDef)):
            continue
        for c in ast.iter_child_nodes(n):
            stack.append((c, par + [n]))
