"""R12 -- class invariants of _ListDict_ (the weighted random-access set).

I1  every change of self.weight[k] is paired, in the same block, with the same
    change of self._total_weight;
I2  self.max_weight is an upper bound of all current weights: every store that
    can raise a weight (non-negative increment) is followed in its block by
    `if self.weight[k] > self.max_weight: self.max_weight = self.weight[k]`;
    max_weight is lowered only by recomputing the exact maximum;
I3  items / item_to_position stay a bijection (append <-> position = len-1;
    remove moves the last item into the hole);
I4  choose_random proposes uniformly from items and accepts iff
    random.random() < weight[choice]/max_weight;
I5  total_weight() is _total_weight (weighted) or len(self)."""
import ast

from ..core import own_nodes, short, attr_chain
from ..flow import walk_function, same, atomic_facts

CLS = "_ListDict_"


def _is_self_attr(e, attr):
    return isinstance(e, ast.Attribute) and e.attr == attr and \
        isinstance(e.value, ast.Name) and e.value.id == "self"


def _is_weight_sub(e):
    return isinstance(e, ast.Subscript) and _is_self_attr(e.value, "weight")


def _delta_of_store(st):
    """For a statement that changes self.weight[k]: (key expr, ('+', d) | ('-', d) | None)."""
    if isinstance(st, ast.AugAssign) and _is_weight_sub(st.target):
        if isinstance(st.op, ast.Add):
            return st.target.slice, ("+", st.value)
        if isinstance(st.op, ast.Sub):
            return st.target.slice, ("-", st.value)
        return st.target.slice, None
    if isinstance(st, ast.Assign) and len(st.targets) == 1 and _is_weight_sub(st.targets[0]):
        k = st.targets[0].slice
        v = st.value
        if isinstance(v, ast.BinOp) and isinstance(v.op, (ast.Add, ast.Sub)):
            if _is_weight_sub(v.left) and same(v.left.slice, k):
                return k, ("+" if isinstance(v.op, ast.Add) else "-", v.right)
            if isinstance(v.op, ast.Add) and _is_weight_sub(v.right) and same(v.right.slice, k):
                return k, ("+", v.left)
        return k, None
    # w = self.weight.pop(k)
    if isinstance(st, ast.Assign) and isinstance(st.value, ast.Call) \
            and isinstance(st.value.func, ast.Attribute) and st.value.func.attr == "pop" \
            and _is_self_attr(st.value.func.value, "weight") and len(st.targets) == 1 \
            and isinstance(st.targets[0], ast.Name):
        return st.value.args[0], ("-", st.targets[0])
    if isinstance(st, ast.Expr) and isinstance(st.value, ast.Call) \
            and isinstance(st.value.func, ast.Attribute) and st.value.func.attr == "pop" \
            and _is_self_attr(st.value.func.value, "weight"):
        return st.value.args[0], None
    if isinstance(st, ast.Delete):
        for t in st.targets:
            if _is_weight_sub(t):
                return t.slice, None
    return None


def _total_delta(st):
    if isinstance(st, ast.AugAssign) and _is_self_attr(st.target, "_total_weight"):
        if isinstance(st.op, ast.Add):
            return ("+", st.value)
        if isinstance(st.op, ast.Sub):
            return ("-", st.value)
    if isinstance(st, ast.Assign) and len(st.targets) == 1 and _is_self_attr(st.targets[0], "_total_weight"):
        v = st.value
        if isinstance(v, ast.BinOp) and isinstance(v.op, (ast.Add, ast.Sub)) and _is_self_attr(v.left, "_total_weight"):
            return ("+" if isinstance(v.op, ast.Add) else "-", v.right)
        if isinstance(v, ast.BinOp) and isinstance(v.op, ast.Add) and _is_self_attr(v.right, "_total_weight"):
            return ("+", v.left)
    return None


def _blocks(fnode):
    """All statement lists of a function."""
    out = []

    def rec(body):
        out.append(body)
        for s in body:
            for fld in ("body", "orelse", "finalbody"):
                b = getattr(s, fld, None)
                if isinstance(b, list) and b and isinstance(b[0], ast.stmt):
                    rec(b)
            if isinstance(s, ast.Try):
                for h in s.handlers:
                    rec(h.body)
    rec(fnode.body)
    return out


def r12(repo, rep):
    rep.rule("R12", "_ListDict_ invariants I1-I5 (total weight pairing, max_weight upper bound, "
                    "items/position bijection, rejection-sampling acceptance test, total_weight accessor)")
    m = {name: repo.method(CLS, name) for name in
         ("__init__", "insert", "update", "remove", "choose_random", "random_removal",
          "total_weight", "_update_max_weight", "__len__", "__contains__")}
    for f in m.values():
        rep.analysed(f)
    all_methods = [f for (mod, c, n), f in repo.methods.items() if c == CLS]

    # ---------------- I1: weight stores paired with total updates ------------
    nstores = 0
    for f in all_methods:
        for blk in _blocks(f.node):
            for i, st in enumerate(blk):
                d = _delta_of_store(st)
                if d is None:
                    continue
                nstores += 1
                key, delta = d
                ok = False
                detail = ""
                if delta is None:
                    detail = "weight of %s is overwritten/removed without a computable delta" % short(key)
                else:
                    tds = [_total_delta(s2) for s2 in blk]
                    tds = [t for t in tds if t is not None]
                    ok = any(t[0] == delta[0] and same(t[1], delta[1]) for t in tds)
                    if not ok:
                        detail = "self.weight[%s] changes by %s%s but no `self._total_weight %s= %s` in the same block" % (
                            short(key), delta[0], short(delta[1]), delta[0], short(delta[1]))
                rep.ob("R12.I1", ok, "%s: weight store" % f.name, detail=detail, func=f, node=st)
            # converse: a total update without a weight store in the block
            for st in blk:
                td = _total_delta(st)
                if td is None:
                    continue
                ok = any(_delta_of_store(s2) is not None and _delta_of_store(s2)[1] is not None
                         and _delta_of_store(s2)[1][0] == td[0] and same(_delta_of_store(s2)[1][1], td[1])
                         for s2 in blk)
                rep.ob("R12.I1", ok, "%s: total update" % f.name,
                       detail="" if ok else "_total_weight changes by %s%s without the same change of a weight in the block" % (td[0], short(td[1])),
                       func=f, node=st)
        # plain assignments to _total_weight other than init / full recomputation
        for n in own_nodes(f.node):
            if isinstance(n, ast.Assign) and any(_is_self_attr(t, "_total_weight") for t in n.targets) \
                    and _total_delta(n) is None:
                v = n.value
                full = isinstance(v, ast.Call) and attr_chain(v.func) == "sum" and \
                    "self.weight" in short(v, 400) and "self.items" in short(v, 400)
                zero = isinstance(v, ast.Constant) and v.value == 0 and f.name == "__init__"
                if isinstance(v, ast.Constant) and v.value == 0 and f.name == "remove":
                    # only the emptiness reset (I6) may zero the total
                    cx = [c for c in walk_function(f.node) if c.stmt is n]
                    for fx, pol in (cx[0].facts if cx else ()):
                        t = short(fx).replace(" ", "")
                        if (pol and t in ("len(self.items)==0", "len(self)==0")) or \
                                ((not pol) and t in ("self.items", "len(self.items)", "len(self)", "len(self.items)>0", "len(self)>0")):
                            zero = True
                rep.ob("R12.I1", full or zero, "%s: total assignment" % f.name,
                       detail="" if (full or zero) else "_total_weight assigned something that is neither 0 at construction nor the sum over all items",
                       func=f, node=n)
    # remove() must forget the weight of what it removes (a later re-insertion starts from 0)
    rem0 = m["remove"]
    forgets = any(_delta_of_store(st) is not None and isinstance(st, (ast.Assign, ast.Expr, ast.Delete)) and
                  ("pop" in short(st) or isinstance(st, ast.Delete)) for blk in _blocks(rem0.node) for st in blk)
    rep.ob("R12.I1", forgets, "remove: the removed item's weight is deleted from the weight table", func=rem0, node=rem0.node,
           construct="remove: weight.pop(choice)", detail="" if forgets else "remove() reads the weight but leaves it in self.weight: "
           "a re-inserted item accumulates its old weight while _total_weight only grows by the new one")
    # ... on EVERY path through remove() of a weighted list (an early return for a special case must not skip it)
    from ..flow import enumerate_paths
    bad_path = None
    npaths = 0
    for items, term in enumerate_paths(rem0.node.body):
        if isinstance(term, ast.Raise):
            continue
        unweighted = False
        for it in items:
            if isinstance(it.stmt, ast.If) and it.arm is not None:
                tt = short(it.stmt.test).replace(" ", "")
                if (tt == "self.weighted" and it.arm is False) or (tt == "notself.weighted" and it.arm is True):
                    unweighted = True
        if unweighted:
            continue
        npaths += 1
        popped = any(not isinstance(it.stmt, (ast.If, ast.For, ast.While)) and _delta_of_store(it.stmt) is not None
                     and ("pop" in short(it.stmt) or isinstance(it.stmt, ast.Delete)) for it in items)
        if not popped and bad_path is None:
            bad_path = [short(it.stmt.test if isinstance(it.stmt, ast.If) else it.stmt, 50) + ("" if it.arm is None else " -> %s" % it.arm)
                        for it in items if isinstance(it.stmt, (ast.If, ast.Return))]
    rep.ob("R12.I1", bad_path is None and npaths > 0, "remove: the weight entry is deleted on every path through a weighted remove()", func=rem0,
           node=rem0.node, construct="remove: weight.pop on all %d weighted paths" % npaths,
           detail="" if bad_path is None else "a path through remove() of a weighted list returns without deleting the removed item's weight "
           "(%s): if that item is inserted again its old weight is still there and selection no longer follows the total" % bad_path)
    rep.floor("R12", "weight stores", nstores, 2)
    # no method that rewrites _total_weight may run between a weight change and its paired total update
    writers = set()
    changed = True
    while changed:
        changed = False
        for f in all_methods:
            if f.name in writers or f.name == "__init__":
                continue
            w = any(isinstance(n, (ast.Assign, ast.AugAssign)) and any(_is_self_attr(t, "_total_weight") for t in
                    (n.targets if isinstance(n, ast.Assign) else [n.target])) for n in own_nodes(f.node)) or \
                any(isinstance(n, ast.Call) and (attr_chain(n.func) or "").startswith("self.") and
                    (attr_chain(n.func) or "").split(".")[1] in writers for n in own_nodes(f.node))
            if w:
                writers.add(f.name); changed = True
    for f in all_methods:
        for blk in _blocks(f.node):
            idx_store = [i for i, st in enumerate(blk) if _delta_of_store(st) is not None and _delta_of_store(st)[1] is not None]
            idx_tot = [i for i, st in enumerate(blk) if _total_delta(st) is not None]
            for i in idx_store:
                js = [j for j in idx_tot if _total_delta(blk[j])[0] == _delta_of_store(blk[i])[1][0]
                      and same(_total_delta(blk[j])[1], _delta_of_store(blk[i])[1][1])]
                if not js:
                    continue
                lo, hi = min(i, js[0]), max(i, js[0])
                between = blk[lo + 1:hi]
                calls = [n for st in between for n in ast.walk(st) if isinstance(n, ast.Call)
                         and (attr_chain(n.func) or "").startswith("self.") and (attr_chain(n.func) or "").split(".")[1] in writers]
                rep.ob("R12.I1", not calls, "%s: weight change and total update are not separated by a method that rewrites the total" % f.name,
                       func=f, node=calls[0] if calls else blk[i], construct="%s: calls between pair %s" % (f.name, [short(c, 40) for c in calls]),
                       detail="" if not calls else "%s runs between `%s` and `%s`: it recomputes _total_weight from the already changed "
                       "weights, so the paired update is applied twice" % (short(calls[0], 40), short(blk[i], 50), short(blk[js[0]], 50)))
    # I6: an emptied list has total weight exactly 0 (loops of the form `while X.total_weight() > 0` must terminate;
    # float residue of repeated += / -= must not keep an empty candidate set "active")
    import re as _re
    reset = False
    extra = []
    for c in walk_function(rem0.node):
        st = c.stmt
        if isinstance(st, ast.Assign) and any(_is_self_attr(t, "_total_weight") for t in st.targets) \
                and isinstance(st.value, ast.Constant) and st.value.value == 0:
            here = False
            others = []
            for fx, pol in c.facts:
                t = short(fx).replace(" ", "")
                if (pol and t in ("len(self.items)==0", "len(self)==0", "notself.items", "not(self.items)")) or \
                        ((not pol) and t in ("self.items", "len(self.items)", "len(self)", "len(self.items)>0", "len(self)>0")):
                    here = True
                elif t == "self.weighted" or _re.fullmatch(r"\w+(notin|in)self(\.item_to_position|\.items)?|self\.__contains__\(\w+\)", t):
                    pass
                else:
                    others.append(("" if pol else "not ") + short(fx))
            if here and not others:
                reset = True
            elif here:
                extra = others
    rep.ob("R12.I6", reset, "remove: when the last item leaves, the total is reset to exactly 0, whatever the weight that left", func=rem0,
           node=rem0.node, construct="remove: _total_weight = 0 when empty",
           detail="" if reset else ("the reset of _total_weight for an emptied list only happens when also %s" % extra if extra else
           "nothing resets _total_weight when the list becomes empty") + ": the rounding residue of repeated +=/-= keeps "
           "`total_weight() > 0` true on an empty candidate set (Gillespie_complex_contagion then calls random.choice on an empty list)")

    # ---------------- I2: max_weight is an upper bound -----------------------
    upd = m["update"]
    raised = 0
    for blk in _blocks(upd.node):
        for i, st in enumerate(blk):
            d = _delta_of_store(st)
            if d is None or d[1] is None or d[1][0] != "+":
                continue
            key = d[0]
            # is this the negative-increment branch?  (facts say increment <= 0)
            ctx = [c for c in walk_function(upd.node) if c.stmt is st][0]
            negative = any((not pol) and isinstance(fx, ast.BoolOp) is False and
                           isinstance(fx, ast.Compare) and isinstance(fx.ops[0], ast.Gt)
                           and same(fx.left, d[1][1]) and short(fx.comparators[0]) == "0"
                           for fx, pol in ctx.facts)
            if negative:
                rep.note("update(): store in the negative-increment branch is outside C16's quantifier "
                         "(non-negative increments); max_weight staying too high never biases rejection sampling")
                continue
            ok = False
            env_u = {}
            for x in own_nodes(upd.node):
                if isinstance(x, ast.Assign) and len(x.targets) == 1 and isinstance(x.targets[0], ast.Name):
                    env_u.setdefault(x.targets[0].id, []).append(x.value)

            def only_for_nonpositive(test):
                """the arm guarded by `test` is only taken when the increment is not positive (so skipping the comparison there
                cannot miss a raised weight): `not (inc > 0 or ...)`, directly or through a local name bound once"""
                if isinstance(test, ast.Name) and len(env_u.get(test.id, [])) == 1:
                    test = env_u[test.id][0]
                if isinstance(test, ast.UnaryOp) and isinstance(test.op, ast.Not) and isinstance(test.operand, ast.BoolOp) \
                        and isinstance(test.operand.op, ast.Or):
                    return any(isinstance(v, ast.Compare) and isinstance(v.ops[0], ast.Gt) and same(v.left, d[1][1])
                               and short(v.comparators[0]) == "0" for v in test.operand.values)
                return False
            for s2 in blk[i + 1:]:
                arm = s2 if isinstance(s2, ast.If) else None
                first = True
                while arm is not None:
                    for fx, pol in atomic_facts(arm.test, True):
                        if isinstance(fx, ast.Compare) and len(fx.ops) == 1 and \
                                isinstance(fx.ops[0], (ast.Gt, ast.GtE)) and _is_weight_sub(fx.left) \
                                and same(fx.left.slice, key) and _is_self_attr(fx.comparators[0], "max_weight"):
                            for s3 in arm.body:
                                if isinstance(s3, ast.Assign) and any(_is_self_attr(t, "max_weight") for t in s3.targets) \
                                        and _is_weight_sub(s3.value) and same(s3.value.slice, key):
                                    ok = True
                    # an elif is only reached when the arms before it were not taken: go on only past arms that cannot be
                    # taken after a positive increment
                    if ok or not only_for_nonpositive(arm.test):
                        break
                    arm = arm.orelse[0] if len(arm.orelse) == 1 and isinstance(arm.orelse[0], ast.If) else None
                # max(self.max_weight, self.weight[k]) form
                if isinstance(s2, ast.Assign) and any(_is_self_attr(t, "max_weight") for t in s2.targets) \
                        and isinstance(s2.value, ast.Call) and attr_chain(s2.value.func) == "max" \
                        and any(_is_self_attr(a, "max_weight") for a in s2.value.args) \
                        and any(_is_weight_sub(a) and same(a.slice, key) for a in s2.value.args):
                    ok = True
            raised += 1
            rep.ob("R12.I2", ok, "update: raised weight reaches max_weight",
                   detail="" if ok else "after raising self.weight[%s] no `if self.weight[%s] > self.max_weight: "
                   "self.max_weight = self.weight[%s]` follows in the block" % (short(key), short(key), short(key)),
                   func=upd, node=st)
    rep.floor("R12", "weight-raising stores in update()", raised, 1)
    # who assigns max_weight
    for f in all_methods:
        for c in walk_function(f.node):
            st = c.stmt
            if isinstance(st, (ast.Assign, ast.AugAssign)):
                targets = st.targets if isinstance(st, ast.Assign) else [st.target]
                if not any(_is_self_attr(t, "max_weight") for t in targets):
                    continue
                v = st.value
                if f.name == "__init__":
                    ok = isinstance(v, ast.Constant) and v.value == 0
                    why = "initial max_weight must be 0"
                elif f.name == "_update_max_weight":
                    txt = short(v, 300)
                    ok = isinstance(st, ast.Assign) and isinstance(v, ast.Call) and attr_chain(v.func) == "max"
                    # the max must range over the current weights
                    src = short(f.node, 2000)
                    ok = ok and "self.weight" in src
                    why = "recomputation must be max over the current weights"
                else:
                    # raising only: guarded by weight > max_weight, value is that weight
                    ok = isinstance(st, ast.Assign) and _is_weight_sub(v) and any(
                        pol and isinstance(fx, ast.Compare) and isinstance(fx.ops[0], (ast.Gt, ast.GtE))
                        and _is_weight_sub(fx.left) and same(fx.left.slice, v.slice)
                        and _is_self_attr(fx.comparators[0], "max_weight") for fx, pol in c.facts)
                    ok = ok or (isinstance(v, ast.Call) and attr_chain(v.func) == "max"
                                and any(_is_self_attr(a, "max_weight") for a in v.args))
                    why = "max_weight may only be raised to a weight that exceeds it (or recomputed exactly)"
                rep.ob("R12.I2", ok, "%s: assignment of max_weight" % f.name,
                       detail="" if ok else why, func=f, node=st)
    # _update_max_weight: the exact maximum of the current weights, whatever the assignment form
    umw = m["_update_max_weight"]
    env_u = {}
    for n_ in own_nodes(umw.node):
        if isinstance(n_, ast.Assign) and isinstance(n_.targets[0], ast.Name):
            env_u[n_.targets[0].id] = n_.value
    got_max = False
    bad_assign = None
    for n_ in own_nodes(umw.node):
        if isinstance(n_, ast.Assign):
            tg = n_.targets[0]
            flat = list(tg.elts) if isinstance(tg, ast.Tuple) else [tg]
            if any(_is_self_attr(t, "max_weight") for t in flat):
                v = n_.value
                if isinstance(tg, ast.Tuple):
                    bad_assign = n_
                    continue
                if isinstance(v, ast.Call) and attr_chain(v.func) == "max" and len(v.args) == 1:
                    src = v.args[0]
                    txt = short(src, 200)
                    for nm, val in env_u.items():
                        txt = txt.replace(nm, "(" + short(val, 200) + ")")
                    if "self.weight" in txt:
                        got_max = True
                    else:
                        bad_assign = n_
                else:
                    bad_assign = n_
    rep.ob("R12.I2", got_max and bad_assign is None, "_update_max_weight: max_weight = the largest of the current weights", func=umw,
           node=bad_assign if bad_assign is not None else umw.node, construct="_update_max_weight recomputation",
           detail="" if (got_max and bad_assign is None) else "max_weight is recomputed as something other than max over the current weights "
           "(%s): a bound that is too small makes rejection sampling accept heavy items with certainty" % (short(bad_assign, 80) if bad_assign is not None else "no max(...) found"))
    # remove(): recompute when the last heaviest element leaves
    rem = m["remove"]
    called = False
    dec = False
    for c in walk_function(rem.node):
        for n in ast.walk(c.stmt) if not isinstance(c.stmt, (ast.If, ast.For, ast.While)) else []:
            if isinstance(n, ast.Call) and attr_chain(n.func) == "self._update_max_weight":
                if any(pol and "max_weight_count" in short(fx) and isinstance(fx, ast.Compare)
                       and isinstance(fx.ops[0], (ast.Eq, ast.LtE)) for fx, pol in c.facts) and \
                   any(pol and isinstance(fx, ast.Compare) and isinstance(fx.ops[0], ast.Eq)
                       and "max_weight" in short(fx) and "count" not in short(fx) for fx, pol in c.facts):
                    called = True
        st = c.stmt
        if isinstance(st, ast.AugAssign) and _is_self_attr(st.target, "max_weight_count") and isinstance(st.op, ast.Sub):
            if any(pol and isinstance(fx, ast.Compare) and isinstance(fx.ops[0], ast.Eq)
                   and "self.max_weight" in short(fx) and "count" not in short(fx) for fx, pol in c.facts):
                dec = True
    rep.ob("R12.I2", dec, "remove: heaviest count decremented when a heaviest element leaves",
           detail="" if dec else "no `self.max_weight_count -= 1` under `weight == self.max_weight`", func=rem, node=rem.node,
           construct="remove: max_weight_count -= 1 under weight == max_weight")
    rep.ob("R12.I2", called, "remove: max recomputed when no heaviest element is left",
           detail="" if called else "self._update_max_weight() is not called (as a call) under `max_weight_count == 0`",
           func=rem, node=rem.node, construct="remove: self._update_max_weight() under count == 0")
    # bare references to the method (statement without call) -> NOTE
    for f in all_methods:
        for n in own_nodes(f.node):
            if isinstance(n, ast.Expr) and attr_chain(n.value) == "self._update_max_weight":
                rep.note("%s: `self._update_max_weight` is referenced but not called at line %d "
                         "(negative-increment branch, outside C16's quantifier)" % (f.qual, n.lineno))
    # update(): max_weight_count bookkeeping on the non-negative path: ==max -> +=1 ; >max -> =1
    # (count too high only delays recomputation, count too low triggers an exact recomputation:
    #  neither biases selection, so it is recorded, not required)

    # ---------------- I3: items / item_to_position ----------------------------
    app_ok = False
    guard_ok = False
    for blk in _blocks(upd.node):
        for i, st in enumerate(blk):
            if isinstance(st, ast.Expr) and isinstance(st.value, ast.Call) and \
                    attr_chain(st.value.func) == "self.items.append" and len(st.value.args) == 1:
                item = st.value.args[0]
                for s2 in blk[i + 1:]:
                    if isinstance(s2, ast.Assign) and len(s2.targets) == 1 and \
                            isinstance(s2.targets[0], ast.Subscript) and \
                            _is_self_attr(s2.targets[0].value, "item_to_position") and \
                            same(s2.targets[0].slice, item) and \
                            short(s2.value).replace(" ", "") == "len(self.items)-1":
                        app_ok = True
                # the same index written the other way round: position = len(items) immediately BEFORE the append
                if i > 0:
                    s0 = blk[i - 1]
                    if isinstance(s0, ast.Assign) and len(s0.targets) == 1 and isinstance(s0.targets[0], ast.Subscript) and \
                            _is_self_attr(s0.targets[0].value, "item_to_position") and same(s0.targets[0].slice, item) and \
                            short(s0.value).replace(" ", "") == "len(self.items)":
                        app_ok = True
                # must be guarded: not already present
                ctx = [c for c in walk_function(upd.node) if c.stmt is st][0]
                for fx, pol in ctx.facts:
                    t = short(fx).replace(" ", "")
                    if (not pol) and t in ("%sinself" % short(item), "self.__contains__(%s)" % short(item),
                                           "%sinself.item_to_position" % short(item)):
                        guard_ok = True
                    if pol and t in ("%snotinself" % short(item), "%snotinself.item_to_position" % short(item)):
                        guard_ok = True
    rep.ob("R12.I3", app_ok, "update: items.append(x) paired with item_to_position[x] = len(items)-1",
           func=upd, node=upd.node, construct="update: append/position pairing",
           detail="" if app_ok else "append of an item is not followed by its position = len(self.items)-1")
    rep.ob("R12.I3", guard_ok, "update: an item already present is not appended again",
           func=upd, node=upd.node, construct="update: membership guard before append",
           detail="" if guard_ok else "items.append is not guarded by `item in self` -> return")
    src = [short(s, 200).replace(" ", "") for s in rem.node.body]
    txt = "\n".join(short(s, 400) for s in ast.walk(rem.node) if isinstance(s, ast.stmt))
    t = txt.replace(" ", "")
    pos_pop = "=self.item_to_position.pop(" in t
    last_pop = "=self.items.pop()" in t
    move = False
    for c in walk_function(rem.node):
        st = c.stmt
        if isinstance(st, ast.If):
            tt = short(st.test).replace(" ", "")
            if "!=len(self.items)" in tt or "len(self.items)!=" in tt or "<len(self.items)" in tt:
                body = "\n".join(short(s, 200).replace(" ", "") for s in st.body)
                # self.items[position] = last_item ; self.item_to_position[last_item] = position
                a = [s for s in st.body if isinstance(s, ast.Assign) and isinstance(s.targets[0], ast.Subscript)
                     and _is_self_attr(s.targets[0].value, "items")]
                b = [s for s in st.body if isinstance(s, ast.Assign) and isinstance(s.targets[0], ast.Subscript)
                     and _is_self_attr(s.targets[0].value, "item_to_position")]
                if a and b and same(a[0].targets[0].slice, b[0].value) and same(a[0].value, b[0].targets[0].slice):
                    move = True
    rep.ob("R12.I3", pos_pop and last_pop and move, "remove: last item moved into the vacated slot",
           func=rem, node=rem.node, construct="remove: swap-with-last",
           detail="" if (pos_pop and last_pop and move) else
           "remove() must pop the position, pop the last item and, unless it was the last, store it at "
           "the vacated position and update its position (pos_pop=%s last_pop=%s move=%s)" % (pos_pop, last_pop, move))

    # ---------------- I4: choose_random ---------------------------------------
    ch = m["choose_random"]
    proposal = accept = loop = ret_ok = unweighted = False
    for c in walk_function(ch.node):
        st = c.stmt
        if isinstance(st, ast.Assign) and isinstance(st.value, ast.Call) and \
                attr_chain(st.value.func) == "random.choice" and len(st.value.args) == 1 and \
                _is_self_attr(st.value.args[0], "items") and c.loops:
            proposal = True
            pvar = st.targets[0]
        if isinstance(st, ast.If) and c.loops and isinstance(c.loops[-1], ast.While):
            for fx, pol in atomic_facts(st.test, True):
                if isinstance(fx, ast.Compare) and len(fx.ops) == 1 and isinstance(fx.ops[0], ast.Lt) \
                        and isinstance(fx.left, ast.Call) and attr_chain(fx.left.func) == "random.random":
                    r = fx.comparators[0]
                    if isinstance(r, ast.BinOp) and isinstance(r.op, ast.Div) and _is_weight_sub(r.left) \
                            and _is_self_attr(r.right, "max_weight"):
                        if any(isinstance(s, ast.Break) for s in st.body):
                            accept = True
                            akey = r.left.slice
        if isinstance(st, ast.Return) and st.value is not None:
            if isinstance(st.value, ast.Call) and attr_chain(st.value.func) == "random.choice" \
                    and _is_self_attr(st.value.args[0], "items"):
                if any((not pol) and _is_self_attr(fx, "weighted") for fx, pol in c.facts):
                    unweighted = True
            elif isinstance(st.value, ast.Name):
                ret_ok = True
                rvar = st.value
    consistent = proposal and accept and ret_ok and same(pvar, akey) and same(pvar, rvar) \
        if (proposal and accept and ret_ok) else False
    rep.ob("R12.I4", consistent, "choose_random: propose uniformly, accept iff random() < weight/max_weight, return the accepted item",
           func=ch, node=ch.node, construct="choose_random weighted arm",
           detail="" if consistent else "weighted arm is not `while True: c = random.choice(self.items); "
           "if random.random() < self.weight[c]/self.max_weight: break` ... return c "
           "(proposal=%s accept=%s return=%s)" % (proposal, accept, ret_ok))
    rep.ob("R12.I4", unweighted, "choose_random: unweighted arm is one uniform choice",
           func=ch, node=ch.node, construct="choose_random unweighted arm",
           detail="" if unweighted else "unweighted arm is not `return random.choice(self.items)`")
    rr = m["random_removal"]
    t = short(rr.node, 600).replace(" ", "")
    ok = "=self.choose_random()" in t and "self.remove(" in t and "return" in t
    names = [n for n in own_nodes(rr.node) if isinstance(n, ast.Assign)
             and isinstance(n.value, ast.Call) and attr_chain(n.value.func) == "self.choose_random"]
    if ok and names:
        v = names[0].targets[0]
        rem_calls = [n for n in own_nodes(rr.node) if isinstance(n, ast.Call) and attr_chain(n.func) == "self.remove"]
        rets = [n for n in own_nodes(rr.node) if isinstance(n, ast.Return)]
        ok = bool(rem_calls and rets and same(rem_calls[0].args[0], v) and same(rets[0].value, v))
    rep.ob("R12.I4", ok, "random_removal removes and returns the chosen item", func=rr, node=rr.node,
           construct="random_removal", detail="" if ok else "random_removal must remove and return exactly the item choose_random returned")

    # ---------------- I5: total_weight ----------------------------------------
    tw = m["total_weight"]
    w_ok = u_ok = False
    for c in walk_function(tw.node):
        st = c.stmt
        if isinstance(st, ast.Return):
            weighted = any(pol and _is_self_attr(fx, "weighted") for fx, pol in c.facts)
            unw = any((not pol) and _is_self_attr(fx, "weighted") for fx, pol in c.facts)
            if weighted and _is_self_attr(st.value, "_total_weight"):
                w_ok = True
            if unw and short(st.value).replace(" ", "") in ("len(self)", "len(self.items)"):
                u_ok = True
            # the same choice written as one conditional expression
            v = st.value
            if isinstance(v, ast.IfExp):
                a, b = (v.body, v.orelse) if _is_self_attr(v.test, "weighted") else \
                    ((v.orelse, v.body) if isinstance(v.test, ast.UnaryOp) and isinstance(v.test.op, ast.Not)
                     and _is_self_attr(v.test.operand, "weighted") else (None, None))
                if a is not None and _is_self_attr(a, "_total_weight") and short(b).replace(" ", "") in ("len(self)", "len(self.items)"):
                    w_ok = u_ok = True
    rep.ob("R12.I5", w_ok and u_ok, "total_weight(): _total_weight if weighted else len(self)",
           func=tw, node=tw.node, construct="total_weight",
           detail="" if (w_ok and u_ok) else "total_weight() must return self._total_weight when weighted and len(self) otherwise")
    # insert(): replace = remove + update(weight); zero weight is not inserted
    ins = m["insert"]
    rm = up = False
    for c in walk_function(ins.node):
        for n in ast.walk(c.stmt) if isinstance(c.stmt, ast.Expr) else []:
            if isinstance(n, ast.Call) and attr_chain(n.func) == "self.remove":
                if any(pol and ("__contains__" in short(fx) or " in self" in short(fx)) for fx, pol in c.facts):
                    rm = True
            if isinstance(n, ast.Call) and attr_chain(n.func) == "self.update":
                kw = {k.arg: k.value for k in n.keywords}
                wi = kw.get("weight_increment") or (n.args[1] if len(n.args) > 1 else None)
                nonzero = any((pol and isinstance(fx, ast.Compare) and isinstance(fx.ops[0], (ast.NotEq, ast.Gt))
                               and short(fx.left) == "weight") for fx, pol in c.facts)
                if wi is not None and short(wi) == "weight" and nonzero:
                    up = True
    rep.ob("R12.I2", rm and up, "insert(): replace = remove old entry, then update with the new weight unless it is 0",
           func=ins, node=ins.node, construct="insert",
           detail="" if (rm and up) else "insert() must remove an existing entry and re-add with weight_increment=weight under weight != 0 (remove=%s update=%s)" % (rm, up))
