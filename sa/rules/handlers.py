"""Scheduling rules of the event-driven simulators (C01/C02/C09/C11/C13):

H-role   in a transmission handler, what is scheduled from inside the infection
         block has source := the node just infected and target := a neighbour of
         it; what is re-scheduled outside the block keeps (source, target);
H-guard  every scheduling call is dominated by the comparisons the property
         states (transmit only up to the source's recovery, only if earlier than
         a predicted infection, attempts inside the target's current infectious
         period dropped only for an infected target ...);
H-chain  fast_nonMarkov_SIS: first attempt enqueued, exactly the rest carried;
H-proto  `<x>_fxn = F` handed over together with `<x>_args = (...)`: the tuple
         binds F's trailing parameters without crossing."""
import ast

from ..core import own_nodes, attr_chain, short, Func, names_in, AnalysisError, resolve_callee
from ..flow import (walk_function, contexts_by_node, fact_compare, same, atomic_facts, refs)
from .callrules import sites_of
from .. import tables as T


import re

# tests that may stand between `for v in <neighbours of the new infection>` and the scheduling call
ALLOWED_INNER = {
    "_process_trans_SIR_": (r".*",),     # its exact enclosing conditions are checked in sir_guards
    "_process_trans_SIS_Markov": (),
    "_process_trans_SIS_nonMarkov_": (r"trans_delays\[\w+\]", r"trans_times"),
}


def _nm(x):
    return ast.Name(id=x, ctx=ast.Load())


def _sub(a, b):
    return ast.Subscript(value=_nm(a), slice=_nm(b), ctx=ast.Load())


def _infection_if(h, status="status", target="target"):
    """The `if status[target] == 'S':` statement of a transmission handler."""
    for st in h.node.body:
        if isinstance(st, ast.If):
            for fx, pol in atomic_facts(st.test, True):
                if isinstance(fx, ast.Compare) and isinstance(fx.ops[0], ast.Eq) and \
                        short(fx.left) == "%s[%s]" % (status, target) and short(fx.comparators[0]) == "'S'":
                    return st
    return None


def _inside(node, container):
    return any(n is node for n in ast.walk(container))


def _sites_in(repo, h):
    sites, _ = sites_of(repo)
    return [s for s in sites if s.caller is h]


def _neighbors_loop_var(h, call, of="target"):
    """If `call` sits in `for v in G.neighbors(of)` (or a loop over a map keyed by
    those neighbours), return v."""
    for c in walk_function(h.node):
        if any(n is call for n in ast.walk(c.stmt)) and not isinstance(c.stmt, (ast.For, ast.If, ast.While)):
            for lp in reversed(c.loops):
                if isinstance(lp, ast.For) and isinstance(lp.target, ast.Name):
                    return lp.target.id, lp
    return None, None


def role_rule(repo, rep, hname, resched_required):
    """H-role for one transmission handler."""
    h = repo.f(hname)
    rep.analysed(h)
    blk = _infection_if(h)
    rep.ob("H-role", blk is not None, "%s: infection block `if status[target] == 'S'`" % hname, func=h, node=h.node,
           construct="infection block", detail="" if blk else "handler no longer starts from `if status[target] == 'S'`")
    if blk is None:
        return
    # everything with an effect on the epidemic state happens under that test
    for st in h.node.body:
        if st is blk:
            continue
        for n in ast.walk(st):
            if isinstance(n, ast.Assign) and isinstance(n.targets[0], ast.Subscript) and \
                    short(n.targets[0].value) == "status":
                rep.ob("H-role", False, "%s: status only changes for a susceptible target" % hname, func=h, node=n,
                       detail="status is written outside `if status[target] == 'S'`")
    inner = outer = 0
    for s in _sites_in(repo, h):
        if s.callee.name not in T.TRANS_HANDLERS or s.error:
            continue
        b = s.binding
        src, tgt = b.get("source"), b.get("target")
        if src is None or tgt is None:
            continue
        if _inside(s.node, blk):
            inner += 1
            v, lp = _neighbors_loop_var(h, s.node)
            ok = isinstance(src, ast.Name) and src.id == "target" and isinstance(tgt, ast.Name) and tgt.id == v
            # the loop ranges over neighbours of the infected node (or a map built from them)
            okl = False
            if lp is not None:
                it = short(lp.iter)
                if it == "G.neighbors(target)":
                    okl = True
                else:
                    # a dict returned by the user rule for the neighbours handed to it
                    for n in own_nodes(h.node):
                        if isinstance(n, ast.Assign) and isinstance(n.targets[0], ast.Tuple) and \
                                any(isinstance(e, ast.Name) and e.id == it for e in n.targets[0].elts) \
                                and isinstance(n.value, ast.Call) and n.value.args and short(n.value.args[0]) == "target":
                            okl = True
            # every neighbour is offered the schedule: nothing but the handler's own stated tests may stand in between
            if lp is not None:
                cx = [c for c in walk_function(h.node) if any(n is s.node for n in ast.walk(c.stmt))
                      and not isinstance(c.stmt, (ast.For, ast.If, ast.While))]
                jumps = [n for n in ast.walk(lp) if isinstance(n, (ast.Continue, ast.Break))]
                extra = []
                if cx:
                    inner_par = []
                    seen_lp = False
                    for par in cx[0].parents:
                        if par is lp:
                            seen_lp = True
                            continue
                        if seen_lp and isinstance(par, ast.If):
                            inner_par.append(short(par.test, 400))
                    extra = [t for t in inner_par if not any(re.fullmatch(pat, t) for pat in ALLOWED_INNER.get(hname, ()))]
                okx = not jumps and not extra
                rep.ob("H-role", okx, "%s: every neighbour of the newly infected node is considered; only the stated tests prune" % hname,
                       func=h, node=jumps[0] if jumps else s.node,
                       construct="%s: extra conditions %s, jumps %d" % (hname, extra, len(jumps)),
                       detail="" if okx else "scheduling from the newly infected node skips some neighbours (%s%s): e.g. the infector is never "
                       "offered a transmission back" % (extra, ", continue/break in the neighbour loop" if jumps else ""))
            rep.ob("H-role", ok and okl, "%s: newly infected node becomes the source of what it schedules" % hname,
                   func=h, node=s.node, construct="%s(source=%s, target=%s) in infection block over %s" % (
                       s.callee.name, short(src), short(tgt), short(lp.iter) if lp is not None else None),
                   detail="" if (ok and okl) else "inside the infection block the scheduled event must have source=target "
                   "and target=the loop variable over the infected node's neighbours")
        else:
            outer += 1
            ok = isinstance(src, ast.Name) and src.id == "source" and isinstance(tgt, ast.Name) and tgt.id == "target"
            rep.ob("H-role", ok, "%s: re-scheduling keeps (source, target)" % hname, func=h, node=s.node,
                   construct="%s(source=%s, target=%s) outside infection block" % (s.callee.name, short(src), short(tgt)),
                   detail="" if ok else "the pair re-scheduled after a failed/handled attempt must be the same (source, target)")
    rep.ob("H-role", inner >= 1, "%s: schedules from the newly infected node" % hname, func=h, node=blk,
           construct="%d scheduling sites in infection block" % inner,
           detail="" if inner else "no transmission is scheduled from the newly infected node")
    if resched_required:
        rep.ob("H-role", outer >= 1, "%s: the (source, target) pair is re-scheduled on every path, also when the target "
               "was already infected" % hname, func=h, node=h.node, construct="%d re-scheduling sites outside infection block" % outer,
               detail="" if outer else "re-scheduling happens only inside `if status[target]=='S'`: after an attempt on an "
               "infected target the pair is never tried again")


def _precheck(rep, h, s, ctxs):
    """A horizon pre-check in front of a Q.add may only compare the event time itself with Q.tmax
    (myQueue.add filters by the absolute time; a pre-check on anything else can only lose events)."""
    c = ctxs[id(s.node)]
    tv = short(s.node.args[0])
    for fx, pol in c.enclosing_conditions():
        t = short(fx)
        if "tmax" in t and isinstance(fx, ast.Compare):
            ok = pol and short(fx.left) == tv and isinstance(fx.ops[0], (ast.Lt, ast.LtE)) and short(fx.comparators[0]).endswith("tmax")
            rep.ob("H-guard", ok, "%s: the horizon pre-check of %s compares the event time itself" % (h.name, s.callee.name), func=h, node=s.node,
                   construct="pre-check %s for event at %s" % (t, tv),
                   detail="" if ok else "Q.add(%s, ...) is pre-filtered by `%s`, which is not a test of the event time: with tmin < 0 (or any "
                   "offset) events that are due before tmax are never queued" % (tv, t))


def sir_guards(repo, rep):
    """_process_trans_SIR_ (C01 fast path, C11)."""
    h = repo.f("_process_trans_SIR_")
    rep.analysed(h)
    blk = _infection_if(h)
    if blk is None:
        return
    ctxs = contexts_by_node(h.node)
    sites = _sites_in(repo, h)
    # susceptible neighbours of the infected node
    okn = False
    joint = None
    for n in own_nodes(h.node):
        if isinstance(n, ast.Assign) and isinstance(n.value, ast.ListComp) and len(n.value.generators) == 1:
            g = n.value.generators[0]
            if short(g.iter) == "G.neighbors(target)" and len(g.ifs) == 1 and \
                    short(g.ifs[0]).replace('"', "'") == "status[%s] == 'S'" % short(g.target) and same(n.value.elt, g.target):
                okn = True
                nbrs = n.targets[0]
        if isinstance(n, ast.Assign) and isinstance(n.targets[0], ast.Tuple) and isinstance(n.value, ast.Call) \
                and short(n.value.func) == "trans_and_rec_time_fxn":
            joint = n
    rep.ob("H-guard", okn, "_process_trans_SIR_: candidates are the susceptible neighbours of the infected node",
           func=h, node=blk, construct="[v for v in G.neighbors(target) if status[v] == 'S']",
           detail="" if okn else "the list handed to the delay rule is not the susceptible neighbours of target")
    okj = joint is not None and len(joint.value.args) >= 2 and short(joint.value.args[0]) == "target" and okn \
        and same(joint.value.args[1], nbrs) and len(joint.targets[0].elts) == 2
    rep.ob("H-guard", okj, "_process_trans_SIR_: delays and duration come from one call of the rule for (target, susceptible neighbours)",
           func=h, node=joint if joint is not None else blk,
           construct=short(joint) if joint is not None else None, detail="" if okj else "joint rule call changed")
    if not okj:
        return
    td, rd = [e.id for e in joint.targets[0].elts]
    # rec_time[target] = time + rec_delay, assigned before any scheduling
    rt = None
    for st in blk.body:
        if isinstance(st, ast.Assign) and short(st.targets[0]) == "rec_time[target]":
            rt = st
    okr = rt is not None and short(rt.value).replace(" ", "") in ("time+%s" % rd, "%s+time" % rd)
    rep.ob("H-guard", okr, "_process_trans_SIR_: recovery time = infection time + duration", func=h,
           node=rt if rt is not None else blk, construct=short(rt) if rt is not None else None,
           detail="" if okr else "rec_time[target] is not time + the duration returned by the rule")
    adds = [s for s in sites if s.kind == "deferred" and _inside(s.node, blk)]
    if rt is not None:
        for s in adds:
            ok = s.node.lineno > rt.lineno
            rep.ob("H-guard", ok, "_process_trans_SIR_: recovery time known before anything is scheduled", func=h, node=s.node,
                   construct="Q.add(%s) after rec_time assignment" % s.callee.name,
                   detail="" if ok else "an event is scheduled before rec_time[target] is set")
    nrec = ntr = 0
    for s in adds:
        c = ctxs[id(s.node)]
        if s.callee.name == "_process_rec_SIR_":
            nrec += 1
            _precheck(rep, h, s, ctxs)
            ok = short(s.node.args[0]) == "rec_time[target]" and short(s.binding.get("node")) == "target"
            rep.ob("H-guard", ok, "_process_trans_SIR_: recovery of the infected node enqueued at its recovery time",
                   func=h, node=s.node, construct="Q.add(%s, _process_rec_SIR_, node=%s)" % (short(s.node.args[0]), short(s.binding.get("node"))),
                   detail="" if ok else "recovery event has the wrong time or node")
        elif s.callee.name == "_process_trans_SIR_":
            ntr += 1
            tvar = s.node.args[0]
            v = s.binding.get("target")
            # inf_time = time + trans_delay[v]
            d = None
            for n in own_nodes(h.node):
                if isinstance(n, ast.Assign) and same(n.targets[0], tvar):
                    d = n.value
            okt = d is not None and isinstance(v, ast.Name) and short(d).replace(" ", "") in (
                "time+%s[%s]" % (td, v.id), "%s[%s]+time" % (td, v.id))
            rep.ob("H-guard", okt, "_process_trans_SIR_: infection time = time + delay of that neighbour", func=h, node=s.node,
                   construct="%s = %s" % (short(tvar), short(d) if d is not None else None),
                   detail="" if okt else "scheduled time is not time + trans_delay[v] for the same v that is scheduled")
            ok1 = fact_compare(c.facts, tvar, ast.LtE, _sub("rec_time", "target"))
            rep.ob("H-guard", ok1, "_process_trans_SIR_: transmit iff delay <= duration (inf_time <= rec_time[source])",
                   func=h, node=s.node, construct="guard %s <= rec_time[target]: %s" % (short(tvar), ok1),
                   detail="" if ok1 else "the scheduling guard is not `inf_time <= rec_time[target]` (facts: %s)" %
                   [("%s" if p else "not (%s)") % short(f) for f, p in c.facts])
            ok2 = isinstance(v, ast.Name) and (
                fact_compare(c.facts, tvar, ast.Lt, _sub("pred_inf_time", v.id)) or
                fact_compare(c.facts, tvar, ast.LtE, _sub("pred_inf_time", v.id)))
            rep.ob("H-guard", ok2, "_process_trans_SIR_: only an earlier infection replaces the predicted one",
                   func=h, node=s.node, construct="guard %s < pred_inf_time[v]: %s" % (short(tvar), ok2),
                   detail="" if ok2 else "scheduling is not guarded by `inf_time < pred_inf_time[v]`")
            # nothing else may stand between a new infection and its transmissions
            enc = [("%s" if pol else "not (%s)") % short(fx) for fx, pol in c.enclosing_conditions()]
            allowed = {"status[target] == 'S'", "%s <= rec_time[target]" % short(tvar),
                       "%s < pred_inf_time[%s]" % (short(tvar), short(v)), "%s <= pred_inf_time[%s]" % (short(tvar), short(v)),
                       "%s <= Q.tmax" % short(tvar), "%s < Q.tmax" % short(tvar)}
            extra = [x for x in enc if x not in allowed]
            rep.ob("H-guard", not extra, "_process_trans_SIR_: transmissions of a new infection depend on nothing but the stated tests",
                   func=h, node=s.node, construct="scheduling also conditional on %s" % extra,
                   detail="" if not extra else "scheduling of transmissions is additionally conditional on %s: e.g. a node whose recovery "
                   "falls after tmax would never transmit" % extra)
            # pred_inf_time[v] = inf_time paired in the same block
            blk2 = c.parents[-1].body if c.parents else []
            paired = any(isinstance(x, ast.Assign) and isinstance(v, ast.Name)
                         and short(x.targets[0]) == "pred_inf_time[%s]" % v.id and same(x.value, tvar) for x in blk2)
            rep.ob("H-guard", paired, "_process_trans_SIR_: predicted infection time updated with every scheduled infection",
                   func=h, node=s.node, construct="pred_inf_time[v] = %s next to Q.add: %s" % (short(tvar), paired),
                   detail="" if paired else "pred_inf_time[v] is not set to the scheduled time in the block of the Q.add")
    rep.ob("H-guard", nrec == 1 and ntr == 1, "_process_trans_SIR_: one recovery and one transmission scheduling site",
           func=h, node=blk, construct="rec sites %d, trans sites %d" % (nrec, ntr),
           detail="" if (nrec == 1 and ntr == 1) else "unexpected number of scheduling sites")
    # every store to pred_inf_time in the handler is such a guarded pairing
    for c in walk_function(h.node):
        st = c.stmt
        if isinstance(st, ast.Assign) and isinstance(st.targets[0], ast.Subscript) and short(st.targets[0].value) == "pred_inf_time":
            key = st.targets[0].slice
            ok = fact_compare(c.facts, st.value, ast.Lt, st.targets[0]) or fact_compare(c.facts, st.value, ast.LtE, st.targets[0])
            # the Q.add precedes the store, so the guard on pred_inf_time[v] is still alive at the add;
            # at the store itself it suffices that the add sits in the same block
            blk2 = c.parents[-1].body if c.parents else []
            has_add = any(isinstance(x, ast.Expr) and isinstance(x.value, ast.Call) and isinstance(x.value.func, ast.Attribute)
                          and x.value.func.attr == "add" for x in blk2)
            rep.ob("H-guard", ok or has_add, "_process_trans_SIR_: pred_inf_time only lowered together with a scheduled event",
                   func=h, node=st, construct=short(st), detail="" if (ok or has_add) else "unpaired store to pred_inf_time")


def sis_markov_guards(repo, rep):
    h = repo.f("_process_trans_SIS_Markov")
    g = repo.f("_find_next_trans_SIS_Markov")
    rep.analysed(h); rep.analysed(g)
    blk = _infection_if(h)
    if blk is None:
        return
    ctxs = contexts_by_node(h.node)
    # rec_time[target] assigned on every non-raising path of the block before scheduling
    from ..flow import enumerate_paths
    npaths = 0
    for items, term in enumerate_paths(blk.body):
        if isinstance(term, ast.Raise):
            continue
        npaths += 1
        seen_rt = False
        for it in items:
            st = it.stmt
            if isinstance(st, ast.Assign) and short(st.targets[0]) == "rec_time[target]":
                seen_rt = True
                v = short(st.value).replace(" ", "")
                okv = v.startswith("time+random.expovariate(") or v in ("float('Inf')", "float('inf')")
                rep.ob("H-guard", okv, "_process_trans_SIS_Markov: recovery time = time + Exp(rate) (or Inf for rate 0)",
                       func=h, node=st, construct=short(st), detail="" if okv else "unexpected recovery time %s" % v)
            for n in ([st] if isinstance(st, ast.Expr) else []):
                for cnode in ast.walk(n):
                    if isinstance(cnode, ast.Call) and (short(cnode.func).endswith(".add") or
                                                        short(cnode.func) == "_find_next_trans_SIS_Markov"):
                        rep.ob("H-guard", seen_rt, "_process_trans_SIS_Markov: recovery time set before scheduling", func=h,
                               node=cnode, construct="%s after rec_time[target] assignment" % short(cnode.func),
                               detail="" if seen_rt else "scheduling reads rec_time[target] before it is assigned on this path")
    for s in _sites_in(repo, h):
        if s.kind == "deferred" and s.callee.name == "_process_rec_SIS_" and s.via is None:
            _precheck(rep, h, s, ctxs)
            c = ctxs[id(s.node)]
            ok = short(s.node.args[0]) == "rec_time[target]" and short(s.binding.get("node")) == "target"
            rep.ob("H-guard", ok, "_process_trans_SIS_Markov: recovery of the infected node enqueued at its recovery time",
                   func=h, node=s.node, construct="Q.add(%s, _process_rec_SIS_, node=%s)" % (short(s.node.args[0]), short(s.binding.get("node"))),
                   detail="" if ok else "recovery event has the wrong time or node")
        if s.kind == "direct" and s.callee is g:
            b = s.binding
            src, tgt, tau = b.get("source"), b.get("target"), b.get("tau")
            ok = isinstance(tau, ast.Call) and short(tau.func) == "trans_rate_fxn" and len(tau.args) == 2 \
                and same(tau.args[0], src) and same(tau.args[1], tgt)
            rep.ob("H-guard", ok, "_process_trans_SIS_Markov: pair rate is trans_rate_fxn(source, target) of the same pair",
                   func=h, node=s.node, construct="tau=%s for (source=%s, target=%s)" % (short(tau), short(src), short(tgt)),
                   detail="" if ok else "rate and pair disagree")
            ta = b.get("trans_event_args")
            ok2 = isinstance(ta, ast.Tuple) and len(ta.elts) >= 3 and same(ta.elts[1], src) and same(ta.elts[2], tgt)
            rep.ob("H-guard", ok2, "_process_trans_SIS_Markov: the queued event carries the same (source, target)",
                   func=h, node=s.node, construct="trans_event_args[1:3]=(%s) vs (%s, %s)" % (
                       ", ".join(short(e) for e in ta.elts[1:3]) if isinstance(ta, ast.Tuple) else None, short(src), short(tgt)),
                   detail="" if ok2 else "event tuple and scheduling pair disagree")
            okt = short(b.get("time")) == "time"
            rep.ob("H-guard", okt, "_process_trans_SIS_Markov: scheduling starts from the current time", func=h, node=s.node,
                   construct="time=%s" % short(b.get("time")), detail="" if okt else "wrong start time")
    # outer re-scheduling is guarded only by `source is not None`
    for s in _sites_in(repo, h):
        if s.kind == "direct" and s.callee is g and not _inside(s.node, blk):
            c = ctxs[id(s.node)]
            txt = [("%s" if p else "not (%s)") % short(f) for f, p in c.facts]
            ok = txt == ["source is not None"]
            rep.ob("H-guard", ok, "_process_trans_SIS_Markov: re-scheduling only skipped for the initial (source None) events",
                   func=h, node=s.node, construct="re-schedule under %s" % txt,
                   detail="" if ok else "re-scheduling is conditional on more than `source is not None`")
    # --- _find_next_trans_SIS_Markov
    gctx = contexts_by_node(g.node)
    adds = [n for n in own_nodes(g.node) if isinstance(n, ast.Call) and short(n.func).endswith(".add")]
    rep.ob("H-guard", len(adds) == 1, "_find_next_trans_SIS_Markov: one scheduling site", func=g, node=g.node,
           construct="%d Q.add" % len(adds), detail="" if len(adds) == 1 else "unexpected number of Q.add calls")
    for a in adds:
        c = gctx[id(a)]
        tv = a.args[0]
        ok1 = fact_compare(c.facts, tv, ast.Lt, _sub("rec_time", "source"))
        rep.ob("H-guard", ok1, "_find_next_trans_SIS_Markov: transmit only before the source recovers", func=g, node=a,
               construct="guard %s < rec_time[source]: %s" % (short(tv), ok1),
               detail="" if ok1 else "Q.add is not dominated by `transmission_time < rec_time[source]`")
        ok0 = fact_compare(c.facts, _sub("rec_time", "target"), ast.Lt, _sub("rec_time", "source"))
        rep.ob("H-guard", ok0, "_find_next_trans_SIS_Markov: nothing to schedule unless the target recovers before the source",
               func=g, node=a, construct="guard rec_time[target] < rec_time[source]: %s" % ok0,
               detail="" if ok0 else "outer guard changed")
        okh = short(a.args[1]) == "_process_trans_SIS_Markov"
        kw = {k.arg: k.value for k in a.keywords}
        oka = short(kw.get("args", a.args[2] if len(a.args) > 2 else None) or ast.Constant(None)) == "trans_event_args"
        rep.ob("H-guard", okh and oka, "_find_next_trans_SIS_Markov: schedules the transmission handler with the event tuple it was given",
               func=g, node=a, construct="Q.add(_, %s, args=%s)" % (short(a.args[1]), short(kw.get("args")) if kw.get("args") is not None else None),
               detail="" if (okh and oka) else "handler or args changed")
        # the time: time + delay ; if it falls before the target's recovery: rec_time[target] + fresh draw
        tname = tv.id if isinstance(tv, ast.Name) else None
        defs = [n for n in own_nodes(g.node) if isinstance(n, ast.Assign) and isinstance(n.targets[0], ast.Name)
                and n.targets[0].id == tname]
        first = [d for d in defs if short(d.value).replace(" ", "") in ("time+delay", "delay+time")]
        redo = [d for d in defs if short(d.value).replace(" ", "") in ("rec_time[target]+delay", "delay+rec_time[target]")]
        okd = len(first) == 1 and len(redo) == 1 and len(defs) == 2
        rep.ob("H-guard", okd, "_find_next_trans_SIS_Markov: first attempt at time + Exp, otherwise rec_time[target] + Exp",
               func=g, node=a, construct="defs of %s: %s" % (tname, [short(d.value) for d in defs]),
               detail="" if okd else "transmission time is not (time + delay) then (rec_time[target] + delay)")
        if okd:
            c2 = [c for c in walk_function(g.node) if c.stmt is redo[0]][0]
            okg = fact_compare(c2.facts, tv, ast.Lt, _sub("rec_time", "target"))
            rep.ob("H-guard", okg, "_find_next_trans_SIS_Markov: re-draw exactly when the first attempt falls inside the target's "
                   "infectious period", func=g, node=redo[0], construct="redo under %s < rec_time[target]: %s" % (tname, okg),
                   detail="" if okg else "re-draw guard changed")
            # a FRESH exponential is drawn in the same block before the re-assignment (memorylessness)
            blk2 = c2.parents[-1].body if c2.parents else []
            i = [k for k, s_ in enumerate(blk2) if s_ is redo[0]][0]
            fresh = any(isinstance(x, ast.Assign) and short(x.targets[0]) == "delay" and isinstance(x.value, ast.Call)
                        and attr_chain(x.value.func) == "random.expovariate" and short(x.value.args[0]) == "tau"
                        for x in blk2[:i])
            rep.ob("H-guard", fresh, "_find_next_trans_SIS_Markov: the re-scheduled attempt uses a fresh exponential delay",
                   func=g, node=redo[0], construct="fresh delay = random.expovariate(tau) before redo: %s" % fresh,
                   detail="" if fresh else "the delay conditioned to be short is reused after the target's recovery (biased)")
        # first delay: Exp(tau) for tau>0, Inf for tau == 0
        dd = [n for n in own_nodes(g.node) if isinstance(n, ast.Assign) and short(n.targets[0]) == "delay"]
        oke = any(isinstance(d.value, ast.Call) and attr_chain(d.value.func) == "random.expovariate"
                  and short(d.value.args[0]) == "tau" for d in dd)
        rep.ob("H-guard", oke, "_find_next_trans_SIS_Markov: delay ~ Exp(tau)", func=g, node=a,
               construct="delay defs %s" % [short(d.value) for d in dd], detail="" if oke else "delay is not exponential with the pair rate")


def sis_nonmarkov_rules(repo, rep):
    h = repo.f("_process_trans_SIS_nonMarkov_")
    rep.analysed(h)
    blk = _infection_if(h)
    if blk is None:
        return
    ctxs = contexts_by_node(h.node)
    # joint rule call
    joint = None
    for n in own_nodes(h.node):
        if isinstance(n, ast.Assign) and isinstance(n.targets[0], ast.Tuple) and isinstance(n.value, ast.Call) \
                and short(n.value.func) == "trans_and_rec_time_fxn":
            joint = n
    okj = joint is not None and len(joint.value.args) >= 2 and short(joint.value.args[0]) == "target" and \
        short(joint.value.args[1]) == "G.neighbors(target)" and len(joint.targets[0].elts) == 2 and _inside(joint, blk)
    rep.ob("H-guard", okj, "_process_trans_SIS_nonMarkov_: delays and duration from one rule call for (target, its neighbours)",
           func=h, node=joint if joint is not None else blk, construct=short(joint) if joint is not None else None,
           detail="" if okj else "joint rule call changed")
    if not okj:
        return
    td, rd = [e.id for e in joint.targets[0].elts]
    rt = [st for st in blk.body if isinstance(st, ast.Assign) and short(st.targets[0]) == "rec_time[target]"]
    okr = len(rt) == 1 and short(rt[0].value).replace(" ", "") in ("time+%s" % rd, "%s+time" % rd)
    rep.ob("H-guard", okr, "_process_trans_SIS_nonMarkov_: recovery time = infection time + duration", func=h,
           node=rt[0] if rt else blk, construct=short(rt[0]) if rt else None, detail="" if okr else "rec_time[target] wrong")
    for s in _sites_in(repo, h):
        if s.kind == "deferred" and s.callee.name == "_process_rec_SIS_":
            _precheck(rep, h, s, ctxs)
            ok = short(s.node.args[0]) == "rec_time[target]" and short(s.binding.get("node")) == "target" and _inside(s.node, blk)
            rep.ob("H-guard", ok, "_process_trans_SIS_nonMarkov_: recovery of the infected node enqueued at its recovery time",
                   func=h, node=s.node, construct="Q.add(%s, _process_rec_SIS_, node=%s)" % (short(s.node.args[0]), short(s.binding.get("node"))),
                   detail="" if ok else "recovery event wrong")
    # every transmission scheduling site: Q.add(L[0], handler, args=(G, s, t, REST, ...)) with REST == L[1:]
    nsite = 0
    for s in _sites_in(repo, h):
        if s.kind != "deferred" or s.callee is not h:
            continue
        nsite += 1
        c = ctxs[id(s.node)]
        first = s.node.args[0]
        okf = isinstance(first, ast.Subscript) and short(first.slice) == "0" and isinstance(first.value, ast.Name)
        rest = s.binding.get("future_transmissions")
        okc = False
        L = first.value.id if okf else None
        if okf and isinstance(rest, ast.Name):
            # reaching definition of rest in the same block, before the add:  rest = L[1:]
            blk2 = c.parents[-1].body if c.parents else h.node.body
            # search enclosing blocks from inner to outer
            cand = []
            for par in list(c.parents)[::-1] + [h.node]:
                body = par.body
                for st in body:
                    if isinstance(st, ast.Assign) and isinstance(st.targets[0], ast.Name) and st.targets[0].id == rest.id \
                            and st.lineno < s.node.lineno:
                        cand.append(st)
                if cand:
                    break
            if cand:
                d = cand[-1]
                okc = short(d.value).replace(" ", "") == "%s[1:]" % L
                # L must not be reassigned between `rest = L[1:]` and the add
                for n in own_nodes(h.node):
                    if isinstance(n, ast.Assign) and isinstance(n.targets[0], ast.Name) and n.targets[0].id == L \
                            and d.lineno < n.lineno < s.node.lineno:
                        okc = False
        rep.ob("H-chain", okf and okc, "_process_trans_SIS_nonMarkov_: first attempt enqueued, exactly the rest carried along",
               func=h, node=s.node, construct="Q.add(%s, ..., future=%s) with %s = %s[1:]: %s" % (short(first), short(rest) if rest is not None else None,
                                                                                           short(rest) if rest is not None else None, L, okc),
               detail="" if (okf and okc) else "the attempt list carried in the event is not the complement slice [1:] of the list whose [0] is enqueued")
        # non-empty guard
        okn = okf and any(pol and short(fx) == L for fx, pol in c.facts)
        rep.ob("H-chain", okn, "_process_trans_SIS_nonMarkov_: scheduling only when an attempt is left", func=h, node=s.node,
               construct="guard `if %s`: %s" % (L, okn), detail="" if okn else "Q.add of L[0] not guarded by `if L`")
        if _inside(s.node, blk):
            # L = [time + td for td in trans_delays[v]]; filtered by > rec_time[v] only under status[v] == 'I'
            v = s.binding.get("target")
            defs = [n for n in ast.walk(blk) if isinstance(n, ast.Assign) and isinstance(n.targets[0], ast.Name)
                    and n.targets[0].id == L]
            base = [d for d in defs if isinstance(d.value, ast.ListComp) and short(d.value.generators[0].iter) == "%s[%s]" % (td, short(v))
                    and short(d.value.elt).replace(" ", "") in ("time+%s" % short(d.value.generators[0].target),
                                                               "%s+time" % short(d.value.generators[0].target))
                    and not d.value.generators[0].ifs]
            okb = len(base) == 1
            rep.ob("H-chain", okb, "_process_trans_SIS_nonMarkov_: attempt times are time + every listed delay of that neighbour",
                   func=h, node=s.node, construct="%s defs: %s" % (L, [short(d.value, 60) for d in defs]),
                   detail="" if okb else "attempt list is not [time + td for td in trans_delays[v]]")
            filt = [d for d in defs if d not in base]
            for d in filt:
                cd = [cc for cc in walk_function(h.node) if cc.stmt is d][0]
                lc = d.value
                okflt = isinstance(lc, ast.ListComp) and short(lc.generators[0].iter) == L and len(lc.generators[0].ifs) == 1 \
                    and short(lc.generators[0].ifs[0]).replace(" ", "") == "%s>rec_time[%s]" % (short(lc.generators[0].target), short(v)) \
                    and same(lc.elt, lc.generators[0].target)
                oki = any(pol and short(fx).replace('"', "'") == "status[%s] == 'I'" % short(v) for fx, pol in cd.facts)
                rep.ob("H-chain", okflt and oki, "_process_trans_SIS_nonMarkov_: attempts inside the neighbour's current infectious "
                       "period are dropped only when it is infected", func=h, node=d,
                       construct="filter %s under status[v]=='I': %s" % (short(lc, 60), oki),
                       detail="" if (okflt and oki) else "attempt filter must be `t > rec_time[v]` and apply only under `status[v] == 'I'`")
            rep.ob("H-chain", len(filt) == 1, "_process_trans_SIS_nonMarkov_: one filter for infected neighbours", func=h, node=s.node,
                   construct="%d filters" % len(filt), detail="" if len(filt) == 1 else "expected exactly one filtering re-definition")
        else:
            # outside: L = [t for t in future_transmissions if t > rec_time[target]]
            defs = [st for st in h.node.body if isinstance(st, ast.Assign) and isinstance(st.targets[0], ast.Name)
                    and st.targets[0].id == L]
            oko = len(defs) == 1 and isinstance(defs[0].value, ast.ListComp) and \
                short(defs[0].value.generators[0].iter) == "future_transmissions" and len(defs[0].value.generators[0].ifs) == 1 \
                and short(defs[0].value.generators[0].ifs[0]).replace(" ", "") == "%s>rec_time[target]" % short(defs[0].value.generators[0].target) \
                and same(defs[0].value.elt, defs[0].value.generators[0].target)
            rep.ob("H-chain", oko, "_process_trans_SIS_nonMarkov_: remaining attempts are those after the target's current recovery time",
                   func=h, node=defs[0] if defs else h.node, construct="%s = %s" % (L, short(defs[0].value, 80) if defs else None),
                   detail="" if oko else "remaining-attempt filter changed")
            txt = [("%s" if p else "not (%s)") % short(f) for f, p in c.facts]
            oku = txt == [L]
            rep.ob("H-chain", oku, "_process_trans_SIS_nonMarkov_: remaining attempts are re-queued whether or not this attempt infected",
                   func=h, node=s.node, construct="re-queue under %s" % txt,
                   detail="" if oku else "re-queueing is conditional on more than the list being non-empty")
    rep.ob("H-chain", nsite == 2, "_process_trans_SIS_nonMarkov_: two scheduling sites (new infection, remaining attempts)",
           func=h, node=h.node, construct="%d sites" % nsite, detail="" if nsite == 2 else "unexpected number of scheduling sites")


# ---------------------------------------------------------------------------
# H-proto
# ---------------------------------------------------------------------------
LEAD = {"trans_time_fxn": None, "rec_time_fxn": 1, "trans_and_rec_time_fxn": 2}


def _lead_for(repo, fxn_formal, F):
    """How many leading positional arguments the protocol supplies before *args."""
    if fxn_formal == "rec_time_fxn":
        return 1
    if fxn_formal == "trans_and_rec_time_fxn":
        return 2
    if fxn_formal == "trans_time_fxn":
        return 2
    return None


def proto_rule(repo, rep, funcs, floor=1):
    """<x>_fxn / <x>_args pairs: in assignments and in calls."""
    n = 0
    for name in funcs:
        f = repo.f(name)
        rep.analysed(f)
        pairs = []
        # assignments in the same block
        for c in walk_function(f.node):
            st = c.stmt
            if isinstance(st, ast.Assign) and isinstance(st.targets[0], ast.Name) and st.targets[0].id.endswith("_fxn"):
                F = resolve_callee(repo, f, st.value) if isinstance(st.value, ast.Name) else None
                if isinstance(F, Func):
                    an = st.targets[0].id.replace("_fxn", "_args")
                    blk = c.parents[-1].body if c.parents else f.node.body
                    if isinstance(c.parents[-1] if c.parents else None, ast.If):
                        par = c.parents[-1]
                        blk = par.body if any(x is st for x in par.body) else par.orelse
                    for s2 in blk:
                        if isinstance(s2, ast.Assign) and isinstance(s2.targets[0], ast.Name) and s2.targets[0].id == an \
                                and isinstance(s2.value, ast.Tuple):
                            pairs.append((st.targets[0].id, F, s2.value, s2))
        # keyword / positional pairs in calls
        sites, _ = sites_of(repo)
        for s in sites:
            if s.caller is not f or s.error or s.kind not in ("direct",):
                continue
            for fml, act in s.binding.items():
                if fml.endswith("_fxn") and isinstance(act, ast.Name):
                    F = resolve_callee(repo, f, act)
                    an = fml.replace("_fxn", "_args")
                    tup = s.binding.get(an)
                    if isinstance(tup, ast.Name):
                        # single local definition
                        tname = tup.id
                        for m in own_nodes(f.node):
                            if isinstance(m, ast.Assign) and isinstance(m.targets[0], ast.Name) and m.targets[0].id == tname \
                                    and isinstance(m.value, ast.Tuple):
                                tup = m.value
                    if isinstance(F, Func) and isinstance(tup, ast.Tuple):
                        pairs.append((fml, F, tup, s.node))
        for fml, F, tup, node in pairs:
            n += 1
            lead = _lead_for(repo, fml, F)
            trailing = F.params[lead:]
            inst = "%s: %s=%s with %s" % (name, fml, F.name, fml.replace("_fxn", "_args"))
            okn = len(tup.elts) == len(trailing) or (len(tup.elts) <= len(trailing) and
                                                       all(p in F.defaults for p in trailing[len(tup.elts):]))
            rep.ob("H-proto", okn, inst + " arity", func=f, node=node,
                   construct="%s%s <- %s" % (F.name, tuple(trailing), short(tup)),
                   detail="" if okn else "tuple of %d does not fit the trailing parameters %s of %s" % (len(tup.elts), trailing, F.name))
            for p, e in zip(trailing, tup.elts):
                cross = isinstance(e, ast.Name) and e.id != p and e.id in F.params
                rep.ob("H-proto", not cross, inst + " " + p, func=f, node=node,
                       construct="%s: %s <- %s" % (F.name, p, short(e)),
                       detail="" if not cross else "tuple element `%s` lands on parameter `%s` of %s although it has a parameter `%s`" % (
                           e.id, p, F.name, e.id))
    rep.floor("H-proto", "function/args pairs", n, floor)


def adapter_rule(repo, rep):
    """The two adapters that turn separate user functions into the joint rule."""
    for name, lead_trans in (("_find_trans_and_rec_delays_SIR_", ("node", "target")),
                             ("_find_trans_and_rec_delays_SIS_", ("node", "target", "rec_delay"))):
        f = repo.f(name)
        rep.analysed(f)
        rec = [n for n in own_nodes(f.node) if isinstance(n, ast.Assign) and isinstance(n.value, ast.Call)
               and short(n.value.func) == "rec_time_fxn"]
        ok = len(rec) == 1 and short(rec[0].value.args[0]) == f.params[0] and \
            isinstance(rec[0].value.args[-1], ast.Starred) and short(rec[0].value.args[-1].value) == "rec_time_args"
        rep.ob("H-proto", ok, "%s: duration = rec_time_fxn(node, *rec_time_args)" % name, func=f, node=rec[0] if rec else f.node,
               construct=short(rec[0]) if rec else None, detail="" if ok else "recovery rule is not called as rec_time_fxn(node, *rec_time_args)")
        rd = rec[0].targets[0].id if rec and isinstance(rec[0].targets[0], ast.Name) else None
        tr = [n for n in own_nodes(f.node) if isinstance(n, ast.Call) and short(n.func) == "trans_time_fxn"]
        okt = len(tr) == 1 and isinstance(tr[0].args[-1], ast.Starred) and short(tr[0].args[-1].value) == "trans_time_args"
        if okt:
            lead = [short(a) for a in tr[0].args[:-1]]
            want = [f.params[0]]
            # the loop variable over the neighbours
            lp = [n for n in own_nodes(f.node) if isinstance(n, ast.For)]
            okt = len(lp) == 1 and short(lp[0].iter) == f.params[1]
            if okt:
                want.append(short(lp[0].target))
                if len(lead_trans) == 3:
                    want.append(rd)
                okt = lead == want
                # stored under the neighbour it was computed for
                st = [n for n in lp[0].body if isinstance(n, ast.Assign) and isinstance(n.targets[0], ast.Subscript)]
                okt = okt and len(st) == 1 and same(st[0].targets[0].slice, lp[0].target)
        rep.ob("H-proto", okt, "%s: delay(s) of neighbour v = trans_time_fxn(node, v%s, *trans_time_args) stored under v" % (
            name, ", duration" if len(lead_trans) == 3 else ""), func=f, node=tr[0] if tr else f.node,
            construct=short(tr[0]) if tr else None, detail="" if okt else "transmission rule call or its key changed")
        ret = [n for n in own_nodes(f.node) if isinstance(n, ast.Return)]
        okr = len(ret) == 1 and isinstance(ret[0].value, ast.Tuple) and len(ret[0].value.elts) == 2 and short(ret[0].value.elts[1]) == rd
        rep.ob("H-proto", okr, "%s: returns (delays, duration) in that order" % name, func=f, node=ret[0] if ret else f.node,
               construct=short(ret[0]) if ret else None, detail="" if okr else "return order changed")
