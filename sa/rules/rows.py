"""R9 -- row discipline of the returned time series, record pairing for
transmissions (C09) and node histories (C10), loop-guard domination (C04)."""
import ast

from ..core import own_nodes, attr_chain, short, Func, names_in, AnalysisError
from ..flow import (walk_function, contexts_by_node, fact_compare, same,
                    enumerate_paths, atomic_facts, refs)
from .callrules import sites_of, dependency_closure, depends_on
from ..linear import linear, lin_equal, lin_str


# ---------------------------------------------------------------------------
# discovery helpers
# ---------------------------------------------------------------------------
def plain_return(f):
    """The Return of the not-full-data mode: (node, [element expressions])."""
    for c in walk_function(f.node):
        st = c.stmt
        if isinstance(st, ast.Return) and st.value is not None:
            plain = any(((not pol) and short(fx) == "return_full_data") or
                        (pol and short(fx) == "not return_full_data") for fx, pol in c.facts)
            if plain and isinstance(st.value, ast.Tuple):
                return st, list(st.value.elts)
            if plain and isinstance(st.value, ast.Name):
                return st, [st.value]
    return None, []


def series_names(f):
    """Names of the list-valued series returned in plain mode: np.array(X) -> X."""
    st, elts = plain_return(f)
    out = []
    for e in elts:
        if isinstance(e, ast.Call) and attr_chain(e.func) in ("np.array", "numpy.array") and e.args \
                and isinstance(e.args[0], ast.Name):
            out.append(e.args[0].id)
        elif isinstance(e, ast.Name):
            out.append(e.id)
    return st, out


def _append_of(st):
    """(receiver expr, appended expr) if st is `X.append(e)`."""
    if isinstance(st, ast.Expr) and isinstance(st.value, ast.Call) and \
            isinstance(st.value.func, ast.Attribute) and st.value.func.attr == "append" \
            and len(st.value.args) == 1:
        return st.value.func.value, st.value.args[0]
    return None


def _status_write(st, status_names):
    """(node expr, literal or expr) if st is `status[n] = v`."""
    if isinstance(st, ast.Assign) and len(st.targets) == 1 and isinstance(st.targets[0], ast.Subscript) \
            and isinstance(st.targets[0].value, ast.Name) and st.targets[0].value.id in status_names:
        return st.targets[0].slice, st.value
    return None


def _delta(expr, series):
    """appended expr `X[-1] (+|-) c` for series X -> c, else None."""
    def last(e):
        return isinstance(e, ast.Subscript) and isinstance(e.value, ast.Name) and e.value.id == series \
            and short(e.slice) == "-1"
    if last(expr):
        return 0
    if isinstance(expr, ast.BinOp) and last(expr.left) and isinstance(expr.op, (ast.Add, ast.Sub)):
        r = expr.right
        c = None
        if isinstance(r, ast.Constant) and isinstance(r.value, int) and not isinstance(r.value, bool):
            c = r.value
        elif isinstance(r, ast.UnaryOp) and isinstance(r.op, (ast.USub, ast.UAdd)) and isinstance(r.operand, ast.Constant) \
                and isinstance(r.operand.value, int) and not isinstance(r.operand.value, bool):
            c = -r.operand.value if isinstance(r.op, ast.USub) else r.operand.value
        if c is not None:
            return c if isinstance(expr.op, ast.Add) else -c
    return None


LEGAL = {  # status literal written -> {compartment letter: delta}
    "I": {"S": -1, "I": +1, "R": 0},
    "R": {"S": 0, "I": -1, "R": +1},
    "S": {"S": +1, "I": -1},
}


def check_event_block(rep, f, body, series, time_series, time_var, status_name, what,
                      transmissions=None, inf_hist=None, rec_hist=None, require_event=False):
    """Row discipline over every path of an event block.

    series: dict compartment letter -> list name; time_series: list name of times;
    time_var: name of the event-time variable; status_name: the status map."""
    paths = enumerate_paths(body)
    if len(paths) >= 4096:
        raise AnalysisError("R9: path explosion in %s" % f.qual)
    all_series = list(series.values()) + [time_series]
    npaths = 0
    for items, term in paths:
        if isinstance(term, ast.Raise):
            continue        # the call fails: nothing is returned
        npaths += 1
        apps = {s: [] for s in all_series}
        writes = []
        trans = []
        ihist, rhist = [], []
        rfd_true = True
        in_loop_append = None
        for it in items:
            st = it.stmt
            if isinstance(st, ast.If) and it.arm is not None:
                tt = short(st.test).replace(" ", "")
                if tt == "return_full_data" and not it.arm:
                    rfd_true = False
                if tt == "notreturn_full_data" and it.arm:
                    rfd_true = False
            a = _append_of(st)
            if a is not None and isinstance(a[0], ast.Name) and a[0].id in apps:
                apps[a[0].id].append((st, a[1]))
                if it.loops:
                    in_loop_append = st
            if a is not None and transmissions and isinstance(a[0], ast.Name) and a[0].id == transmissions:
                trans.append((st, a[1]))
            if a is not None and isinstance(a[0], ast.Subscript) and isinstance(a[0].value, ast.Name):
                if inf_hist and a[0].value.id == inf_hist:
                    ihist.append((st, a[0].slice, a[1]))
                if rec_hist and a[0].value.id == rec_hist:
                    rhist.append((st, a[0].slice, a[1]))
            w = _status_write(st, {status_name})
            if w is not None:
                writes.append((st, w[0], w[1], bool(it.loops)))
        counts = {s: len(v) for s, v in apps.items()}
        pid = "%s path %d" % (what, npaths)
        if in_loop_append is not None:
            rep.ob("R9", False, "%s: series append inside a loop" % what, func=f, node=in_loop_append,
                   detail="a row is appended once per loop iteration, not once per event")
            continue
        vals = set(counts.values())
        if vals == {0}:
            ok = not [w for w in writes if not w[3]]
            rep.ob("R9", ok, "%s: no row <=> no status change" % what, func=f,
                   node=(writes[0][0] if writes else body[0]),
                   detail="" if ok else "status is written on a path that appends no row",
                   construct="%s: status write without row" % what if not ok else "%s: silent path" % what)
            continue
        if vals != {1}:
            rep.ob("R9", False, "%s: lock-step appends" % what, func=f, node=body[0],
                   detail="on one path the series are appended %s times" % counts,
                   construct="%s: append counts %s" % (what, sorted(counts.items())))
            continue
        # times
        tst, texpr = apps[time_series][0]
        okt = isinstance(texpr, ast.Name) and texpr.id == time_var
        rep.ob("R9", okt, "%s: time appended is the event time" % what, func=f, node=tst,
               detail="" if okt else "times gets %s, not the event time `%s`" % (short(texpr), time_var),
               construct="%s.append(%s)" % (time_series, short(texpr)))
        # deltas
        deltas = {}
        good = True
        for letter, s in series.items():
            st, e = apps[s][0]
            d = _delta(e, s)
            if d is None or d not in (-1, 0, 1):
                rep.ob("R9", False, "%s: %s row is last value +-1" % (what, s), func=f, node=st,
                       detail="appended value %s is not %s[-1], %s[-1]+1 or %s[-1]-1" % (short(e), s, s, s))
                good = False
            deltas[letter] = d
        if not good:
            continue
        tot = sum(deltas.values())
        rep.ob("R9", tot == 0, "%s: deltas sum to 0" % what, func=f, node=apps[time_series][0][0],
               detail="" if tot == 0 else "row changes the population by %+d (%s)" % (tot, deltas),
               construct="%s: deltas %s" % (what, sorted(deltas.items())))
        # one status write matching the deltas
        w1 = [w for w in writes if not w[3]]
        if len(w1) != 1:
            rep.ob("R9", False, "%s: exactly one status change per row" % what, func=f, node=apps[time_series][0][0],
                   detail="%d status writes on a path that appends one row" % len(w1),
                   construct="%s: %d status writes" % (what, len(w1)))
            continue
        wst, wnode, wval, _ = w1[0]
        lit = wval.value if isinstance(wval, ast.Constant) else None
        want = LEGAL.get(lit)
        okm = want is not None and all(deltas.get(k, 0) == v for k, v in want.items() if k in deltas) \
            and all(k in want for k in deltas)
        rep.ob("R9", okm, "%s: row deltas match the status written" % what, func=f, node=wst,
               detail="" if okm else "status %r is written but the row changes by %s" % (lit, deltas),
               construct="%s: status %r with deltas %s" % (what, lit, sorted(deltas.items())))
        # C09: transmission record
        if transmissions and lit == "I":
            if rfd_true:
                okc = len(trans) == 1
                det = "" if okc else "%d transmission records on an infection path" % len(trans)
                if okc:
                    tup = trans[0][1]
                    okc = isinstance(tup, ast.Tuple) and len(tup.elts) == 3 and \
                        isinstance(tup.elts[0], ast.Name) and tup.elts[0].id == time_var and same(tup.elts[2], wnode)
                    if not okc:
                        det = "record %s is not (event time, source, node whose status is written = %s)" % (short(tup), short(wnode))
                rep.ob("R9.C09", okc, "%s: one (t, source, target) record per infection" % what, func=f,
                       node=(trans[0][0] if trans else wst), detail=det,
                       construct="%s: record %s" % (what, short(trans[0][1]) if trans else None))
        elif transmissions and trans and rfd_true:
            rep.ob("R9.C09", False, "%s: transmission recorded without an infection" % what, func=f,
                   node=trans[0][0], detail="a (t, source, target) record is appended on a path whose status write is %r" % lit)
        # C10: history pairing
        if rfd_true and (inf_hist or rec_hist):
            if lit == "I" and inf_hist:
                okh = len(ihist) == 1 and same(ihist[0][1], wnode) and isinstance(ihist[0][2], ast.Name) \
                    and ihist[0][2].id == time_var
                rep.ob("R9.C10", okh, "%s: infection time recorded for the node and time of the row" % what,
                       func=f, node=(ihist[0][0] if ihist else wst),
                       detail="" if okh else "infection history not appended exactly once with (%s, %s)" % (short(wnode), time_var),
                       construct="%s: infection history %s" % (what, [short(h[0]) for h in ihist]))
            if lit in ("R", "S") and rec_hist:
                okh = len(rhist) == 1 and same(rhist[0][1], wnode) and isinstance(rhist[0][2], ast.Name) \
                    and rhist[0][2].id == time_var
                rep.ob("R9.C10", okh, "%s: recovery time recorded for the node and time of the row" % what,
                       func=f, node=(rhist[0][0] if rhist else wst),
                       detail="" if okh else "recovery history not appended exactly once with (%s, %s)" % (short(wnode), time_var),
                       construct="%s: recovery history %s" % (what, [short(h[0]) for h in rhist]))
    rep.count("R9:paths:%s" % what, npaths)
    return npaths


# ---------------------------------------------------------------------------
# simulators
# ---------------------------------------------------------------------------
def _letters(names):
    """Map compartment letter -> series name for returned names like S, I, R."""
    out = {}
    for n in names:
        if n in ("S", "I", "R"):
            out[n] = n
    return out


def handler_formals(repo, sim):
    """For an event-driven simulator: deferred sites give, per handler, which
    formal receives which of the simulator's series."""
    sites, _ = sites_of(repo)
    out = {}
    todo = [sim]
    seen = set()
    maps = {sim.qual: None}
    while todo:
        f = todo.pop()
        if f.qual in seen:
            continue
        seen.add(f.qual)
        for s in sites:
            if s.caller is f and s.kind == "deferred" and not s.error:
                out.setdefault(s.callee.qual, s.callee)
                todo.append(s.callee)
    return out


def r9_gillespie(repo, rep, name):
    f = repo.f(name)
    rep.analysed(f)
    rst, names = series_names(f)
    if rst is None or len(names) < 3:
        raise AnalysisError("R9: cannot find the plain return of %s" % name)
    tser = names[0]
    series = _letters(names[1:])
    loops = [n for n in f.node.body if isinstance(n, ast.While)]
    if len(loops) != 1:
        raise AnalysisError("R9: %s has %d top-level while loops" % (name, len(loops)))
    loop = loops[0]
    # event time variable: the name compared with tmax in the loop test
    tvar = None
    for fx, pol in atomic_facts(loop.test, True):
        if isinstance(fx, ast.Compare) and isinstance(fx.ops[0], ast.Lt) and short(fx.comparators[0]) == "tmax" \
                and isinstance(fx.left, ast.Name):
            tvar = fx.left.id
    rep.ob("R9.C04", tvar is not None, "%s: loop guarded by t < tmax" % name, func=f, node=loop,
           detail="" if tvar else "main loop test %s does not bound the event time by tmax" % short(loop.test),
           construct="while %s" % short(loop.test))
    if tvar is None:
        return
    tl = [n.targets[0].id for n in own_nodes(f.node) if isinstance(n, ast.Assign) and isinstance(n.value, ast.List)
          and not n.value.elts and isinstance(n.targets[0], ast.Name)]
    trans = "transmissions" if "transmissions" in tl else None
    check_event_block(rep, f, loop.body, series, tser, tvar, "status", "%s loop" % name,
                      transmissions=trans, inf_hist="infection_times", rec_hist="recovery_times")
    # time appended while t < tmax still holds
    ctxs = contexts_by_node(f.node)
    for n in ast.walk(loop):
        if isinstance(n, ast.Call) and attr_chain(n.func) == "%s.append" % tser:
            c = ctxs[id(n)]
            ok = fact_compare(c.facts, ast.Name(id=tvar, ctx=ast.Load()), ast.Lt, ast.Name(id="tmax", ctx=ast.Load()))
            rep.ob("R9.C04", ok, "%s: reported time is dominated by t < tmax" % name, func=f, node=n,
                   detail="" if ok else "time is appended after the clock was advanced past the loop test",
                   construct="%s.append under %s" % (tser, [short(x) for x, p in c.facts if p]))
    initial_row(rep, f, names, series, tser)


def initial_row(rep, f, names, series, tser, n_expr=("G.order()", "len(G)", "G.number_of_nodes()", "N")):
    """First elements: times starts at tmin, compartments sum to the number of nodes."""
    init = {}
    for st in f.node.body:
        for n in ([st] if isinstance(st, ast.Assign) else []):
            tg, val = n.targets[0], n.value
            if isinstance(tg, ast.Name) and isinstance(val, ast.List) and len(val.elts) == 1:
                init.setdefault(tg.id, val.elts[0])
            if isinstance(tg, ast.Tuple) and isinstance(val, ast.Tuple) and len(tg.elts) == len(val.elts):
                for a, b in zip(tg.elts, val.elts):
                    if isinstance(a, ast.Name) and isinstance(b, ast.List) and len(b.elts) == 1:
                        init.setdefault(a.id, b.elts[0])
    t0 = init.get(tser)
    ok = isinstance(t0, ast.Name) and t0.id == "tmin"
    rep.ob("R9.C04", ok, "%s: first time is tmin" % f.name, func=f, node=f.node,
           detail="" if ok else "times starts from %s" % (short(t0) if t0 is not None else None),
           construct="%s[0] = %s" % (tser, short(t0) if t0 is not None else None))
    # sum of compartments
    env = {}
    for st in f.node.body:
        if isinstance(st, ast.Assign) and isinstance(st.targets[0], ast.Name) and st.targets[0].id == "N":
            env["N"] = st.value
    tot = {}
    missing = [s for s in series.values() if s not in init]
    if missing:
        rep.ob("R9.C04", False, "%s: initial row found" % f.name, func=f, node=f.node,
               detail="no single-element list initialisation for %s" % missing)
        return
    subst = {s + "[0]": init[s] for s in series.values()}
    total = None
    for s in series.values():
        lf = linear(init[s], subst=subst, env=env)
        total = lf if total is None else {k: total.get(k, 0) + lf.get(k, 0) for k in set(total) | set(lf)}
    total = {k: v for k, v in total.items() if abs(v) > 1e-12}
    okn = any(lin_equal(total, linear(ast.parse(e, mode="eval").body, env=env)) for e in n_expr)
    rep.ob("R9.C04", okn, "%s: initial compartments sum to the number of nodes" % f.name, func=f, node=f.node,
           detail="" if okn else "S[0]+I[0](+R[0]) normalises to %s, not to the order of G" % lin_str(total),
           construct="initial row sum = %s" % lin_str(total))


def r9_event_driven(repo, rep, name):
    """fast_nonMarkov_SIR / fast_SIS / fast_nonMarkov_SIS and their handlers."""
    f = repo.f(name)
    rep.analysed(f)
    rst, names = series_names(f)
    if rst is None or len(names) < 3:
        raise AnalysisError("R9: cannot find the plain return of %s" % name)
    tser = names[0]
    series = _letters(names[1:])
    initial_row(rep, f, names, series, tser)
    sites, _ = sites_of(repo)
    # handlers reachable through deferred calls, with the formal <- series mapping
    seen = set()
    todo = [(f, {n: n for n in names + ["transmissions", "status", "infection_times", "recovery_times"]})]
    nh = 0
    while todo:
        g, m = todo.pop()
        for s in sites:
            if s.caller is not g or s.kind != "deferred" or s.error:
                continue
            h = s.callee
            hm = {}
            for fml, act in s.binding.items():
                if isinstance(act, ast.Name) and act.id in m:
                    hm[fml] = m[act.id]
            key = (h.qual, tuple(sorted(hm.items())))
            if key in seen:
                continue
            seen.add(key)
            inv = {v: k for k, v in hm.items()}
            missing = [n for n in names if n not in inv]
            if missing:
                rep.ob("R9", False, "%s -> %s: handler receives every series" % (g.name, h.name), func=g, node=s.node,
                       detail="series %s are not handed to the handler" % missing)
                continue
            nh += 1
            rep.analysed(h)
            # the time the handler records is the time of the event it was queued for: its first parameter is never rebound
            # (a `for time in ...` loop does that; a comprehension has a scope of its own and does not)
            tpar = h.params[0]
            rebinds = [x for x in own_nodes(h.node) if isinstance(x, ast.Name) and isinstance(x.ctx, ast.Store) and x.id == tpar
                       and not _in_comprehension(h.node, x)]
            rep.ob("R9.C04", not rebinds, "%s: the event time `%s` is not rebound inside the handler" % (h.name, tpar), func=h,
                   node=rebinds[0] if rebinds else h.node, construct="%s: stores to %s: %d" % (h.name, tpar, len(rebinds)),
                   detail="" if not rebinds else "`%s` is assigned inside the handler (a loop target or a temporary of the same name): "
                   "what is appended to the time series afterwards is not the time of the event" % tpar)
            hs = {letter: inv[sn] for letter, sn in series.items()}
            check_event_block(rep, h, h.node.body, hs, inv[tser], h.params[0], inv.get("status", "status"),
                              "%s handler %s" % (name, h.name),
                              transmissions=inv.get("transmissions"),
                              inf_hist=inv.get("infection_times"), rec_hist=inv.get("recovery_times"))
            todo.append((h, {k: v for k, v in hm.items()}))
    rep.floor("R9", "%s handlers analysed" % name, nh, 2)
    # synthetic rows: sliced off as many as were enqueued at tmin
    loops = [n for n in f.node.body if isinstance(n, ast.For)]
    enq = [lp for lp in loops if any(isinstance(x, ast.Call) and isinstance(x.func, ast.Attribute)
                                     and x.func.attr == "add" for x in ast.walk(lp))]
    if len(enq) != 1:
        raise AnalysisError("R9: %s: expected one initial enqueueing loop, found %d" % (name, len(enq)))
    dom = enq[0].iter
    # the add inside uses time tmin
    for x in ast.walk(enq[0]):
        if isinstance(x, ast.Call) and isinstance(x.func, ast.Attribute) and x.func.attr == "add":
            ok = isinstance(x.args[0], ast.Name) and x.args[0].id == "tmin"
            rep.ob("R9.C04", ok, "%s: initial infections are enqueued at tmin" % name, func=f, node=x,
                   detail="" if ok else "initial events are scheduled at %s" % short(x.args[0]),
                   construct="initial Q.add time %s" % short(x.args[0]))
    sl = {}
    for st in f.node.body:
        if isinstance(st, ast.Assign) and isinstance(st.targets[0], ast.Name) and st.targets[0].id in names \
                and isinstance(st.value, ast.Subscript) and isinstance(st.value.value, ast.Name) \
                and st.value.value.id == st.targets[0].id and isinstance(st.value.slice, ast.Slice):
            sl[st.targets[0].id] = st
    # the queue holds the series lists themselves (handed over in the args of the queued events): a slice taken before the
    # event loop has run copies the not yet written series, and the events go on writing the originals
    body = list(f.node.body)
    runs = [i for i, z in enumerate(body) if isinstance(z, ast.While) and any(
        isinstance(c, ast.Call) and isinstance(c.func, ast.Attribute) and c.func.attr == "pop_and_run" for c in ast.walk(z))]
    for n in names:
        st = sl.get(n)
        ok = st is not None and st.value.slice.upper is None and st.value.slice.step is None and \
            st.value.slice.lower is not None and short(st.value.slice.lower) == "len(%s)" % short(dom)
        rep.ob("R9.C04", ok, "%s: %s drops exactly the synthetic initial rows" % (name, n), func=f,
               node=st if st is not None else f.node,
               detail="" if ok else "series %s is not sliced by len(%s) (the number of events enqueued at tmin)" % (n, short(dom)),
               construct="%s = %s" % (n, short(st.value) if st is not None else None))
        if st is not None and runs:
            late = body.index(st) > max(runs)
            rep.ob("R9.C04", late, "%s: %s is cut after the event loop has run" % (name, n), func=f, node=st,
                   construct="%s sliced at statement %d, event loop at %d" % (n, body.index(st), max(runs)),
                   detail="" if late else "series %s is sliced (copied) before the event loop runs: the events write the original list, "
                   "the returned copy holds nothing but the start row" % n)
    rep.floor("R9.C04", "%s event loops (while Q: Q.pop_and_run())" % name, len(runs), 1)


def _in_comprehension(root, node):
    for c in ast.walk(root):
        if isinstance(c, (ast.ListComp, ast.SetComp, ast.DictComp, ast.GeneratorExp, ast.Lambda)):
            if any(x is node for x in ast.walk(c)):
                return True
    return False


def r9_generic(repo, rep, name):
    """Gillespie_simple_contagion / Gillespie_complex_contagion: data[x] rows."""
    f = repo.f(name)
    rep.analysed(f)
    loops = [n for n in f.node.body if isinstance(n, ast.While)]
    if len(loops) != 1:
        raise AnalysisError("R9: %s has %d top-level while loops" % (name, len(loops)))
    loop = loops[0]
    body = loop.body
    tvar = None
    for fx, pol in atomic_facts(loop.test, True):
        if isinstance(fx, ast.Compare) and isinstance(fx.ops[0], ast.Lt) and short(fx.comparators[0]) == "tmax" \
                and isinstance(fx.left, ast.Name):
            tvar = fx.left.id
    rep.ob("R9.C04", tvar is not None, "%s: loop guarded by t < tmax" % name, func=f, node=loop,
           detail="" if tvar else "main loop test %s does not bound the event time by tmax" % short(loop.test),
           construct="while %s" % short(loop.test))
    if tvar is None:
        return
    # top-level statements of the loop body
    tapp = [s for s in body if _append_of(s) and short(_append_of(s)[0]) == "times"]
    ok = len(tapp) == 1 and short(_append_of(tapp[0])[1]) == tvar
    rep.ob("R9", ok, "%s: one time per event, unconditionally" % name, func=f, node=tapp[0] if tapp else loop,
           detail="" if ok else "times.append(%s) does not occur exactly once at the top level of the loop body" % tvar,
           construct="times.append x%d" % len(tapp))
    if ok:
        c = contexts_by_node(f.node)[id(tapp[0].value)]
        okd = fact_compare(c.facts, ast.Name(id=tvar, ctx=ast.Load()), ast.Lt, ast.Name(id="tmax", ctx=ast.Load()))
        rep.ob("R9.C04", okd, "%s: reported time is dominated by t < tmax" % name, func=f, node=tapp[0],
               detail="" if okd else "time appended after the clock moved", construct="times.append under t<tmax")
    ext = [s for s in body if isinstance(s, ast.For) and len(s.body) == 1 and _append_of(s.body[0])
           and short(s.iter) in ("data.keys()", "data", "return_statuses")]
    okx = len(ext) == 1
    if okx:
        tgt = short(ext[0].target)
        recv, val = _append_of(ext[0].body[0])
        okx = short(recv) == "data[%s]" % tgt and short(val) == "data[%s][-1]" % tgt
    rep.ob("R9", okx, "%s: every data series is extended by its last value once per event" % name, func=f,
           node=ext[0] if ext else loop, construct="extend loop x%d" % len(ext),
           detail="" if okx else "no single `for x in data: data[x].append(data[x][-1])` at the top level of the loop body")
    # -1 on the old status, +1 on the new one, each guarded by membership in return_statuses
    dec, inc = [], []
    for c in walk_function(f.node):
        st = c.stmt
        if isinstance(st, ast.AugAssign) and isinstance(st.target, ast.Subscript) and short(st.target.slice) == "-1" \
                and isinstance(st.target.value, ast.Subscript) and short(st.target.value.value) == "data" \
                and loop in c.loops and short(st.value) == "1":
            key = st.target.value.slice
            guarded = any(pol and isinstance(fx, ast.Compare) and isinstance(fx.ops[0], ast.In)
                          and same(fx.left, key) and short(fx.comparators[0]) == "return_statuses"
                          for fx, pol in c.facts)
            (dec if isinstance(st.op, ast.Sub) else inc).append((st, key, guarded, c))
    okc = len(dec) == 1 and len(inc) == 1 and dec[0][2] and inc[0][2]
    rep.ob("R9", okc, "%s: one -1 and one +1 per event, each only for reported statuses" % name, func=f,
           node=dec[0][0] if dec else loop, construct="dec x%d inc x%d" % (len(dec), len(inc)),
           detail="" if okc else "expected exactly one guarded `data[old][-1] -= 1` and one guarded `data[new][-1] += 1`")
    if not okc:
        return
    # status write and the meaning of old / new at the point of use
    sw = [s for s in body if _status_write(s, {"status"})]
    if len(sw) != 1:
        rep.ob("R9", False, "%s: exactly one status write per event" % name, func=f, node=loop,
               detail="%d status writes at the top level of the loop body" % len(sw), construct="status writes x%d" % len(sw))
        return
    wnode, wval = _status_write(sw[0], {"status"})
    idx = {id(s): i for i, s in enumerate(body)}

    def top(st):
        # top-level statement of the loop body containing st
        for s in body:
            if any(x is st for x in ast.walk(s)):
                return s
        return None
    i_w = idx[id(sw[0])]
    dkey, ikey = dec[0][1], inc[0][1]
    i_d, i_i = idx[id(top(dec[0][0]))], idx[id(top(inc[0][0]))]
    cur = "status[%s]" % short(wnode)
    # old status expression: either `status[node]` read BEFORE the write, or a variable that
    # holds the status the node had (transition[0] / transition[0][1])
    if short(dkey) == cur:
        okold = i_d < i_w
        why = "decrement reads %s after it was overwritten" % cur
    else:
        okold = _is_old_status(f, loop, dkey)
        why = "decrement key %s is not the status the node had before the event" % short(dkey)
    rep.ob("R9", okold, "%s: -1 is applied to the status the node leaves" % name, func=f, node=dec[0][0],
           detail="" if okold else why, construct="dec key %s (%s the status write)" % (short(dkey), "before" if i_d < i_w else "after"))
    if short(ikey) == cur:
        oknew = i_i > i_w
        why = "increment reads %s before it is written" % cur
    else:
        oknew = same(ikey, wval)
        why = "increment key %s is not the value written to %s" % (short(ikey), cur)
    rep.ob("R9", oknew, "%s: +1 is applied to the status the node enters" % name, func=f, node=inc[0][0],
           detail="" if oknew else why, construct="inc key %s (%s the status write)" % (short(ikey), "after" if i_i > i_w else "before"))
    # full-data history: (t, new status) for the modified node
    hist_t = hist_s = 0
    for c in walk_function(f.node):
        a = _append_of(c.stmt)
        if a and loop in c.loops and short(a[0]) == "node_history[%s][0]" % short(wnode):
            hist_t += 1 if short(a[1]) == tvar else 100
        if a and loop in c.loops and short(a[0]) == "node_history[%s][1]" % short(wnode):
            hist_s += 1 if (same(a[1], wval) or short(a[1]) == cur) else 100
    okh = hist_t == 1 and hist_s == 1
    rep.ob("R9.C10", okh, "%s: node history gets (t, new status) of the modified node once per event" % name,
           func=f, node=sw[0], construct="history appends t x%d status x%d" % (hist_t, hist_s),
           detail="" if okh else "node_history of %s is not appended exactly once with the event time and the new status" % short(wnode))
    # initial data row = Counter of the initial statuses
    ini = [s for s in f.node.body if isinstance(s, ast.For) and short(s.iter) == "return_statuses"]
    oki = False
    for s in ini:
        for b in s.body:
            if isinstance(b, ast.Assign) and short(b.targets[0]) == "data[%s]" % short(s.target) \
                    and short(b.value) == "[C[%s]]" % short(s.target):
                oki = True
    cdef = [s for s in f.node.body if isinstance(s, ast.Assign) and short(s.targets[0]) == "C"]
    oki = oki and bool(cdef) and short(cdef[0].value) == "Counter(status.values())"
    rep.ob("R9.C04", oki, "%s: initial row counts the initial statuses" % name, func=f, node=f.node,
           construct="initial data row", detail="" if oki else "data[s] is not initialised to [Counter(status.values())[s]]")
    t0 = [s for s in f.node.body if isinstance(s, ast.Assign) and short(s.targets[0]) == "times"]
    okt = bool(t0) and short(t0[0].value) == "[tmin]"
    rep.ob("R9.C04", okt, "%s: first time is tmin" % name, func=f, node=t0[0] if t0 else f.node,
           construct="times = %s" % (short(t0[0].value) if t0 else None), detail="" if okt else "times does not start at [tmin]")


def _is_old_status(f, loop, key):
    """key is a Name assigned in every arm that defines it from transition[0] /
    transition[0][1] (the left-hand status of the chosen spec edge)."""
    if not isinstance(key, ast.Name):
        return False
    defs = [n for n in ast.walk(loop) if isinstance(n, ast.Assign) and isinstance(n.targets[0], ast.Name)
            and n.targets[0].id == key.id]
    if not defs:
        return False
    for d in defs:
        if short(d.value) not in ("transition[0]", "transition[0][1]"):
            return False
    return True


def r9_discrete(repo, rep):
    """discrete_SIR and basic_discrete_SIS: generation loop."""
    for name in ("discrete_SIR", "basic_discrete_SIS"):
        f = repo.f(name)
        rep.analysed(f)
        rst, names = series_names(f)
        if rst is None:
            raise AnalysisError("R9: cannot find the plain return of %s" % name)
        tser = names[0]
        loops = [n for n in f.node.body if isinstance(n, ast.While)]
        if len(loops) != 1:
            raise AnalysisError("R9: %s has %d top-level while loops" % (name, len(loops)))
        loop = loops[0]
        # guard t[-1] < tmax
        okg = any(isinstance(fx, ast.Compare) and isinstance(fx.ops[0], ast.Lt) and short(fx.left) == "%s[-1]" % tser
                  and short(fx.comparators[0]) == "tmax" for fx, pol in atomic_facts(loop.test, True))
        rep.ob("R9.C04", okg, "%s: generation loop runs while t[-1] < tmax" % name, func=f, node=loop,
               construct="while %s" % short(loop.test),
               detail="" if okg else "loop test does not stop at tmax (a step from t[-1]=tmax would exceed it)")
        # each series appended exactly once at the top level of the loop body, time by +1
        for s in names:
            apps = [st for st in loop.body if _append_of(st) and short(_append_of(st)[0]) == s]
            deep = [n for n in ast.walk(loop) if isinstance(n, ast.Call) and attr_chain(n.func) == "%s.append" % s]
            ok = len(apps) == 1 and len(deep) == 1
            rep.ob("R9", ok, "%s: %s gets exactly one row per generation" % (name, s), func=f,
                   node=apps[0] if apps else loop, construct="%s.append x%d (top level x%d)" % (s, len(deep), len(apps)),
                   detail="" if ok else "series %s is appended %d times in the loop (%d unconditionally)" % (s, len(deep), len(apps)))
        tapp = [st for st in loop.body if _append_of(st) and short(_append_of(st)[0]) == tser]
        if tapp:
            v = short(_append_of(tapp[0])[1]).replace(" ", "")
            ok = v in ("%s[-1]+1" % tser, "next_time")
            rep.ob("R9.C04", ok, "%s: time advances by exactly one step" % name, func=f, node=tapp[0],
                   construct="%s.append(%s)" % (tser, v), detail="" if ok else "time row is %s" % v)
        series = {k: v for k, v in zip(["S", "I", "R"], names[1:])}
        initial_row(rep, f, names, series, tser)
    # discrete_SIR: counters paired with set updates
    f = repo.f("discrete_SIR")
    for c in walk_function(f.node):
        st = c.stmt
        if isinstance(st, ast.Expr) and isinstance(st.value, ast.Call) and attr_chain(st.value.func) == "new_infecteds.add" \
                and any(isinstance(l, ast.For) and short(l.iter).startswith("G.neighbors") for l in c.loops):
            blk = c.parents[-1].body if isinstance(c.parents[-1], ast.If) else []
            v = st.value.args[0]
            t = [short(s).replace(" ", "") for s in blk]
            ok1 = ("susceptible[%s]=False" % short(v)) in t
            ok2 = "nS-=1" in t
            rep.ob("R9", ok1 and ok2, "discrete_SIR: new infection <=> susceptible flag cleared <=> nS -= 1", func=f, node=st,
                   construct="new_infecteds.add(%s) block: %s" % (short(v), sorted(t)),
                   detail="" if (ok1 and ok2) else "infection of %s is not paired with susceptible[%s]=False and nS -= 1 in the same block" % (short(v), short(v)))
    # appended values are the running counters
    loop = [n for n in f.node.body if isinstance(n, ast.While)][0]
    want = {"S": ("nS",), "I": ("len(infecteds)",), "R": ("totR",)}
    for s, okv in want.items():
        apps = [st for st in loop.body if _append_of(st) and short(_append_of(st)[0]) == s]
        if apps:
            v = short(_append_of(apps[0])[1])
            rep.ob("R9", v in okv, "discrete_SIR: %s row is the running counter" % s, func=f, node=apps[0],
                   construct="%s.append(%s)" % (s, v), detail="" if v in okv else "%s row is %s" % (s, v))
    # the running counters start from the first row
    env = {}
    for st in f.node.body:
        if isinstance(st, ast.Assign) and isinstance(st.targets[0], ast.Name) and st.targets[0].id not in names_in(st.value):
            env.setdefault(st.targets[0].id, st.value)
    first = {}
    for st in f.node.body:
        if isinstance(st, ast.Assign) and isinstance(st.targets[0], ast.Name) and isinstance(st.value, ast.List) and len(st.value.elts) == 1:
            first[st.targets[0].id] = st.value.elts[0]
    for series_name, counter in (("S", "nS"), ("R", "totR")):
        if series_name in first and counter in env:
            a, b = linear(first[series_name], env=env), linear(env[counter], env=env)
            ok = lin_equal(a, b)
            rep.ob("R9", ok, "discrete_SIR: running counter %s starts from %s[0]" % (counter, series_name), func=f, node=f.node,
                   construct="%s0 = %s ; %s[0] = %s" % (counter, lin_str(b), series_name, lin_str(a)),
                   detail="" if ok else "%s starts at %s but the first row reports %s: every later row is off by the difference" % (counter, lin_str(b), lin_str(a)))
        else:
            rep.ob("R9", False, "discrete_SIR: running counter %s and first row %s found" % (counter, series_name), func=f, node=f.node,
                   construct="counter %s / series %s" % (counter, series_name), detail="counter or first row not found")
    # S+I+R conserved: totR grows by what leaves I; nS falls by what enters I
    ok = False
    for c in walk_function(f.node):
        st = c.stmt
        if isinstance(st, ast.AugAssign) and short(st.target) == "totR" and isinstance(st.op, ast.Add):
            if short(st.value) == "len(infecteds)" and any(pol and short(fx) == "test_recovery is None" for fx, pol in c.facts):
                ok = True
    rep.ob("R9", ok, "discrete_SIR: without a recovery test the whole generation moves to R", func=f, node=loop,
           construct="totR += len(infecteds) under test_recovery is None",
           detail="" if ok else "totR is not increased by len(infecteds) in the default-recovery arm")
    # with a recovery test: ONE evaluation per infectious node decides between R (+1, history) and staying infectious
    calls = [n for n in own_nodes(f.node) if isinstance(n, ast.Call) and short(n.func) == "test_recovery"]
    okp = False
    why = "test_recovery is called %d times" % len(calls)
    if len(calls) == 1:
        for c in walk_function(f.node):
            st = c.stmt
            if isinstance(st, ast.If) and st.test is calls[0] and c.loops and isinstance(c.loops[-1], ast.For) \
                    and short(c.loops[-1].iter) == "infecteds" and len(calls[0].args) == 1 \
                    and short(calls[0].args[0]) == short(c.loops[-1].target) \
                    and any((not pol) and short(fx) == "test_recovery is None" for fx, pol in c.facts):
                u = short(c.loops[-1].target)
                yes = [short(x).replace(" ", "") for x in st.body]
                no = [short(x).replace(" ", "") for x in st.orelse]
                okp = "totR+=1" in yes and "new_infecteds.add(%s)" % u in no and "totR+=1" not in no \
                    and not any(x.startswith("new_infecteds.add") for x in yes)
                why = "arms: %s / %s" % (yes, no)
    elif not calls:
        why = "test_recovery is never called directly (handed to a helper or an iterator: how often it is evaluated per node is not visible)"
    rep.ob("R9", okp, "discrete_SIR: a recovery test is evaluated once per infectious node and that one answer moves it to R (totR += 1) "
           "or keeps it infectious", func=f, node=calls[0] if calls else loop, construct="recovery-test partition: %s" % okp,
           detail="" if okp else "the partition of the old generation by test_recovery changed (%s): a stochastic or stateful test can now "
           "put a node in both groups or in neither, and S+I+R drifts from N" % why)
    # the next generation replaces the current one
    for name in ("discrete_SIR", "basic_discrete_SIS"):
        g = repo.f(name)
        lp = [n for n in g.node.body if isinstance(n, ast.While)][0]
        rpl = [s for s in lp.body if isinstance(s, ast.Assign) and short(s.targets[0]) == "infecteds"
               and short(s.value) == "new_infecteds"]
        fresh = [s for s in lp.body if isinstance(s, ast.Assign) and short(s.targets[0]) == "new_infecteds"
                 and short(s.value) == "set()"]
        ok = len(rpl) == 1 and len(fresh) == 1 and lp.body.index(fresh[0]) < lp.body.index(rpl[0])
        rep.ob("R9", ok, "%s: infecteds is replaced by the next generation built from an empty set" % name, func=g,
               node=rpl[0] if rpl else lp, construct="new_infecteds = set(); ...; infecteds = new_infecteds",
               detail="" if ok else "generation hand-over changed")
