"""R13 (queue discipline), R17 (guarded exponential draws), R7 (randomness
discipline)."""
import ast

from ..core import own_nodes, attr_chain, short, Func, names_in
from ..flow import (walk_function, contexts_by_node, fact_nonzero, fact_compare,
                    same, atomic_facts, refs)
from .callrules import sites_of, in_scope, _root
from .. import tables as T


# ----------------------------------------------------------------------------
# R13
# ----------------------------------------------------------------------------
def r13(repo, rep):
    rep.rule("R13", "queue discipline: heappush only in myQueue.add and dominated by time < self.tmax; "
                    "entries are (time, counter, function, args) with the counter bumped after every push; "
                    "pop_and_run calls the popped function with the popped time first; handlers are never "
                    "called directly; every event-driven simulator drains the queue with `while Q: Q.pop_and_run()`")
    add = repo.method("myQueue", "add")
    pop = repo.method("myQueue", "pop_and_run")
    rep.analysed(add); rep.analysed(pop)
    # who pushes / pops / touches the raw heap
    for f in repo.all_funcs():
        for n in own_nodes(f.node):
            if isinstance(n, ast.Call) and attr_chain(n.func) in ("heapq.heappush", "heappush"):
                rep.ob("R13", f is add, "heappush only in myQueue.add", func=f, node=n,
                       detail="" if f is add else "raw heappush outside myQueue.add bypasses the tmax filter")
            if isinstance(n, ast.Call) and attr_chain(n.func) in ("heapq.heappop", "heappop"):
                rep.ob("R13", f is pop, "heappop only in myQueue.pop_and_run", func=f, node=n,
                       detail="" if f is pop else "raw heappop outside myQueue.pop_and_run")
            if isinstance(n, ast.Attribute) and n.attr == "_Q_" and f.cls != "myQueue":
                rep.ob("R13", False, "no access to the raw heap outside myQueue", func=f, node=n,
                       detail="the heap list is touched outside the queue class")
    # add(): push dominated by time < self.tmax, tuple layout, counter bump
    tparam = add.params[1] if len(add.params) > 1 else "time"
    pushes = 0
    ctxs = contexts_by_node(add.node)
    for n in own_nodes(add.node):
        if isinstance(n, ast.Call) and attr_chain(n.func) in ("heapq.heappush", "heappush"):
            pushes += 1
            c = ctxs[id(n)]
            tm = ast.Attribute(value=ast.Name(id="self", ctx=ast.Load()), attr="tmax", ctx=ast.Load())
            ok = fact_compare(c.facts, ast.Name(id=tparam, ctx=ast.Load()), ast.Lt, tm)
            rep.ob("R13", ok, "add: push dominated by `time < self.tmax`", func=add, node=n,
                   detail="" if ok else "an event at or after tmax can enter the queue (facts: %s)" %
                   [("%s" if p else "not (%s)") % short(f) for f, p in c.facts],
                   construct="heappush guard: %s" % [("%s" if p else "not (%s)") % short(f) for f, p in c.facts])
            ent = n.args[1] if len(n.args) > 1 else None
            lay = isinstance(ent, ast.Tuple) and len(ent.elts) == 4 and \
                isinstance(ent.elts[0], ast.Name) and ent.elts[0].id == tparam and \
                attr_chain(ent.elts[1]) == "self.counter" and \
                isinstance(ent.elts[2], ast.Name) and ent.elts[2].id == add.params[2] and \
                isinstance(ent.elts[3], ast.Name) and ent.elts[3].id == add.params[3]
            rep.ob("R13", lay, "add: heap entry is (time, self.counter, function, args)", func=add, node=n,
                   detail="" if lay else "entry layout changed: ties would compare function objects or the event time is not the key",
                   construct="heap entry %s" % (short(ent) if ent is not None else None))
            # counter bumped in the same block after the push
            blk = c.parents[-1].body if c.parents else add.node.body
            idx = [i for i, s in enumerate(blk) if s is c.stmt]
            bumped = False
            if idx:
                for s2 in blk[idx[0] + 1:]:
                    if isinstance(s2, ast.AugAssign) and attr_chain(s2.target) == "self.counter" \
                            and isinstance(s2.op, ast.Add):
                        bumped = True
            rep.ob("R13", bumped, "add: counter incremented after every push", func=add, node=n,
                   detail="" if bumped else "tie-breaker is not advanced: simultaneous events would compare functions",
                   construct="counter bump after push")
    rep.floor("R13", "heappush sites in myQueue.add", pushes, 1)
    # pop_and_run
    ok = False
    for blk in [pop.node.body]:
        for i, st in enumerate(blk):
            if isinstance(st, ast.Assign) and isinstance(st.targets[0], ast.Tuple) and len(st.targets[0].elts) == 4 \
                    and isinstance(st.value, ast.Call) and attr_chain(st.value.func) in ("heapq.heappop", "heappop") \
                    and attr_chain(st.value.args[0]) == "self._Q_":
                t, cnt, fn, ar = [e.id if isinstance(e, ast.Name) else None for e in st.targets[0].elts]
                for s2 in blk[i + 1:]:
                    v = s2.value if isinstance(s2, (ast.Expr, ast.Return)) else None
                    if isinstance(v, ast.Call) and isinstance(v.func, ast.Name) and v.func.id == fn \
                            and len(v.args) == 2 and isinstance(v.args[0], ast.Name) and v.args[0].id == t \
                            and isinstance(v.args[1], ast.Starred) and isinstance(v.args[1].value, ast.Name) \
                            and v.args[1].value.id == ar and not v.keywords:
                        ok = True
    rep.ob("R13", ok, "pop_and_run: function(t, *args) with the popped time first", func=pop, node=pop.node,
           construct="pop_and_run body", detail="" if ok else "pop_and_run does not call the popped function as function(t, *args)")
    # handlers never called directly
    sites, _ = sites_of(repo)
    handlers = {s.callee.qual for s in sites if s.kind == "deferred"}
    rep.floor("R13", "deferred (Q.add) call sites", sum(1 for s in sites if s.kind == "deferred"), 10)
    for s in sites:
        if s.kind == "direct" and s.callee.qual in handlers:
            rep.ob("R13", False, "handler %s invoked only through the queue" % s.callee.name,
                   func=s.caller, node=s.node,
                   detail="direct call of an event handler bypasses time ordering and the tmax filter")
    for h in sorted(handlers):
        rep.ob("R13", True, "handler %s only reached through Q.add" % h, func=h, construct=h)
    # every deferred site's receiver is a myQueue
    for s in sites:
        if s.kind != "deferred" or s.via is not None:
            continue
        recv = s.node.func.value
        ok = _is_queue(repo, s.caller, recv)
        rep.ob("R13", ok, "deferred call goes through a myQueue", func=s.caller, node=s.node,
               detail="" if ok else "receiver %s of .add(...) is not known to be a myQueue" % short(recv),
               construct="%s.add -> %s" % (short(recv), s.callee.name))
    # draining loop
    for name in ("fast_nonMarkov_SIR", "fast_SIS", "fast_nonMarkov_SIS"):
        f = repo.f(name)
        rep.analysed(f)
        ok = False
        qname = None
        for n in own_nodes(f.node):
            if isinstance(n, ast.Assign) and isinstance(n.value, ast.Call) and attr_chain(n.value.func) == "myQueue":
                qname = n.targets[0].id if isinstance(n.targets[0], ast.Name) else None
                tm = n.value.args[0] if n.value.args else None
                for k in n.value.keywords:
                    if k.arg == "tmax":
                        tm = k.value
                okq = isinstance(tm, ast.Name) and tm.id == "tmax"
                rep.ob("R13", okq, "%s: queue horizon is the caller's tmax" % name, func=f, node=n,
                       detail="" if okq else "myQueue(...) is not built with the tmax parameter")
        for n in own_nodes(f.node):
            if isinstance(n, ast.While) and isinstance(n.test, ast.Name) and n.test.id == qname:
                calls = [x for x in ast.walk(n) if isinstance(x, ast.Call) and attr_chain(x.func) == "%s.pop_and_run" % qname]
                if calls and len(n.body) == 1:
                    ok = True
        rep.ob("R13", ok, "%s: `while Q: Q.pop_and_run()` drains the queue" % name, func=f, node=f.node,
               construct="%s drain loop" % name, detail="" if ok else "no plain draining loop over the queue")


def _is_queue(repo, func, recv, _seen=None):
    """recv is a Name bound to myQueue(...) in func, or a parameter named Q that
    every caller feeds from a myQueue (handlers receive Q in their args tuple)."""
    if not isinstance(recv, ast.Name):
        return False
    _seen = _seen if _seen is not None else set()
    if (func.qual, recv.id) in _seen:
        return True          # a cycle of handlers / helpers passing the queue around: decided by the other feeders
    _seen.add((func.qual, recv.id))
    for n in own_nodes(func.node):
        if isinstance(n, ast.Assign) and isinstance(n.value, ast.Call) and attr_chain(n.value.func) == "myQueue":
            if any(isinstance(t, ast.Name) and t.id == recv.id for t in n.targets):
                return True
    if recv.id in func.all_params:
        sites, _ = sites_of(repo)
        feeders = [s for s in sites if s.callee is func and recv.id in s.binding]
        if not feeders:
            return False
        for s in feeders:
            act = s.binding[recv.id]
            if not isinstance(act, ast.Name):
                return False
            if s.caller is func:
                if act.id != recv.id:
                    return False
                continue
            if not _is_queue(repo, s.caller, act, _seen):
                return False
        return True
    return False


# ----------------------------------------------------------------------------
# R17
# ----------------------------------------------------------------------------
# Frozen, hand-confirmed: guards that hold for a reason the local facts cannot
# show.  Key: (function qual, normalised argument text); value: reason + the
# structural conditions re-checked on every run.
def _single_def(fnode, name):
    defs = []
    for n in own_nodes(fnode):
        if isinstance(n, ast.Assign) and len(n.targets) == 1 and isinstance(n.targets[0], ast.Name) \
                and n.targets[0].id == name:
            defs.append(n.value)
        elif isinstance(n, (ast.AugAssign,)) and isinstance(n.target, ast.Name) and n.target.id == name:
            defs.append(None)
        elif isinstance(n, ast.For) and name in names_in(n.target):
            defs.append(None)
    if len(defs) == 1 and defs[0] is not None:
        return defs[0]
    return None


def _nonzero(fnode, facts, expr):
    w = fact_nonzero(facts, expr)
    if w:
        return w
    # a test on a variable whose only definition is the same pure expression
    for f, pol in facts:
        for nm in names_in(f):
            d = _single_def(fnode, nm)
            if d is not None and same(d, expr):
                w = fact_nonzero(facts, ast.Name(id=nm, ctx=ast.Load()))
                if w:
                    return "%s where %s = %s" % (w, nm, short(expr))
    # the argument is a variable defined once as a product of guarded things
    if isinstance(expr, ast.Name):
        d = _single_def(fnode, expr.id)
        if d is not None:
            w = fact_nonzero(facts, d)
            if w:
                return w
    return None


def r17(repo, rep, funcs=None):
    rep.rule("R17", "every random.expovariate(r) is dominated by a test excluding r == 0 "
                    "(r>0, r!=0, the false arm of a*r==0, or a test on a variable defined as the same expression); "
                    "helpers whose rate is a parameter are discharged at every caller")
    sites, _ = sites_of(repo)
    todo = []
    for f in repo.all_funcs():
        if f.module != "simulation" or not in_scope(f):
            continue
        if funcs is not None and _root(f).name not in funcs:
            continue
        ctxs = None
        for n in own_nodes(f.node):
            if isinstance(n, ast.Call) and attr_chain(n.func) in ("random.expovariate", "np.random.exponential"):
                if ctxs is None:
                    ctxs = contexts_by_node(f.node)
                todo.append((f, n, ctxs[id(n)]))
    rep.floor("R17", "expovariate sites", len(todo), 8 if funcs is None else 1)
    for f, n, c in todo:
        rep.analysed(f)
        arg = n.args[0]
        inst = "%s: expovariate(%s)" % (f.qual, short(arg, 40))
        w = _nonzero(f.node, c.facts, arg)
        if w:
            rep.ob("R17", True, inst, detail="guard: %s" % w, func=f, node=n,
                   construct="expovariate(%s) under %s" % (short(arg, 40), w))
            continue
        # frozen exception: re-draw in _find_next_trans_SIS_Markov
        if f.name == "_find_next_trans_SIS_Markov" and _sis_redraw_ok(f, n, c):
            rep.ob("R17", True, inst, func=f, node=n,
                   detail="re-draw reachable only when the first delay was finite, i.e. tau>0 "
                          "(transmission_time = time + delay < rec_time[target] is false for delay = Inf)",
                   construct="expovariate(%s) re-draw" % short(arg, 40))
            continue
        # discharge at callers: arg is a parameter, or a call of a parameter
        ok, why = _discharge_at_callers(repo, sites, f, arg, depth=0)
        facts_txt = [("%s" if p else "not (%s)") % short(x, 60) for x, p in c.facts]
        rep.ob("R17", ok, inst, func=f, node=n,
               detail=why if ok else "rate %s can be 0 here: no dominating test excludes it (facts: %s; callers: %s)" %
               (short(arg, 40), facts_txt, why),
               construct="expovariate(%s) unguarded" % short(arg, 40))


def _sis_redraw_ok(f, n, c):
    """Structure behind the frozen exception, re-checked on every run."""
    arg = n.args[0]
    # (1) the enclosing test is transmission_time < rec_time[target]
    tests = [fx for fx, pol in c.facts if pol and isinstance(fx, ast.Compare) and isinstance(fx.ops[0], ast.Lt)]
    tt = None
    for fx in tests:
        if isinstance(fx.left, ast.Name) and "rec_time" in short(fx.comparators[0]):
            tt = fx.left.id
    if tt is None:
        return False
    # (2) tt = time + delay where delay is Inf in the arm where arg == 0
    d = None
    for m in own_nodes(f.node):
        if isinstance(m, ast.Assign) and isinstance(m.targets[0], ast.Name) and m.targets[0].id == tt \
                and m.lineno < n.lineno:
            d = m.value
    if not (isinstance(d, ast.BinOp) and isinstance(d.op, ast.Add)):
        return False
    delay = [x for x in (d.left, d.right) if isinstance(x, ast.Name) and x.id != "time"]
    if not delay:
        return False
    dn = delay[0].id
    inf_arm = False
    for cc in walk_function(f.node):
        st = cc.stmt
        if isinstance(st, ast.Assign) and isinstance(st.targets[0], ast.Name) and st.targets[0].id == dn \
                and short(st.value).replace('"', "'") in ("float('Inf')", "float('inf')", "np.inf", "math.inf"):
            # under arg == 0 (or not arg > 0)
            for fx, pol in cc.facts:
                if isinstance(fx, ast.Compare) and same(fx.left, arg):
                    if pol and isinstance(fx.ops[0], ast.Eq) and short(fx.comparators[0]) == "0":
                        inf_arm = True
                    if (not pol) and isinstance(fx.ops[0], ast.Gt) and short(fx.comparators[0]) == "0":
                        inf_arm = True
    return inf_arm


def _discharge_at_callers(repo, sites, f, arg, depth):
    if depth > 3:
        return False, "caller chain too deep"
    # which parameter of f (or of an enclosing function) feeds `arg`?
    if isinstance(arg, ast.Name) and arg.id in f.params:
        pname, shape = arg.id, "value"
    elif isinstance(arg, ast.Call) and isinstance(arg.func, ast.Name) and arg.func.id in f.params:
        pname, shape = arg.func.id, "callable"
    else:
        return False, "argument is not a parameter"
    callers = [s for s in sites if s.callee is f and s.kind in ("direct",)]
    refs_ = _references(repo, f)
    if not callers and not refs_:
        return False, "no caller found"
    notes = []
    for s in callers:
        act = s.binding.get(pname)
        if act is None:
            return False, "caller %s leaves %s at default" % (s.caller.qual, pname)
        ctx = contexts_by_node(s.caller.node)[id(s.node)]
        if shape == "value":
            w = _nonzero(s.caller.node, ctx.facts, act)
            if w:
                notes.append("%s: %s" % (s.caller.name, w))
                continue
            ok, why = _discharge_at_callers(repo, sites, s.caller, act, depth + 1)
            if not ok:
                return False, "%s passes %s=%s unguarded (%s)" % (s.caller.qual, pname, short(act, 30), why)
            notes.append(why)
        else:
            return False, "callable rate passed by %s cannot be bounded" % s.caller.qual
    for (g, node, how) in refs_:
        # f handed over as a function value: protocol `fxn(node, nbrs, *args)` with args tuple alongside
        ok, why = _discharge_reference(repo, g, node, f, pname, shape)
        if not ok:
            return False, why
        notes.append(why)
    return True, "; ".join(notes)


def _references(repo, f):
    """Places where function f is used as a value (not called)."""
    out = []
    for g in repo.all_funcs():
        for n in own_nodes(g.node):
            if isinstance(n, ast.Call):
                for k in n.keywords:
                    if isinstance(k.value, ast.Name) and k.value.id == f.name and \
                            repo.top.get((g.module, f.name)) is f:
                        out.append((g, n, k.arg))
                for a in n.args:
                    if isinstance(a, ast.Name) and a.id == f.name and repo.top.get((g.module, f.name)) is f \
                            and not (isinstance(n.func, ast.Attribute) and n.func.attr == "add"):
                        out.append((g, n, None))
    return out


def _discharge_reference(repo, g, call, f, pname, shape):
    """f is passed as `<x>_fxn=f` together with `<x>_args=(...)`: the tuple
    supplies f's trailing parameters."""
    kws = {k.arg: k.value for k in call.keywords}
    slot = [k for k, v in kws.items() if isinstance(v, ast.Name) and v.id == f.name]
    if not slot:
        return False, "%s hands %s over positionally" % (g.qual, f.name)
    argkw = slot[0].replace("_fxn", "_args")
    tup = kws.get(argkw)
    if not isinstance(tup, ast.Tuple):
        return False, "%s: no literal %s next to %s=%s" % (g.qual, argkw, slot[0], f.name)
    # trailing parameters of f are fed by the tuple
    ntrail = len(tup.elts)
    trailing = f.params[len(f.params) - ntrail:]
    if pname not in trailing:
        return False, "%s is not supplied by %s" % (pname, argkw)
    act = tup.elts[trailing.index(pname)]
    ctx = contexts_by_node(g.node)[id(call)]
    if shape == "value":
        w = _nonzero(g.node, ctx.facts, act)
        return (True, "%s under %s" % (g.name, w)) if w else (False, "%s passes %s=%s unguarded" % (g.qual, pname, short(act)))
    # callable: must come from _get_rate_functions_ with guarded base rate and no weight label
    if isinstance(act, ast.Name):
        for n in own_nodes(g.node):
            if isinstance(n, ast.Assign) and isinstance(n.value, ast.Call) and \
                    short(n.value.func).endswith("_get_rate_functions_") and isinstance(n.targets[0], ast.Tuple):
                names = [e.id for e in n.targets[0].elts if isinstance(e, ast.Name)]
                if act.id in names:
                    idx = names.index(act.id)       # 0: transmission, 1: recovery
                    base = n.value.args[1 + idx] if len(n.value.args) > 1 + idx else None
                    wl = n.value.args[3 + idx] if len(n.value.args) > 3 + idx else None
                    w = _nonzero(g.node, ctx.facts, base) if base is not None else None
                    if not w:
                        return False, "%s: base rate %s of %s is not guarded" % (g.qual, short(base) if base is not None else None, act.id)
                    # weight label must be None on this path, or the callee must guard the product itself
                    wnone = wl is None or any(
                        isinstance(fx, ast.Compare) and same(fx.left, wl) and
                        ((pol and isinstance(fx.ops[0], ast.Is)) or ((not pol) and isinstance(fx.ops[0], ast.IsNot)))
                        and short(fx.comparators[0]) == "None" for fx, pol in ctx.facts)
                    if wnone:
                        return True, "%s: %s = base rate %s (%s), no weight label on this path" % (g.name, act.id, short(base), w)
                    return False, ("%s: %s(node) = %s * (node weight `%s`); the base rate is guarded (%s) but a zero "
                                   "weight is not excluded" % (g.qual, act.id, short(base), short(wl), w))
    return False, "%s: cannot trace callable %s" % (g.qual, short(act))


# ----------------------------------------------------------------------------
# R7
# ----------------------------------------------------------------------------
FORBIDDEN_CALLS = {
    "random.Random", "random.SystemRandom", "random.seed", "random.setstate",
    "np.random.seed", "np.random.default_rng", "np.random.RandomState",
    "np.random.Generator", "np.random.set_state", "numpy.random.seed",
    "numpy.random.default_rng", "numpy.random.RandomState", "os.urandom",
    "time.time", "time.time_ns", "time.perf_counter", "time.monotonic",
    "time.process_time", "datetime.now", "datetime.datetime.now", "hash", "id",
    "os.getpid", "uuid.uuid4", "uuid.uuid1", "secrets.randbelow",
    "secrets.choice", "secrets.token_bytes", "SystemRandom", "default_rng",
    "RandomState", "random.getrandbits",
}
FORBIDDEN_MODULES = {"secrets", "uuid", "time", "datetime", "os", "threading",
                     "multiprocessing", "concurrent", "asyncio"}
ALLOWED_IMPORTS = {
    "simulation": {"networkx", "random", "heapq", "numpy", "EoN", "collections"},
}
DRAW_PREFIXES = ("random.", "np.random.", "numpy.random.")


def _scan_forbidden(tree):
    hits = []
    for n in ast.walk(tree):
        if isinstance(n, ast.Call):
            ch = attr_chain(n.func)
            if ch in FORBIDDEN_CALLS:
                hits.append((n, "call of %s" % ch))
            elif ch and any(ch.startswith(m + ".") for m in ("secrets", "uuid")):
                hits.append((n, "call of %s" % ch))
        elif isinstance(n, ast.Import):
            for a in n.names:
                if a.name.split(".")[0] in FORBIDDEN_MODULES:
                    hits.append((n, "import %s" % a.name))
                if a.name == "random" and a.asname not in (None, "random"):
                    hits.append((n, "random imported under alias %s" % a.asname))
        elif isinstance(n, ast.ImportFrom):
            mod = (n.module or "").split(".")[0]
            if mod in FORBIDDEN_MODULES:
                hits.append((n, "from %s import ..." % n.module))
            if mod == "random" or (n.module or "").startswith("numpy.random"):
                hits.append((n, "from %s import ... (draws would escape the who-may-draw rule)" % n.module))
    return hits


def r7a(repo, rep, modules=("simulation",)):
    rep.rule("R7a", "who-may-draw: randomness only through module-level random.* / legacy np.random.*; no private "
                    "generators, no re-seeding, no time/hash/id/os entropy, no new entropy imports")
    import os
    fx = os.path.join(os.path.dirname(os.path.dirname(os.path.abspath(__file__))), "fixtures", "r7_positive.py")
    with open(fx) as fh:
        ftree = ast.parse(fh.read())
    nfix = len(_scan_forbidden(ftree))
    rep.floor("R7a", "hits on the positive fixture", nfix, 8)
    for m in modules:
        hits = _scan_forbidden(repo.mods[m])
        if not hits:
            rep.ob("R7a", True, "%s: no forbidden randomness/entropy source" % m, func="%s (module)" % m,
                   construct="module %s clean" % m)
        for n, what in hits:
            f = _enclosing(repo, m, n)
            rep.ob("R7a", False, "%s: forbidden source" % m, detail=what, func=f or ("%s (module)" % m), node=n)
        # every draw goes through the two global sources
        ndraw = 0
        for f in repo.all_funcs():
            if f.module != m:
                continue
            for n in own_nodes(f.node):
                if isinstance(n, ast.Call):
                    ch = attr_chain(n.func) or ""
                    if ch.startswith(DRAW_PREFIXES):
                        ndraw += 1
                        rep.ob("R7a", True, "draw through global source", func=f, node=n,
                               construct="%s in %s" % (ch, f.name))
        rep.count("R7a:draw sites in %s" % m, ndraw)
        rep.floor("R7a", "draw sites in %s" % m, ndraw, 20 if m == "simulation" else 0)


def _enclosing(repo, module, node):
    best = None
    for f in repo.all_funcs():
        if f.module == module and f.node.lineno <= getattr(node, "lineno", -1) <= (f.node.end_lineno or 0):
            if best is None or f.node.lineno >= best.node.lineno:
                best = f
    return best


SET_MAKERS = {"set", "frozenset",
               # networkx helpers whose result (or iteration order) comes from a set
               "nx.edge_boundary", "nx.node_boundary", "nx.descendants", "nx.ancestors", "nx.node_connected_component",
               "nx.non_neighbors", "nx.common_neighbors", "nx.isolates"}
SET_METHODS = {"union", "intersection", "difference", "symmetric_difference", "copy"}


def _set_vars(fnode):
    """Local names that hold a set on some path (constructor-based kind inference)."""
    sets = set()
    changed = True
    while changed:
        changed = False
        for n in own_nodes(fnode):
            if isinstance(n, ast.Assign) and len(n.targets) == 1 and isinstance(n.targets[0], ast.Name):
                v = n.value
                is_set = isinstance(v, (ast.Set, ast.SetComp)) or _is_set_expr(v, sets) or \
                    (isinstance(v, ast.Call) and attr_chain(v.func) in SET_MAKERS) or \
                    (isinstance(v, ast.Call) and isinstance(v.func, ast.Attribute) and v.func.attr in SET_METHODS
                     and _is_set_expr(v.func.value, sets)) or \
                    (isinstance(v, ast.Name) and v.id in sets) or \
                    (isinstance(v, ast.BinOp) and _is_set_expr(v, sets))
                if is_set and n.targets[0].id not in sets:
                    sets.add(n.targets[0].id)
                    changed = True
                # a mapping whose VALUES are sets (nx.utils.groups: value -> set of keys)
                if isinstance(v, ast.Call) and attr_chain(v.func) in SETMAP_MAKERS and "\0map:" + n.targets[0].id not in sets:
                    sets.add("\0map:" + n.targets[0].id)
                    changed = True
            elif isinstance(n, (ast.For, ast.comprehension)):
                it = n.iter
                if isinstance(it, ast.Call) and isinstance(it.func, ast.Attribute) and isinstance(it.func.value, ast.Name) \
                        and "\0map:" + it.func.value.id in sets and not it.args:
                    tgt = None
                    if it.func.attr == "values" and isinstance(n.target, ast.Name):
                        tgt = n.target.id
                    elif it.func.attr == "items" and isinstance(n.target, ast.Tuple) and len(n.target.elts) == 2 \
                            and isinstance(n.target.elts[1], ast.Name):
                        tgt = n.target.elts[1].id
                    if tgt and tgt not in sets:
                        sets.add(tgt)
                        changed = True
    return sets


_SET_RETURNING = [set()]      # names of package functions all of whose returns are sets (filled by r7b)


SETMAP_MAKERS = {"nx.utils.groups", "networkx.utils.groups", "groups"}


def _is_set_expr(e, sets):
    if isinstance(e, ast.Name) and e.id in sets:
        return True
    if isinstance(e, ast.Subscript) and isinstance(e.value, ast.Name) and "\0map:" + e.value.id in sets:
        return True
    if isinstance(e, ast.Call) and isinstance(e.func, ast.Attribute) and e.func.attr == "get" and isinstance(e.func.value, ast.Name) \
            and "\0map:" + e.func.value.id in sets:
        return True
    if isinstance(e, ast.IfExp):
        return _is_set_expr(e.body, sets) and _is_set_expr(e.orelse, sets)
    if isinstance(e, ast.Call) and (attr_chain(e.func) or "").split(".")[-1] in _SET_RETURNING[0]:
        return True
    if isinstance(e, (ast.Set, ast.SetComp)):
        return True
    if isinstance(e, ast.Call) and attr_chain(e.func) in SET_MAKERS:
        return True
    if isinstance(e, ast.Call) and isinstance(e.func, ast.Attribute) and e.func.attr in SET_METHODS \
            and _is_set_expr(e.func.value, sets):
        return True
    if isinstance(e, ast.BinOp) and isinstance(e.op, (ast.BitOr, ast.BitAnd, ast.Sub, ast.BitXor)):
        # set algebra: the result is a plain (hash-ordered) set as soon as one operand is a set, a set display or a
        # dict keys()/items() view (`d.keys() - {x}` is a set, not a view)
        def viewish(x):
            return isinstance(x, ast.Call) and isinstance(x.func, ast.Attribute) and x.func.attr in ("keys", "items") and not x.args
        if any(_is_set_expr(x, sets) or viewish(x) for x in (e.left, e.right)):
            return True
    return False


def continuous_scope(repo):
    """The continuous-time simulators, everything reachable from them through
    resolved calls and queue handlers, and the candidate-set class."""
    sites, _ = sites_of(repo)
    roots = [repo.f(n) for n in T.CONTINUOUS_SIMULATORS]
    seen = {}
    todo = list(roots)
    while todo:
        f = todo.pop()
        if f.qual in seen:
            continue
        seen[f.qual] = f
        for g in f.nested.values():
            todo.append(g)
        for s in sites:
            if s.caller is f and isinstance(s.callee, Func) and s.callee.name != "__init__":
                todo.append(s.callee)
    for (m, c, n), f in repo.methods.items():
        if c in ("_ListDict_", "myQueue"):
            seen[f.qual] = f
    seen[repo.f("_get_rate_functions_").qual] = repo.f("_get_rate_functions_")
    return list(seen.values())


def r7b(repo, rep):
    rep.rule("R7b", "no hash-ordered iteration in the continuous-time simulators: no for/comprehension/pop/"
                    "list()/next(iter()) over a set unless inside sorted(); the transition lists that drive event "
                    "selection in Gillespie_simple_contagion are sorted() on the non-exceptional path")
    # package functions that hand back a set (every return is a set expression): iterating their result is hash-ordered too
    sr = set()
    for g in repo.all_funcs():
        rets = [n for n in own_nodes(g.node) if isinstance(n, ast.Return) and n.value is not None]
        if rets:
            loc = _set_vars(g.node)
            if all(_is_set_expr(r.value, loc) for r in rets):
                sr.add(g.name)
    _SET_RETURNING[0] = sr
    rep.count("R7b:package functions that return a set", len(sr))
    scope = continuous_scope(repo)
    rep.floor("R7b", "functions in the continuous-time scope", len(scope), 30)
    for f in scope:
        rep.analysed(f)
        sets = _set_vars(f.node)
        found = False
        for n in own_nodes(f.node):
            bad = None
            if isinstance(n, (ast.For, ast.comprehension)) and _is_set_expr(n.iter, sets):
                bad = "iteration over set %s" % short(n.iter, 40)
            elif isinstance(n, ast.Call) and isinstance(n.func, ast.Attribute) and n.func.attr == "pop" \
                    and not n.args and _is_set_expr(n.func.value, sets):
                bad = "%s.pop() takes an arbitrary element" % short(n.func.value, 40)
            elif isinstance(n, ast.Call) and attr_chain(n.func) in ("list", "tuple", "next", "iter", "enumerate",
                                                                    "random.choice", "random.sample", "np.array",
                                                                    "random.shuffle", "min", "max") \
                    and n.args and _is_set_expr(n.args[0], sets) and attr_chain(n.func) not in ("min", "max"):
                bad = "%s(%s) depends on set order" % (attr_chain(n.func), short(n.args[0], 40))
            if bad:
                found = True
                rep.ob("R7b", False, "%s: hash-ordered iteration" % f.qual, detail=bad, func=f,
                       node=n if hasattr(n, "lineno") else f.node, construct=bad)
        if not found:
            rep.ob("R7b", True, "%s: no iteration over a set" % f.qual, func=f, construct="no set iteration")
    # sorted transition lists
    g = repo.f("Gillespie_simple_contagion")
    ok = {}
    for n in own_nodes(g.node):
        if isinstance(n, ast.Try):
            for st in n.body:
                if isinstance(st, ast.Assign) and isinstance(st.targets[0], ast.Name) and \
                        isinstance(st.value, ast.Call) and attr_chain(st.value.func) == "sorted":
                    ok[st.targets[0].id] = short(st.value, 80)
    # the lists iterated for selection
    sel = set()
    for n in own_nodes(g.node):
        if isinstance(n, (ast.For, ast.comprehension)):
            for nm in names_in(n.iter):
                if "transitions" in nm and nm != "potential_transitions":
                    sel.add(nm)
    rep.floor("R7b", "transition lists iterated in Gillespie_simple_contagion", len(sel), 2)
    for nm in sorted(sel):
        rep.ob("R7b", nm in ok, "Gillespie_simple_contagion: %s is sorted()" % nm, func=g, node=g.node,
               construct="%s = %s" % (nm, ok.get(nm)),
               detail="" if nm in ok else "selection iterates %s, which is not built by sorted() on the normal path" % nm)


def drawing_functions(repo):
    """Functions that draw randomness or call a user-supplied callable,
    directly or through package calls (fixpoint)."""
    sites, _ = sites_of(repo)
    direct = {}
    for f in repo.all_funcs():
        why = None
        pars = set()
        g = f
        while g is not None:
            pars |= set(g.all_params)
            g = g.parent
        for n in own_nodes(f.node):
            if isinstance(n, ast.Call):
                ch = attr_chain(n.func) or ""
                if ch.startswith(DRAW_PREFIXES):
                    why = ch
                elif isinstance(n.func, ast.Name) and n.func.id in pars:
                    why = "user callable %s" % n.func.id
        if why:
            direct[f.qual] = why
    changed = True
    while changed:
        changed = False
        for s in sites:
            if isinstance(s.callee, Func) and s.callee.qual in direct and s.caller.qual not in direct \
                    and s.kind in ("direct", "deferred"):
                direct[s.caller.qual] = "calls %s" % s.callee.name
                changed = True
    return direct


def r7c(repo, rep):
    rep.rule("R7c", "in the continuous-time simulators no random draw, call of a user callable, or call of a "
                    "package function that draws is control dependent on return_full_data")
    scope = continuous_scope(repo)
    draws = drawing_functions(repo)
    sites, _ = sites_of(repo)
    nsites = 0
    for f in scope:
        if "return_full_data" not in _visible_params(f):
            continue
        rep.analysed(f)
        ctxs = contexts_by_node(f.node)
        pars = _visible_params(f)
        for n in own_nodes(f.node):
            if not isinstance(n, ast.Call):
                continue
            ch = attr_chain(n.func) or ""
            kind = None
            if ch.startswith(DRAW_PREFIXES):
                kind = ch
            elif isinstance(n.func, ast.Name) and n.func.id in pars:
                kind = "user callable %s" % n.func.id
            else:
                for s in sites:
                    if s.node is n and isinstance(s.callee, Func) and s.callee.qual in draws \
                            and s.kind in ("direct", "deferred"):
                        kind = "%s (draws: %s)" % (s.callee.name, draws[s.callee.qual])
                if kind is None and isinstance(n.func, ast.Attribute) and n.func.attr in (
                        "choose_random", "random_removal"):
                    kind = "_ListDict_.%s" % n.func.attr
            if kind is None:
                continue
            nsites += 1
            c = ctxs.get(id(n))
            dep = [fx for fx, pol in (c.facts if c else ()) if "return_full_data" in refs(fx)]
            rep.ob("R7c", not dep, "%s: %s independent of return_full_data" % (f.qual, kind),
                   func=f, node=n, construct="%s under %s" % (short(n, 60), [short(d) for d in dep]) if dep
                   else "%s: %s" % (f.name, short(n, 60)),
                   detail="" if not dep else "draw happens only when return_full_data is %s: the two return modes "
                   "consume different random numbers" % [short(d) for d in dep])
    rep.floor("R7c", "draw sites in functions that see return_full_data", nsites, 15)


def _visible_params(f):
    out = set()
    g = f
    while g is not None:
        out |= set(g.all_params)
        g = g.parent
    return out
