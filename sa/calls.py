"""Resolved call sites of the package: direct calls, deferred queue calls
(`Q.add(t, handler, args=(...))`) and ODE right-hand sides handed to
`integrate.odeint` / `_my_odeint_`, each with its static argument binding."""
import ast

from .core import (own_nodes, resolve_callee, bind_call, BindError, Func,
                   attr_chain, names_in, short)

ODEINT = {"integrate.odeint", "_my_odeint_", "odeint", "scipy.integrate.odeint"}


class Site:
    """One call site with its binding."""
    __slots__ = ("caller", "callee", "node", "kind", "binding", "defaulted",
                 "star", "dstar", "error", "positional", "via")

    def __init__(self, caller, callee, node, kind):
        self.caller = caller
        self.callee = callee
        self.node = node
        self.kind = kind          # 'direct' | 'deferred' | 'ode' | 'ctor'
        self.binding = {}
        self.defaulted = set()
        self.star = None
        self.dstar = None
        self.error = None
        self.positional = {}      # formal -> True if bound positionally
        self.via = None           # for tuple forwarded through a parameter

    def __repr__(self):
        return "<Site %s -> %s @%s %s>" % (self.caller.qual, getattr(self.callee, "qual", self.callee),
                                          getattr(self.node, "lineno", "?"), self.kind)


def _kw(call, name):
    for k in call.keywords:
        if k.arg == name:
            return k.value
    return None


def _bind(site, args, keywords, skip=0, extra_first=()):
    try:
        b, d, star, dstar = bind_call(site.callee, args, keywords, skip, extra_first)
    except BindError as e:
        site.error = str(e)
        return
    site.binding, site.defaulted, site.star, site.dstar = b, d, star, dstar
    formals = site.callee.params[skip:]
    n = 0
    for a in list(extra_first) + list(args):
        if isinstance(a, ast.Starred):
            break
        if n < len(formals):
            site.positional[formals[n]] = True
        n += 1


class _Synthetic(ast.AST):
    """Placeholder expression (e.g. the time a deferred handler receives)."""
    _fields = ()

    def __init__(self, label):
        self.label = label


def collect_sites(repo):
    """All resolved intra-package call sites, plus counts of unresolved ones."""
    sites = []
    unresolved = []
    tuple_forwarders = {}   # Func -> list of (param name, handler Func, node)
    for f in repo.all_funcs():
        for n in own_nodes(f.node):
            if not isinstance(n, ast.Call):
                continue
            ch = attr_chain(n.func)
            # -- deferred queue call  X.add(time, handler, args=...)
            if isinstance(n.func, ast.Attribute) and n.func.attr == "add" \
                    and len(n.args) >= 2:
                h = resolve_callee(repo, f, n.args[1])
                if isinstance(h, Func):
                    argv = _kw(n, "args")
                    if argv is None and len(n.args) >= 3:
                        argv = n.args[2]
                    s = Site(f, h, n, "deferred")
                    if argv is None:
                        _bind(s, [], [], 0, (n.args[0],))
                    elif isinstance(argv, ast.Tuple):
                        _bind(s, list(argv.elts), [], 0, (n.args[0],))
                    elif isinstance(argv, ast.Name) and argv.id in f.all_params:
                        tuple_forwarders.setdefault(f, []).append((argv.id, h, n))
                        continue
                    else:
                        s.error = "args of deferred call is not a tuple literal: %s" % short(argv)
                    sites.append(s)
                    continue
            # -- ODE right-hand side
            if ch in ODEINT and n.args:
                h = resolve_callee(repo, f, n.args[0])
                if isinstance(h, Func):
                    s = Site(f, h, n, "ode")
                    argv = _kw(n, "args")
                    if argv is None and len(n.args) >= 4:
                        argv = n.args[3]
                    x0 = n.args[1] if len(n.args) > 1 else _Synthetic("state")
                    tt = _Synthetic("t")
                    if argv is None:
                        _bind(s, [], [], 0, (x0, tt))
                    elif isinstance(argv, ast.Tuple):
                        _bind(s, list(argv.elts), [], 0, (x0, tt))
                    else:
                        s.error = "args of odeint is not a tuple literal"
                    sites.append(s)
                # the call to _my_odeint_ itself is also a direct call
                if ch != "_my_odeint_":
                    continue
            callee = resolve_callee(repo, f, n)
            if isinstance(callee, Func):
                s = Site(f, callee, n, "direct")
                skip = 1 if (callee.cls and callee.params and callee.params[0] == "self") else 0
                _bind(s, n.args, n.keywords, skip)
                sites.append(s)
            elif isinstance(callee, ast.ClassDef):
                init = repo.methods.get((_module_of_class(repo, callee), callee.name, "__init__"))
                if init is not None:
                    s = Site(f, init, n, "ctor")
                    _bind(s, n.args, n.keywords, 1)
                    sites.append(s)
            else:
                unresolved.append((f, n))
    # tuples forwarded through a parameter: bind at the callers of the forwarder
    for fw, lst in tuple_forwarders.items():
        for (pname, handler, addnode) in lst:
            for s in [x for x in sites if x.callee is fw and x.kind == "direct"]:
                actual = s.binding.get(pname)
                d = Site(s.caller, handler, s.node, "deferred")
                d.via = (fw, pname, addnode)
                if isinstance(actual, ast.Tuple):
                    _bind(d, list(actual.elts), [], 0, (addnode.args[0],))
                elif actual is None and pname in s.defaulted:
                    dv = fw.defaults.get(pname)
                    if isinstance(dv, ast.Tuple):
                        _bind(d, list(dv.elts), [], 0, (addnode.args[0],))
                    else:
                        d.error = "forwarded args default is not a tuple"
                else:
                    d.error = "forwarded args is not a tuple literal at the caller"
                sites.append(d)
    return sites, unresolved


def _module_of_class(repo, cnode):
    for (m, n), c in repo.classes.items():
        if c is cnode:
            return m
    return None


def dependency_closure(func):
    """Flow-insensitive 'depends on' relation between the local names of a
    function: name -> set of names appearing in any expression assigned to it
    (transitively closed).  Stores through subscripts / attributes and mutator
    calls make the container depend on the stored value."""
    dep = {}

    def add(t, srcs):
        if isinstance(t, ast.Name):
            dep.setdefault(t.id, set()).update(srcs)
        elif isinstance(t, (ast.Tuple, ast.List)):
            for e in t.elts:
                add(e, srcs)
        elif isinstance(t, ast.Starred):
            add(t.value, srcs)
        elif isinstance(t, (ast.Subscript, ast.Attribute)):
            base = t
            extra = set()
            while isinstance(base, (ast.Subscript, ast.Attribute)):
                if isinstance(base, ast.Subscript):
                    extra |= names_in(base.slice)
                base = base.value
            if isinstance(base, ast.Name):
                dep.setdefault(base.id, set()).update(srcs | extra)

    for n in own_nodes(func.node):
        if isinstance(n, ast.Assign):
            srcs = names_in(n.value)
            for t in n.targets:
                add(t, srcs)
        elif isinstance(n, ast.AugAssign):
            add(n.target, names_in(n.value))
        elif isinstance(n, ast.AnnAssign) and n.value is not None:
            add(n.target, names_in(n.value))
        elif isinstance(n, (ast.For, ast.comprehension)):
            add(n.target, names_in(n.iter))
        elif isinstance(n, ast.With):
            for it in n.items:
                if it.optional_vars is not None:
                    add(it.optional_vars, names_in(it.context_expr))
        elif isinstance(n, ast.Call) and isinstance(n.func, ast.Attribute):
            base = n.func.value
            while isinstance(base, (ast.Subscript, ast.Attribute)):
                base = base.value
            if isinstance(base, ast.Name) and n.func.attr in (
                    "append", "extend", "add", "update", "insert", "add_node",
                    "add_edge", "add_nodes_from", "add_edges_from", "setdefault"):
                srcs = set()
                for a in n.args:
                    srcs |= names_in(a)
                for k in n.keywords:
                    srcs |= names_in(k.value)
                dep.setdefault(base.id, set()).update(srcs)
        elif isinstance(n, ast.FunctionDef) and n is not func.node:
            # a nested function depends on the free names it reads
            free = set()
            for m in ast.walk(n):
                if isinstance(m, ast.Name):
                    free.add(m.id)
            dep.setdefault(n.name, set()).update(free)
    # control dependence of a name assigned under `if p ...` is NOT included:
    # R1(c) asks for a data dependence.
    changed = True
    while changed:
        changed = False
        for k, v in dep.items():
            new = set(v)
            for x in v:
                new |= dep.get(x, set())
            if new != v:
                dep[k] = new
                changed = True
    return dep


def depends_on(expr, name, dep):
    ns = names_in(expr) if isinstance(expr, ast.AST) else set()
    if name in ns:
        return True
    for x in ns:
        if name in dep.get(x, ()):
            return True
    return False
