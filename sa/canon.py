"""Refactoring-aware comparison with a frozen reference copy of the package.

`sa/reference/EoN/*.py` is a copy of /repo's modules at the state the rules were
last validated on.  For every function of the analysed tree that also exists in
the reference, both are brought to a canonical form by semantics-preserving
rewrites; if the canonical forms are equal, the function is a refactoring of the
reference function and the REFERENCE function is analysed in its place (every
rule verdict about the reference carries over to an equivalent function).  A
function whose canonical form differs is analysed exactly as it is written.

Rewrites (applied to both sides):
  C1  docstrings, annotations, `assert`, inert statements (print/logging/pass) removed;
  C2  calls of helpers that do not exist in the reference (newly extracted private functions/methods) are inlined
      (expression helpers by substitution, statement helpers at assignment / augmented assignment / expression /
      return positions; helper locals are renamed apart);
  C3  `f = lambda a: e`  ->  `def f(a): return e`;
  C4  else-after-exit is flattened; an early bare `return` guard (`if c: return` + rest) becomes `if not c: rest`;
  C5  `v = True if c else False`, `if c: v = True else: v = False`  ->  `v = c` (c a comparison / membership / not);
      `len(x) == 0` -> `not x`, `len(x) > 0` / `len(x) != 0` -> `x` in truth contexts; `for k in d.keys()` -> `for k in d`;
      nested `if a: if b: S` (no else) -> `if a and b: S`;
  C6  copy propagation of single-assignment temporaries with a pure right-hand side whose inputs are not
      changed between definition and last use; store-to-load forwarding for `B[k] = e` (pure e) within a block;
  C7  adjacent commuting simple assignments (pure allocation / constants) are put in text order;
  C8  scope-aware alpha-renaming of all locals.

`python -m sa.canon --freeze` copies /repo/EoN/*.py into sa/reference/EoN/ (do this only after the checks and the
self-test pass on that tree)."""
import ast
import copy
import hashlib
import os
import shutil

from . import alpha as A

HERE = os.path.dirname(os.path.abspath(__file__))
REFDIR = os.path.join(HERE, "reference", "EoN")

PURE_FUNCS = {"len", "float", "int", "round", "min", "max", "abs", "bool", "str", "tuple", "list", "dict", "set",
              "frozenset", "sorted", "sum", "range", "enumerate", "zip", "defaultdict", "Counter", "isinstance",
              "myQueue", "_ListDict_", "repr", "type", "next", "iter", "hasattr", "getattr"}
PURE_METHODS = {"order", "degree", "has_node", "has_edge", "neighbors", "nodes", "edges", "get", "keys", "values",
                "items", "total_weight", "copy", "sum", "dot", "index", "format", "is_directed", "number_of_nodes",
                "size", "predecessors", "successors", "is_multigraph", "union", "intersection", "difference",
                "count", "lower", "upper", "transpose", "reshape", "toarray", "in_degree", "out_degree", "__contains__",
                "adjacency"}
PURE_PREFIX = ("np.", "numpy.", "math.", "nx.")
IMPURE_PREFIX = ("np.random.", "numpy.random.", "random.")


def _chain(e):
    parts = []
    while isinstance(e, ast.Attribute):
        parts.append(e.attr)
        e = e.value
    if isinstance(e, ast.Name):
        parts.append(e.id)
        return ".".join(reversed(parts))
    return None


def is_pure(e):
    for n in ast.walk(e):
        if isinstance(n, ast.Call):
            ch = _chain(n.func)
            if ch is None:
                if isinstance(n.func, ast.Attribute) and n.func.attr in PURE_METHODS:
                    continue
                return False
            if ch.startswith(IMPURE_PREFIX):
                return False
            if ch in PURE_FUNCS or ch.startswith(PURE_PREFIX):
                continue
            if "." in ch and ch.split(".")[-1] in PURE_METHODS:
                continue
            return False
        if isinstance(n, (ast.NamedExpr, ast.Yield, ast.YieldFrom, ast.Await, ast.Lambda)):
            return False
    return True


_NEG = {ast.Eq: ast.NotEq, ast.NotEq: ast.Eq, ast.Is: ast.IsNot, ast.IsNot: ast.Is, ast.In: ast.NotIn, ast.NotIn: ast.In,
        ast.Lt: ast.GtE, ast.GtE: ast.Lt, ast.Gt: ast.LtE, ast.LtE: ast.Gt}


def negate(e):
    if isinstance(e, ast.UnaryOp) and isinstance(e.op, ast.Not):
        return e.operand
    if isinstance(e, ast.Compare) and len(e.ops) == 1 and type(e.ops[0]) in (ast.Eq, ast.NotEq, ast.Is, ast.IsNot, ast.In, ast.NotIn):
        return ast.Compare(left=e.left, ops=[_NEG[type(e.ops[0])]()], comparators=e.comparators)
    return ast.UnaryOp(op=ast.Not(), operand=e)


def exits(body):
    if not body:
        return False
    last = body[-1]
    if isinstance(last, (ast.Return, ast.Raise, ast.Continue, ast.Break)):
        return True
    if isinstance(last, ast.If) and last.orelse:
        return exits(last.body) and exits(last.orelse)
    if isinstance(last, ast.While) and not last.orelse and isinstance(last.test, ast.Constant) and last.test.value is True \
            and not _own_breaks(last):
        return True
    return False


def _own_breaks(loop):
    """`break` statements that leave this loop (not those of loops nested in it)."""
    out = []

    def walk(stmts):
        for st in stmts:
            if isinstance(st, ast.Break):
                out.append(st)
            elif isinstance(st, (ast.For, ast.While, ast.AsyncFor)):
                walk(st.orelse)
            elif isinstance(st, (ast.FunctionDef, ast.ClassDef)):
                continue
            else:
                for fld in ("body", "orelse", "finalbody"):
                    b = getattr(st, fld, None)
                    if isinstance(b, list):
                        walk(b)
                for h in getattr(st, "handlers", []) or []:
                    walk(h.body)
    walk(loop.body)
    return out


def _blocks_of(node):
    """(owner, field) pairs of every statement list below node (not entering nested function scopes for some passes)."""
    out = []
    for n in ast.walk(node):
        for fld in ("body", "orelse", "finalbody"):
            b = getattr(n, fld, None)
            if isinstance(b, list) and b and isinstance(b[0], ast.stmt):
                out.append((n, fld))
        if isinstance(n, ast.Try):
            for h in n.handlers:
                out.append((h, "body"))
    return out


# ---------------------------------------------------------------------------------------------------- C1
class _Strip(ast.NodeTransformer):
    def visit_FunctionDef(self, n):
        self.generic_visit(n)
        n.returns = None
        for a in n.args.posonlyargs + n.args.args + n.args.kwonlyargs + [x for x in (n.args.vararg, n.args.kwarg) if x]:
            a.annotation = None
        n.decorator_list = n.decorator_list
        return n

    def visit_AnnAssign(self, n):
        self.generic_visit(n)
        if n.value is None:
            return None
        return ast.copy_location(ast.Assign(targets=[n.target], value=n.value), n)

    def visit_Assert(self, n):
        return None

    def visit_Try(self, n):
        # a `try` whose body only DEFINES functions / binds lambdas or constants cannot raise: the handlers are dead
        self.generic_visit(n)

        def safe(s):
            if isinstance(s, ast.FunctionDef):
                return not s.decorator_list and all(isinstance(d, ast.Constant) for d in s.args.defaults + [k for k in s.args.kw_defaults if k is not None])
            if isinstance(s, ast.Assign) and len(s.targets) == 1 and isinstance(s.targets[0], ast.Name):
                if isinstance(s.value, ast.Lambda):
                    return not s.value.args.defaults and not s.value.args.kw_defaults
                return isinstance(s.value, ast.Constant)
            return False
        if not n.finalbody and not n.orelse and n.body and all(safe(x) for x in n.body):
            return n.body
        return n


def strip(fn):
    from .core import _inert
    A._strip_doc(fn)
    _Strip().visit(fn)
    for owner, fld in _blocks_of(fn):
        b = [s for s in getattr(owner, fld) if not _inert(s) and not (isinstance(s, ast.Expr) and isinstance(s.value, ast.Constant))]
        if fld == "body" and not b:
            b = [ast.Pass()]
        setattr(owner, fld, b)
    return fn


# ---------------------------------------------------------------------------------------------------- C2
class _Subst(ast.NodeTransformer):
    def __init__(self, mapping):
        self.m = mapping

    def visit_Name(self, n):
        if n.id in self.m and isinstance(n.ctx, ast.Load):
            return copy.deepcopy(self.m[n.id])
        return n

    def visit_Lambda(self, n):
        return n      # do not substitute into lambda bodies that may shadow


def _helper_locals(h):
    loc = set()
    for n in ast.walk(h):
        if isinstance(n, ast.Name) and isinstance(n.ctx, (ast.Store, ast.Del)):
            loc.add(n.id)
    return loc


def _returns_to(stmts, sink):
    """Rewrite a statement list (a function body) so that the value of every `return e` goes to sink(e) instead; falling off
    the end is `return None`.  Returns the new list or None when the shape is not supported."""
    idx = None
    for i, s in enumerate(stmts):
        if any(isinstance(n, ast.Return) for n in ast.walk(s)):
            idx = i
            break
    if idx is None:
        return list(stmts) + sink(ast.Constant(None))
    s = stmts[idx]
    head = stmts[:idx]

    def cond(test, a, b):
        if not a and not b:
            return [] if is_pure(test) else [ast.Expr(value=test)]
        if not a:
            return [ast.If(test=negate(test), body=b, orelse=[])]
        return [ast.If(test=test, body=a, orelse=b)]
    if isinstance(s, ast.Return):
        if idx != len(stmts) - 1:
            return None
        return head + sink(s.value if s.value is not None else ast.Constant(None))
    if isinstance(s, ast.If):
        if s.orelse:
            if idx != len(stmts) - 1:
                return None
            a = _returns_to(s.body, sink)
            b = _returns_to(s.orelse, sink)
            if a is None or b is None:
                return None
            return head + cond(s.test, a, b)
        if not exits(s.body):
            return None
        a = _returns_to(s.body, sink)
        b = _returns_to(stmts[idx + 1:], sink)
        if a is None or b is None:
            return None
        return head + cond(s.test, a, b)
    return None


def _replace_node(root, old, new):
    """Replace node `old` (found by identity below root) by `new`; returns an undo function, or None if not found."""
    for parent in ast.walk(root):
        for fld, val in ast.iter_fields(parent):
            if val is old:
                setattr(parent, fld, new)
                return lambda: setattr(parent, fld, old)
            if isinstance(val, list):
                for i, x in enumerate(val):
                    if x is old:
                        val[i] = new

                        def undo(val=val, i=i):
                            val[i] = old
                        return undo
    return None


def _as_expression(stmts):
    """The value returned by a body made only of `return e` and `if c: <such a body> [else: <such a body>]`."""
    if not stmts:
        return None
    st = stmts[0]
    if isinstance(st, ast.Return) and st.value is not None:
        return st.value
    if isinstance(st, ast.If):
        a = _as_expression(st.body)
        b = _as_expression(st.orelse) if st.orelse else _as_expression(stmts[1:])
        if a is not None and b is not None and (st.orelse and len(stmts) == 1 or not st.orelse):
            return ast.IfExp(test=st.test, body=a, orelse=b)
    return None


class Inliner:
    def __init__(self, helpers):
        self.helpers = helpers       # name -> FunctionDef (module level) ; ("self", name) -> method FunctionDef
        self.n = 0

    def lookup(self, call):
        h, skip, selfexpr = self._lookup(call)
        if h is not None and h.decorator_list:
            return None, 0, None          # a decorated function is not its body (caching, wrapping)
        return h, skip, selfexpr

    def _lookup(self, call):
        f = call.func
        if isinstance(f, ast.Name) and f.id in self.helpers:
            return self.helpers[f.id], 0, None
        if isinstance(f, ast.Attribute) and isinstance(f.value, ast.Name) and f.value.id == "EoN" and f.attr in self.helpers:
            return self.helpers[f.attr], 0, None
        if isinstance(f, ast.Attribute) and isinstance(f.value, ast.Name) and f.value.id == "self" and ("self", f.attr) in self.helpers:
            return self.helpers[("self", f.attr)], 1, f.value
        return None, 0, None

    def bind(self, h, call, skip, selfexpr):
        a = h.args
        if a.kwarg or any(isinstance(x, ast.Starred) for x in call.args) or any(k.arg is None for k in call.keywords):
            return None
        params = [x.arg for x in a.posonlyargs + a.args]
        m = {}
        if skip:
            m[params[0]] = selfexpr
            params = params[1:]
        if len(call.args) > len(params) and not a.vararg:
            return None
        for p, v in zip(params, call.args):
            m[p] = v
        if a.vararg:
            # *rest receives the surplus positional arguments as a tuple (names and constants only: the tuple display is
            # then as good as the tuple object the call would build)
            rest = list(call.args[len(params):])
            if not all(isinstance(x, (ast.Name, ast.Constant)) for x in rest) or a.vararg.arg in m:
                return None
            if any(isinstance(n, ast.Name) and n.id == a.vararg.arg and isinstance(n.ctx, ast.Store) for n in ast.walk(h)):
                return None
            m[a.vararg.arg] = ast.Tuple(elts=rest, ctx=ast.Load())
        for k in call.keywords:
            if k.arg in m or k.arg not in params + [x.arg for x in a.kwonlyargs]:
                return None
            m[k.arg] = k.value
        defaults = dict(zip([x.arg for x in (a.posonlyargs + a.args)][len(a.posonlyargs + a.args) - len(a.defaults):], a.defaults))
        for x, d in zip(a.kwonlyargs, a.kw_defaults):
            if d is not None:
                defaults[x.arg] = d
        for p in params + [x.arg for x in a.kwonlyargs]:
            if p not in m:
                if p in defaults:
                    m[p] = defaults[p]
                else:
                    return None
        return m

    def body_for(self, h, call, sink):
        hh = copy.deepcopy(h)
        strip(hh)
        got = self.lookup(call)
        m = self.bind(hh, call, got[1], got[2])
        if m is None:
            return None
        loc = _helper_locals(hh)
        rebound = sorted(loc & set(m))
        # the arguments are evaluated once, in order, before the body: when one of them has effects, every argument that
        # is not a plain name / constant is first bound to a temporary (in call order)
        pre = []
        if any(not is_pure(v) for v in m.values()):
            order = [x.arg for x in hh.args.posonlyargs + hh.args.args + hh.args.kwonlyargs]
            given = [p for p in order if p in m]
            # keep the order in which the call evaluates them: positional first, then keywords as written
            kwpos = {k.arg: i for i, k in enumerate(call.keywords)}
            npos = len(call.args) + got[1]
            given.sort(key=lambda p: (0, order.index(p)) if order.index(p) < npos else (1, kwpos.get(p, 10 ** 6)))
            for p in given:
                v = m[p]
                if isinstance(v, (ast.Name, ast.Constant)) or p in (set(order) - set(order[:npos]) - set(kwpos)):
                    continue
                self.n += 1
                tmp = "__a%d_%s" % (self.n, p)
                pre.append(ast.Assign(targets=[ast.Name(id=tmp, ctx=ast.Store())], value=v))
                m[p] = ast.Name(id=tmp, ctx=ast.Load())
        self.n += 1
        ren = {x: "__h%d_%s" % (self.n, x) for x in loc}
        # a parameter that the helper rebinds is an ordinary local that starts as the argument
        for p in rebound:
            pre.append(ast.Assign(targets=[ast.Name(id=ren[p], ctx=ast.Store())], value=m.pop(p)))
        for n in ast.walk(hh):
            if isinstance(n, ast.Name) and n.id in ren:
                n.id = ren[n.id]
        body = [_Subst(m).visit(s) for s in hh.body]
        has_return = any(isinstance(n, ast.Return) for s in body for n in ast.walk(s))
        if not has_return:
            return pre + (body + sink(ast.Constant(None)) if sink is not None else body)
        if sink is None:
            out = _returns_to(body, lambda v: [])
        else:
            out = _returns_to(body, sink)
        return None if out is None else pre + out

    def expr_for(self, h, call):
        hh = copy.deepcopy(h)
        strip(hh)
        e = _as_expression(hh.body)
        if e is None:
            return None
        hh.body = [ast.Return(value=e)]
        got = self.lookup(call)
        m = self.bind(hh, call, got[1], got[2])
        if m is None:
            return None
        uses = {}
        for n in ast.walk(hh.body[0].value):
            if isinstance(n, ast.Name) and n.id in m:
                uses[n.id] = uses.get(n.id, 0) + 1
        conditional = any(isinstance(n, (ast.IfExp, ast.BoolOp, ast.Lambda, ast.ListComp, ast.SetComp, ast.DictComp, ast.GeneratorExp))
                          for n in ast.walk(hh.body[0].value))
        impure = [p for p, v in m.items() if not is_pure(v)]
        if len(impure) > 1:
            return None
        for p in impure:
            # an argument with effects is evaluated exactly once, unconditionally, at the call
            if uses.get(p, 0) != 1 or conditional:
                return None
        return _Subst(m).visit(copy.deepcopy(hh.body[0].value))

    def run(self, fn, rounds=3):
        for _ in range(rounds):
            changed = False
            for owner, fld in _blocks_of(fn):
                body = getattr(owner, fld)
                new = []
                for st in body:
                    rep = self.stmt(st)
                    if rep is not None:
                        new.extend(rep)
                        changed = True
                    else:
                        new.append(st)
                setattr(owner, fld, new)
            # expression helpers anywhere
            inl = self

            class E(ast.NodeTransformer):
                def visit_Call(self, n):
                    self.generic_visit(n)
                    h, _, _ = inl.lookup(n)
                    if h is not None:
                        e = inl.expr_for(h, n)
                        if e is not None:
                            nonlocal changed
                            changed = True
                            return e
                    return n
            E().visit(fn)
            if not changed:
                break
        ast.fix_missing_locations(fn)
        return fn

    def hoist(self, st):
        """A call of a statement helper nested inside the expression of a simple statement, reached before anything
        observable is evaluated, is first bound to a temporary."""
        if not isinstance(st, (ast.Expr, ast.Return, ast.Assign, ast.AugAssign)):
            return None
        for e in _first_evaluated(st):
            if isinstance(e, ast.Call) and self.lookup(e)[0] is not None:
                return None                 # a direct call: the statement forms below handle it
            for c in ast.walk(e):
                if not isinstance(c, ast.Call):
                    continue
                h = self.lookup(c)[0]
                if h is None or self.expr_for(h, c) is not None:
                    continue
                self.n += 1
                tmp = "__c%d" % self.n
                undo = _replace_node(st, c, ast.Name(id=tmp, ctx=ast.Load()))
                if undo is None:
                    continue
                if any(_reach(x, tmp) == _FOUND for x in _first_evaluated(st)):
                    return [ast.Assign(targets=[ast.Name(id=tmp, ctx=ast.Store())], value=c), st]
                undo()
            break
        return None

    def stmt(self, st):
        hs = self.hoist(st)
        if hs is not None:
            return hs
        if isinstance(st, ast.Assign) and len(st.targets) == 1 and isinstance(st.value, ast.Call):
            h, _, _ = self.lookup(st.value)
            if h is not None and self.expr_for(h, st.value) is None:
                t = st.targets[0]
                return self.body_for(h, st.value, lambda v: [ast.Assign(targets=[copy.deepcopy(t)], value=v)])
        if isinstance(st, ast.AugAssign) and isinstance(st.value, ast.Call):
            h, _, _ = self.lookup(st.value)
            if h is not None and self.expr_for(h, st.value) is None:
                self.n += 1
                tmp = "__r%d" % self.n
                b = self.body_for(h, st.value, lambda v: [ast.Assign(targets=[ast.Name(id=tmp, ctx=ast.Store())], value=v)])
                if b is None:
                    return None
                return b + [ast.AugAssign(target=st.target, op=st.op, value=ast.Name(id=tmp, ctx=ast.Load()))]
        if isinstance(st, ast.Expr) and isinstance(st.value, ast.Call):
            h, _, _ = self.lookup(st.value)
            if h is not None:
                return self.body_for(h, st.value, None)
        if isinstance(st, ast.Return) and isinstance(st.value, ast.Call):
            h, _, _ = self.lookup(st.value)
            if h is not None and self.expr_for(h, st.value) is None:
                return self.body_for(h, st.value, lambda v: [ast.Return(value=v)])
        return None


# ---------------------------------------------------------------------------------------------------- C3..C5
def _simple_tuple(e):
    return isinstance(e, ast.Tuple) and all(isinstance(x, (ast.Name, ast.Constant)) or _simple_tuple(x) for x in e.elts)


def _project_tuple(n):
    """(a, b, c)[0] -> a and (a, b, c)[1:] -> (b, c) for a display of names / constants and literal bounds."""
    if not (isinstance(n, ast.Subscript) and isinstance(n.ctx, ast.Load) and _simple_tuple(n.value)):
        return n
    elts = n.value.elts

    def lit(b):
        if b is None:
            return True, None
        if isinstance(b, ast.Constant) and isinstance(b.value, int) and not isinstance(b.value, bool):
            return True, b.value
        if isinstance(b, ast.UnaryOp) and isinstance(b.op, ast.USub) and isinstance(b.operand, ast.Constant) \
                and isinstance(b.operand.value, int) and not isinstance(b.operand.value, bool):
            return True, -b.operand.value
        return False, None
    if isinstance(n.slice, ast.Slice):
        if n.slice.step is not None:
            return n
        (oka, a), (okb, b) = lit(n.slice.lower), lit(n.slice.upper)
        if oka and okb:
            return ast.copy_location(ast.Tuple(elts=[copy.deepcopy(x) for x in elts[a:b]], ctx=ast.Load()), n)
        return n
    ok, i = lit(n.slice)
    if ok and i is not None and -len(elts) <= i < len(elts):
        return ast.copy_location(copy.deepcopy(elts[i]), n)
    return n


class _Idioms(ast.NodeTransformer):
    def visit_Assign(self, n):
        self.generic_visit(n)
        if len(n.targets) == 1 and isinstance(n.targets[0], ast.Name):
            v = n.value
            x = n.targets[0].id
            # x = A if c else x   ->   if c: x = A        (any leaf of a nested conditional that is x itself)
            if isinstance(v, ast.IfExp) and _has_self_leaf(v, x):
                return [ast.copy_location(z, n) for z in _ifexp_to_stmts(x, v)]
            if isinstance(v, ast.Lambda):
                return ast.copy_location(ast.FunctionDef(
                    name=n.targets[0].id, args=v.args, body=[ast.Return(value=v.body)], decorator_list=[], returns=None,
                    type_comment=None, type_params=[]), n)
            if isinstance(v, ast.IfExp) and _is_const(v.body, True) and _is_const(v.orelse, False) and _boolish(v.test):
                n.value = v.test
            elif isinstance(v, ast.IfExp) and _is_const(v.body, False) and _is_const(v.orelse, True) and _boolish(v.test):
                n.value = negate(v.test)
            # NOT rewritten: `x = x + e` <-> `x += e` (the augmented form updates a mutable x in place: an array or list
            # that the caller still holds changes under it)
        return n

    def visit_If(self, n):
        self.generic_visit(n)
        n.test = _truth(n.test)
        if _is_const(n.test, True):
            return n.body
        if _is_const(n.test, False):
            return n.orelse or None
        if isinstance(n.test, ast.BoolOp) and isinstance(n.test.op, ast.And) and any(_is_const(v, False) for v in n.test.values) \
                and all(is_pure(v) for v in n.test.values):
            return n.orelse or None
        # if c: v = True else: v = False
        if len(n.body) == 1 and len(n.orelse) == 1 and isinstance(n.body[0], ast.Assign) and isinstance(n.orelse[0], ast.Assign) \
                and ast.dump(n.body[0].targets[0]) == ast.dump(n.orelse[0].targets[0]) and _boolish(n.test):
            a, b = n.body[0].value, n.orelse[0].value
            if _is_const(a, True) and _is_const(b, False):
                return ast.copy_location(ast.Assign(targets=n.body[0].targets, value=n.test), n)
            if _is_const(a, False) and _is_const(b, True):
                return ast.copy_location(ast.Assign(targets=n.body[0].targets, value=negate(n.test)), n)
        # if c: x = A else: x = B  ->  x = A if c else B
        if len(n.body) == 1 and len(n.orelse) == 1 and isinstance(n.body[0], ast.Assign) and isinstance(n.orelse[0], ast.Assign) \
                and len(n.body[0].targets) == 1 and isinstance(n.body[0].targets[0], ast.Name) \
                and ast.dump(n.body[0].targets[0]) == ast.dump(n.orelse[0].targets[0]):
            return ast.copy_location(ast.Assign(targets=n.body[0].targets,
                                                value=ast.IfExp(test=n.test, body=n.body[0].value, orelse=n.orelse[0].value)), n)
        # if a: if b: S   (no else anywhere)  ->  if a and b: S
        if not n.orelse and len(n.body) == 1 and isinstance(n.body[0], ast.If) and not n.body[0].orelse:
            inner = n.body[0]
            vals = (n.test.values if isinstance(n.test, ast.BoolOp) and isinstance(n.test.op, ast.And) else [n.test]) + \
                   (inner.test.values if isinstance(inner.test, ast.BoolOp) and isinstance(inner.test.op, ast.And) else [inner.test])
            return ast.copy_location(ast.If(test=ast.BoolOp(op=ast.And(), values=vals), body=inner.body, orelse=[]), n)
        return n

    def visit_While(self, n):
        self.generic_visit(n)
        n.test = _truth(n.test)
        return n

    def visit_BoolOp(self, n):
        self.generic_visit(n)
        # True and X -> X ; False or X -> X (only for operands that are themselves boolean-valued, so the VALUE is the same)
        unit = isinstance(n.op, ast.And)
        vals = [v for v in n.values if not _is_const(v, unit)]
        if len(vals) != len(n.values) and vals and all(_boolish(v) for v in vals):
            if len(vals) == 1:
                return vals[0]
            n.values = vals
        return n

    def visit_BinOp(self, n):
        self.generic_visit(n)
        # x + (-c) -> x - c for a numeric constant c (exact for ints, floats and arrays alike)
        if isinstance(n.op, (ast.Add, ast.Sub)):
            r = n.right
            if isinstance(r, ast.UnaryOp) and isinstance(r.op, ast.USub) and isinstance(r.operand, ast.Constant) \
                    and isinstance(r.operand.value, (int, float)) and not isinstance(r.operand.value, bool):
                n.op = ast.Sub() if isinstance(n.op, ast.Add) else ast.Add()
                n.right = r.operand
            elif isinstance(r, ast.Constant) and isinstance(r.value, (int, float)) and not isinstance(r.value, bool) and r.value < 0:
                n.op = ast.Sub() if isinstance(n.op, ast.Add) else ast.Add()
                n.right = ast.Constant(-r.value)
        return n

    def visit_Compare(self, n):
        self.generic_visit(n)
        # None is None / None is not None (left behind by inlining a helper called with a literal None)
        if len(n.ops) == 1 and isinstance(n.ops[0], (ast.Is, ast.IsNot)) and _is_const(n.left, None) and _is_const(n.comparators[0], None):
            return ast.copy_location(ast.Constant(isinstance(n.ops[0], ast.Is)), n)
        return n

    def visit_Lambda(self, n):
        self.generic_visit(n)
        # factories: lambda: [] -> list, lambda: {} -> dict, lambda: set() -> set, lambda: 0 -> int
        a = n.args
        if not (a.args or a.posonlyargs or a.kwonlyargs or a.vararg or a.kwarg):
            b = n.body
            if isinstance(b, ast.List) and not b.elts:
                return ast.copy_location(ast.Name(id="list", ctx=ast.Load()), n)
            if isinstance(b, ast.Dict) and not b.keys:
                return ast.copy_location(ast.Name(id="dict", ctx=ast.Load()), n)
            if isinstance(b, ast.Call) and isinstance(b.func, ast.Name) and b.func.id in ("set", "list", "dict") and not b.args and not b.keywords:
                return ast.copy_location(ast.Name(id=b.func.id, ctx=ast.Load()), n)
            if isinstance(b, ast.Constant) and b.value == 0 and isinstance(b.value, int) and not isinstance(b.value, bool):
                return ast.copy_location(ast.Name(id="int", ctx=ast.Load()), n)
        return n

    def visit_GeneratorExp(self, n):
        self.generic_visit(n)
        # networkx: (k for n, k in G.degree()) is dict(G.degree()).values() - the degrees in node order
        if len(n.generators) == 1:
            g = n.generators[0]
            if not g.ifs and not g.is_async and isinstance(g.target, ast.Tuple) and len(g.target.elts) == 2 \
                    and all(isinstance(x, ast.Name) for x in g.target.elts) and isinstance(n.elt, ast.Name) \
                    and n.elt.id == g.target.elts[1].id and g.target.elts[0].id != n.elt.id \
                    and isinstance(g.iter, ast.Call) and isinstance(g.iter.func, ast.Attribute) and g.iter.func.attr == "degree" \
                    and not g.iter.args and not g.iter.keywords:
                return ast.copy_location(ast.Call(func=ast.Attribute(value=ast.Call(func=ast.Name(id="dict", ctx=ast.Load()), args=[g.iter],
                                                                                     keywords=[]), attr="values", ctx=ast.Load()),
                                                  args=[], keywords=[]), n)
        return n

    def visit_ListComp(self, n):
        self.generic_visit(n)
        # [e(x) for x in (a, b, c)] -> [e(a), e(b), e(c)]
        if len(n.generators) == 1:
            g = n.generators[0]
            if not g.ifs and not g.is_async and isinstance(g.target, ast.Name) and _simple_tuple(g.iter) \
                    and all(isinstance(x, (ast.Name, ast.Constant)) for x in g.iter.elts) \
                    and not any(isinstance(z, (ast.Lambda, ast.GeneratorExp, ast.ListComp, ast.SetComp, ast.DictComp, ast.NamedExpr))
                                for z in ast.walk(n.elt)):
                return ast.copy_location(ast.List(elts=[_Subst({g.target.id: x}).visit(copy.deepcopy(n.elt)) for x in g.iter.elts],
                                                  ctx=ast.Load()), n)
        return n

    def visit_Subscript(self, n):
        self.generic_visit(n)
        m = _project_tuple(n)
        if m is not n:
            return m
        # list(X)[0] -> next(iter(X))   (first element in iteration order)
        if isinstance(n.ctx, ast.Load) and isinstance(n.slice, ast.Constant) and n.slice.value == 0 and isinstance(n.value, ast.Call) \
                and isinstance(n.value.func, ast.Name) and n.value.func.id in ("list", "tuple") and len(n.value.args) == 1 and not n.value.keywords:
            return ast.copy_location(ast.Call(func=ast.Name(id="next", ctx=ast.Load()), args=[
                ast.Call(func=ast.Name(id="iter", ctx=ast.Load()), args=[n.value.args[0]], keywords=[])], keywords=[]), n)
        return n

    def visit_Call(self, n):
        self.generic_visit(n)
        # iterating a mapping is iterating its keys: max(d.keys()) -> max(d), likewise min / sorted / list / set / len / ...
        if isinstance(n.func, ast.Name) and n.func.id in ("max", "min", "sorted", "list", "set", "tuple", "len", "iter", "sum", "any", "all",
                                                          "enumerate", "frozenset") and len(n.args) >= 1 \
                and isinstance(n.args[0], ast.Call) and isinstance(n.args[0].func, ast.Attribute) and n.args[0].func.attr == "keys" \
                and not n.args[0].args and not n.args[0].keywords:
            n.args[0] = n.args[0].func.value
        # random.sample(population, k=n) -> random.sample(population, n)
        if _chain(n.func) == "random.sample" and len(n.args) == 1 and len(n.keywords) == 1 and n.keywords[0].arg == "k":
            n.args.append(n.keywords[0].value)
            n.keywords = []
        # networkx: G.has_node(x) is `x in G` (both are `x in G._node` with unhashable x giving False)
        if isinstance(n.func, ast.Attribute) and n.func.attr == "has_node" and len(n.args) == 1 and not n.keywords \
                and not isinstance(n.args[0], ast.Starred):
            return ast.copy_location(ast.Compare(left=n.args[0], ops=[ast.In()], comparators=[n.func.value]), n)
        # tuple(e(x) for x in (a, b, c)) -> (e(a), e(b), e(c)); the same for list(...)
        if isinstance(n.func, ast.Name) and n.func.id in ("tuple", "list") and len(n.args) == 1 and not n.keywords \
                and isinstance(n.args[0], (ast.GeneratorExp, ast.ListComp)) and len(n.args[0].generators) == 1:
            g = n.args[0].generators[0]
            if not g.ifs and not g.is_async and isinstance(g.target, ast.Name) and _simple_tuple(g.iter) \
                    and all(isinstance(x, (ast.Name, ast.Constant)) for x in g.iter.elts) \
                    and not any(isinstance(z, (ast.Lambda, ast.GeneratorExp, ast.ListComp, ast.SetComp, ast.DictComp, ast.NamedExpr))
                                for z in ast.walk(n.args[0].elt)):
                elts = [_Subst({g.target.id: x}).visit(copy.deepcopy(n.args[0].elt)) for x in g.iter.elts]
                cls_ = ast.Tuple if n.func.id == "tuple" else ast.List
                return ast.copy_location(cls_(elts=elts, ctx=ast.Load()), n)
        # f(a, **dict(k=v, ...)) -> f(a, k=v, ...)
        if any(k.arg is None and isinstance(k.value, ast.Call) and isinstance(k.value.func, ast.Name) and k.value.func.id == "dict"
               and not k.value.args and all(z.arg is not None for z in k.value.keywords) for k in n.keywords):
            new = []
            for k in n.keywords:
                if k.arg is None and isinstance(k.value, ast.Call) and isinstance(k.value.func, ast.Name) and k.value.func.id == "dict" \
                        and not k.value.args and all(z.arg is not None for z in k.value.keywords):
                    new.extend(k.value.keywords)
                else:
                    new.append(k)
            if len({z.arg for z in new if z.arg is not None}) == len([z for z in new if z.arg is not None]):
                n.keywords = new
        # len([e for ...]) -> sum(1 for ...)   (e pure: it is not evaluated in the second form)
        if isinstance(n.func, ast.Name) and n.func.id == "len" and len(n.args) == 1 and isinstance(n.args[0], ast.ListComp) \
                and is_pure(n.args[0].elt):
            return ast.copy_location(ast.Call(func=ast.Name(id="sum", ctx=ast.Load()), args=[
                ast.GeneratorExp(elt=ast.Constant(1), generators=n.args[0].generators)], keywords=[]), n)
        # networkx: G.order() == G.number_of_nodes() == len(G)
        if isinstance(n.func, ast.Attribute) and n.func.attr in ("order", "number_of_nodes") and not n.args and not n.keywords:
            return ast.copy_location(ast.Call(func=ast.Name(id="len", ctx=ast.Load()), args=[n.func.value], keywords=[]), n)
        # map(f, X) -> (f(v) for v in X)    (both lazy, same order)
        if isinstance(n.func, ast.Name) and n.func.id == "map" and len(n.args) == 2 and not n.keywords \
                and isinstance(n.args[0], (ast.Name, ast.Attribute)):
            _cv_counter[0] += 1
            v = "__m%d" % _cv_counter[0]
            return ast.copy_location(ast.GeneratorExp(
                elt=ast.Call(func=n.args[0], args=[ast.Name(id=v, ctx=ast.Load())], keywords=[]),
                generators=[ast.comprehension(target=ast.Name(id=v, ctx=ast.Store()), iter=n.args[1], ifs=[], is_async=0)]), n)
        # sorted(list(X)) / sorted(tuple(X)) -> sorted(X); likewise set, frozenset, sum, min, max, len over list(X)/tuple(X)
        if isinstance(n.func, ast.Name) and n.func.id in ("sorted", "set", "frozenset", "sum", "min", "max", "list", "tuple") \
                and len(n.args) == 1 and not n.keywords and isinstance(n.args[0], ast.Call) and isinstance(n.args[0].func, ast.Name) \
                and n.args[0].func.id in ("list", "tuple") and len(n.args[0].args) == 1 and not n.args[0].keywords:
            n.args = [n.args[0].args[0]]
        return n

    def visit_IfExp(self, n):
        self.generic_visit(n)
        # f(.., p=True, ..) if c else f(.., p=False, ..)   ->   f(.., p=c, ..)      (c a boolean-valued test)
        a, b = n.body, n.orelse
        if _boolish(n.test) and isinstance(a, ast.Call) and isinstance(b, ast.Call) and ast.dump(a.func) == ast.dump(b.func):
            name = a.func.id if isinstance(a.func, ast.Name) else (a.func.attr if isinstance(a.func, ast.Attribute) and isinstance(a.func.value, ast.Name) and a.func.value.id == "EoN" else None)
            sig = SIGNATURES[0].get(name)
            if sig is not None:
                ma, mb = _bind_sig(sig, a), _bind_sig(sig, b)
                if ma is not None and mb is not None:
                    diff = [p for p in sig[0] if ast.dump(ma[p]) != ast.dump(mb[p])]
                    if len(diff) == 1 and all(is_pure(v) for v in list(ma.values()) + list(mb.values())):
                        p = diff[0]
                        if _is_const(ma[p], True) and _is_const(mb[p], False):
                            ma[p] = n.test
                        elif _is_const(ma[p], False) and _is_const(mb[p], True):
                            ma[p] = negate(n.test)
                        else:
                            return n
                        last = max(i for i, q in enumerate(sig[0]) if q not in sig[1] or ast.dump(ma[q]) != ast.dump(sig[1][q]))
                        return ast.copy_location(ast.Call(func=a.func, args=[ma[q] for q in sig[0][:last + 1]], keywords=[]), n)
        return n

    def visit_For(self, n):
        self.generic_visit(n)
        if isinstance(n.iter, ast.Call) and isinstance(n.iter.func, ast.Attribute) and n.iter.func.attr == "keys" and not n.iter.args:
            n.iter = n.iter.func.value
        return n

    def visit_comprehension(self, n):
        self.generic_visit(n)
        if isinstance(n.iter, ast.Call) and isinstance(n.iter.func, ast.Attribute) and n.iter.func.attr == "keys" and not n.iter.args:
            n.iter = n.iter.func.value
        return n


SIGNATURES = [{}]      # callable name -> ([positional parameter names], {name: default expression}) of the tree being canonicalised


def signatures_of(trees):
    out = {}
    for t in trees.values():
        for st in t.body:
            fn = None
            skip = 0
            if isinstance(st, ast.FunctionDef):
                fn = st
            elif isinstance(st, ast.ClassDef):
                for b in st.body:
                    if isinstance(b, ast.FunctionDef) and b.name == "__init__":
                        fn, skip = b, 1
            if fn is None or fn.args.vararg or fn.args.kwarg or fn.args.kwonlyargs:
                continue
            ps = [x.arg for x in fn.args.posonlyargs + fn.args.args]
            d = dict(zip(ps[len(ps) - len(fn.args.defaults):], fn.args.defaults))
            ps = ps[skip:]
            if st.name not in out:
                out[st.name] = (ps, d)
    out["\0pure"] = argument_pure_functions(trees)
    out["\0shallow"] = shallow_methods(trees)
    return out


def shallow_methods(trees):
    """Names of methods of package classes that change nothing but the receiver's own structures: every store is rooted at
    `self` or a local, every call is harmless, a known container mutator on something rooted at `self`, or another such
    method of `self` (fixpoint).  `X.update_total_weight()` is then an effect on X alone - not on the nodes X holds.  A name
    counts only if every package class that defines it agrees."""
    from .flow import MUTATORS
    classes = [st for t in trees.values() for st in t.body if isinstance(st, ast.ClassDef)]
    good = {}
    for c in classes:
        ms = {b.name: b for b in c.body if isinstance(b, ast.FunctionDef) and not b.decorator_list
              and b.args.args and b.args.args[0].arg == "self"}
        ok = set(ms)
        changed = True

        def root(e):
            while isinstance(e, (ast.Attribute, ast.Subscript, ast.Starred)):
                e = e.value
            return e.id if isinstance(e, ast.Name) else None
        while changed:
            changed = False
            for nm in sorted(ok):
                b = ms[nm]
                params = {a.arg for a in b.args.posonlyargs + b.args.args + b.args.kwonlyargs} - {"self"}
                fine = True
                for n in ast.walk(b):
                    if isinstance(n, (ast.Global, ast.Nonlocal, ast.Yield, ast.YieldFrom, ast.Lambda)) or (isinstance(n, ast.FunctionDef) and n is not b):
                        fine = False
                    elif isinstance(n, (ast.Assign, ast.AugAssign, ast.AnnAssign, ast.Delete, ast.For)):
                        tg = n.targets if isinstance(n, (ast.Assign, ast.Delete)) else [n.target]
                        for t_ in tg:
                            for x in (t_.elts if isinstance(t_, (ast.Tuple, ast.List)) else [t_]):
                                if isinstance(x, ast.Name):
                                    continue
                                if root(x) != "self":
                                    fine = False
                    elif isinstance(n, ast.Call):
                        ch = _chain(n.func) or ""
                        meth = n.func.attr if isinstance(n.func, ast.Attribute) else None
                        if meth is not None and isinstance(n.func.value, ast.Name) and n.func.value.id == "self" and meth in ms:
                            if meth not in ok:
                                fine = False
                            continue
                        if meth is not None and meth in MUTATORS:
                            if root(n.func.value) != "self":
                                fine = False
                            continue
                        harmless = ch in PURE_FUNCS or ch in IMMUTABLE_FUNCS or (ch.startswith(PURE_PREFIX) and not ch.startswith(IMPURE_PREFIX)) \
                            or ch.startswith(IMPURE_PREFIX) or (meth is not None and meth in PURE_METHODS | IMMUTABLE_METHODS | {"format"}) \
                            or ch in ("EoN.EoNError", "EoNError", "Exception", "TypeError", "ValueError", "print", "KeyError", "IndexError")
                        if not harmless:
                            fine = False
                if not fine:
                    ok.discard(nm)
                    changed = True
        for nm in ms:
            good.setdefault(nm, []).append(nm in ok)
    return {nm for nm, v in good.items() if all(v) and not nm.startswith("__")}


def argument_pure_functions(trees):
    """Module-level functions of the package whose CALL changes nothing the caller can see: their own statements (the
    bodies of nested functions and lambdas, which a call only creates, left out) bind local names and call harmless
    functions only.  EoN._get_rate_functions_ is the instance: it returns two closures over its arguments."""
    out = set()
    saved, SIGNATURES[0] = SIGNATURES[0], {}       # the inference itself knows no pure package function
    try:
        _argument_pure(trees, out)
    finally:
        SIGNATURES[0] = saved
    return out


def _argument_pure(trees, out):
    for t in trees.values():
        for st in t.body:
            if not (isinstance(st, ast.FunctionDef) and not st.decorator_list):
                continue
            f = copy.deepcopy(st)
            for n in ast.walk(f):
                if isinstance(n, ast.FunctionDef) and n is not f:
                    n.body = [ast.Pass()]
                    n.decorator_list = []
                elif isinstance(n, ast.Lambda):
                    n.body = ast.Constant(None)
            if any(isinstance(n, (ast.Global, ast.Nonlocal, ast.Yield, ast.YieldFrom, ast.Await, ast.With, ast.Delete, ast.NamedExpr,
                                  ast.ListComp, ast.SetComp, ast.DictComp, ast.GeneratorExp)) for n in ast.walk(f)):
                continue
            if any(isinstance(a.annotation, ast.AST) for a in f.args.args if a.annotation is not None):
                continue
            defaults_ok = all(isinstance(d, ast.Constant) for d in list(f.args.defaults) + [k for k in f.args.kw_defaults if k is not None])
            if defaults_ok and all(kind == "bind" for kind, pay in _mutations(f)):
                out.add(st.name)
    return out


def _bind_sig(sig, call):
    ps, d = sig
    if any(isinstance(x, ast.Starred) for x in call.args) or any(k.arg is None for k in call.keywords) or len(call.args) > len(ps):
        return None
    m = dict(zip(ps, call.args))
    for k in call.keywords:
        if k.arg in m or k.arg not in ps:
            return None
        m[k.arg] = k.value
    for p in ps:
        if p not in m:
            if p not in d:
                return None
            m[p] = d[p]
    return m


def _is_const(e, v):
    return isinstance(e, ast.Constant) and e.value is v


def _has_self_leaf(v, x):
    if isinstance(v, ast.IfExp):
        return _has_self_leaf(v.body, x) or _has_self_leaf(v.orelse, x)
    return isinstance(v, ast.Name) and v.id == x


def _ifexp_to_stmts(x, v):
    if isinstance(v, ast.Name) and v.id == x:
        return []
    if isinstance(v, ast.IfExp) and _has_self_leaf(v, x):
        a, b = _ifexp_to_stmts(x, v.body), _ifexp_to_stmts(x, v.orelse)
        if not a and not b:
            return []
        if not a:
            return [ast.If(test=negate(v.test), body=b, orelse=[])]
        return [ast.If(test=v.test, body=a, orelse=b)]
    return [ast.Assign(targets=[ast.Name(id=x, ctx=ast.Store())], value=v)]


def _boolish(e):
    if isinstance(e, ast.Compare):
        return True
    if isinstance(e, ast.UnaryOp) and isinstance(e.op, ast.Not):
        return True
    if isinstance(e, ast.BoolOp):
        return all(_boolish(v) for v in e.values)
    return False


def _truth(e):
    """Canonical spelling of an expression used as a truth value."""
    if isinstance(e, ast.Call) and isinstance(e.func, ast.Name) and e.func.id == "bool" and len(e.args) == 1 and not e.keywords \
            and not isinstance(e.args[0], ast.Starred):
        return _truth(e.args[0])
    if isinstance(e, ast.BoolOp):
        e.values = [_truth(v) for v in e.values]
        return e
    if isinstance(e, ast.UnaryOp) and isinstance(e.op, ast.Not):
        e.operand = _truth(e.operand)
        if isinstance(e.operand, ast.UnaryOp) and isinstance(e.operand.op, ast.Not):
            return e.operand.operand
        return e
    if isinstance(e, ast.Compare) and len(e.ops) == 1 and isinstance(e.left, ast.Call) and _chain(e.left.func) == "len" \
            and len(e.left.args) == 1 and isinstance(e.comparators[0], ast.Constant) and e.comparators[0].value == 0:
        x = e.left.args[0]
        if isinstance(e.ops[0], ast.Eq):
            return ast.UnaryOp(op=ast.Not(), operand=x)
        if isinstance(e.ops[0], (ast.Gt, ast.NotEq)):
            return x
    return e


def control_flow(fn):
    """C4 on every function scope below fn."""
    for f in [n for n in ast.walk(fn) if isinstance(n, ast.FunctionDef)]:
        for _ in range(8):
            a = _tail_into_breaks(f) | _continue_guards(f) | _counter_loops(f)
            b = _orient(f)
            _flatten_else(f)
            c = _orient_exits(f)
            d = _hoist_common(f) | _merge_tail_returns(f) | _sink_common_store(f)
            if not (a or b or c or d):
                break
        _guard_to_nested(f)


def _continue_guards(scope):
    """In a block in tail position of a loop body (the body itself, or an arm of an `if` that ends such a block):
    `if c: A; continue` followed by rest  ->  `if c: A else: rest`; a trailing `continue` is dropped."""
    changed = False

    def process(block):
        nonlocal changed
        again = True
        while again:
            again = False
            if len(block) > 1 and isinstance(block[-1], ast.Continue):
                block.pop()
                changed = again = True
                continue
            for i, st in enumerate(block):
                if isinstance(st, ast.If) and not st.orelse and st.body and isinstance(st.body[-1], ast.Continue) and block[i + 1:]:
                    rest = block[i + 1:]
                    head = st.body[:-1]
                    if head:
                        new = ast.copy_location(ast.If(test=st.test, body=head, orelse=rest), st)
                    else:
                        new = ast.copy_location(ast.If(test=negate(st.test), body=rest, orelse=[]), st)
                    block[i:] = [new]
                    changed = again = True
                    break
        if block and isinstance(block[-1], ast.If):
            process(block[-1].body)
            if block[-1].orelse:
                process(block[-1].orelse)
    for loop in [n for n in ast.walk(scope) if isinstance(n, (ast.For, ast.While))]:
        process(loop.body)
    return changed


def _counter_loops(scope):
    """`i = 0 ... while i < N: B; i += 1`  ->  `for i in range(N): B`   when i is only changed by that one increment (at the
    top level of the body, with no read of i after it in the body), the body has no `continue`/`break`, N (`len(X)` or a
    name) is not changed in the body, and i is not read after the loop."""
    changed = False
    for owner, fld in _scope_blocks(scope):
        body = getattr(owner, fld)
        for k, w in enumerate(body):
            if not (isinstance(w, ast.While) and not w.orelse and isinstance(w.test, ast.Compare) and len(w.test.ops) == 1
                    and isinstance(w.test.ops[0], ast.Lt) and isinstance(w.test.left, ast.Name)):
                continue
            i = w.test.left.id
            bound = w.test.comparators[0]
            if not (isinstance(bound, ast.Name) or (isinstance(bound, ast.Call) and _chain(bound.func) == "len" and len(bound.args) == 1
                                                    and isinstance(bound.args[0], ast.Name))):
                continue
            incs = [j for j, st in enumerate(w.body) if isinstance(st, ast.AugAssign) and isinstance(st.target, ast.Name) and st.target.id == i
                    and isinstance(st.op, ast.Add) and _is_const_int(st.value, 1)]
            if len(incs) != 1:
                continue
            j = incs[0]
            stores_i = [n for n in _scope_nodes(scope) if isinstance(n, ast.Name) and n.id == i and isinstance(n.ctx, (ast.Store, ast.Del))]
            inits = [st for st in body[:k] if isinstance(st, ast.Assign) and len(st.targets) == 1 and isinstance(st.targets[0], ast.Name)
                     and st.targets[0].id == i and _is_const_int(st.value, 0)]
            if len(stores_i) != 2 or len(inits) != 1:
                continue
            init_at = body.index(inits[0])
            if any(isinstance(n, ast.Name) and n.id == i for st in body[init_at + 1:k] for n in ast.walk(st)):
                continue
            if any(isinstance(n, (ast.Continue, ast.Break, ast.Return)) for st in w.body for n in ast.walk(st)):
                continue
            if any(isinstance(n, ast.Name) and n.id == i for st in w.body[j + 1:] for n in ast.walk(st)):
                continue
            if any(isinstance(n, ast.Name) and n.id == i for st in body[k + 1:] for n in ast.walk(st)):
                continue
            bn = bound.id if isinstance(bound, ast.Name) else bound.args[0].id
            if _invalidates(_mutations(ast.Module(body=w.body, type_ignores=[])), bound, "\0") or bn == i:
                continue
            new_body = w.body[:j] + w.body[j + 1:]
            body[k] = ast.copy_location(ast.For(target=ast.Name(id=i, ctx=ast.Store()),
                                                iter=ast.Call(func=ast.Name(id="range", ctx=ast.Load()), args=[bound], keywords=[]),
                                                body=new_body or [ast.Pass()], orelse=[], type_comment=None), w)
            changed = True
    return changed


def _is_const_int(e, v):
    return isinstance(e, ast.Constant) and isinstance(e.value, int) and not isinstance(e.value, bool) and e.value == v


def _positive(test):
    """Is `test` the canonical one of (test, not test)?  (the one whose dump sorts first; `not X` never does)"""
    return ast.dump(test) <= ast.dump(negate(test))


def _orient(scope):
    """`if c: A else: B(exits)` -> `if not c: B else: A`; an if/else neither arm of which exits is oriented so that its
    test is positive."""
    changed = False
    for n in ast.walk(scope):
        if isinstance(n, ast.If) and n.orelse:
            eb, eo = exits(n.body), exits(n.orelse)
            if (eo and not eb) or (eb == eo and not _positive(n.test)):
                n.test = negate(n.test)
                n.body, n.orelse = n.orelse, n.body
                changed = True
    return changed


def _orient_exits(scope):
    """`if c: A(exits)` followed by a rest that exits too is a two-armed choice: orient it on the positive test."""
    changed = False
    again = True
    while again:
        again = False
        for owner, fld in _blocks_of(scope):
            body = getattr(owner, fld)
            for i, st in enumerate(body):
                rest = body[i + 1:]
                if isinstance(st, ast.If) and not st.orelse and rest and exits(st.body) and exits(rest) and not _positive(st.test):
                    new = ast.copy_location(ast.If(test=negate(st.test), body=rest, orelse=[]), st)
                    setattr(owner, fld, body[:i] + [new] + st.body)
                    changed = again = True
                    break
            if again:
                break
    return changed


def _tail_into_breaks(scope):
    """`loop: ... break ...` followed by `return e`: every break of that loop becomes `return e` (the value is computed at
    the same point); statements after a `while True` that has no break left are unreachable and dropped."""
    changed = False
    for owner, fld in _blocks_of(scope):
        body = getattr(owner, fld)
        for i, st in enumerate(body):
            if isinstance(st, (ast.While, ast.For)) and not st.orelse and i + 1 < len(body) and isinstance(body[i + 1], ast.Return):
                brs = _own_breaks(st)
                if brs:
                    ret = body[i + 1]
                    for b_owner, b_fld in _blocks_of(st):
                        bb = getattr(b_owner, b_fld)
                        for k, x in enumerate(bb):
                            if any(x is y for y in brs):
                                bb[k] = ast.copy_location(copy.deepcopy(ret), x)
                    changed = True
            if isinstance(st, ast.While) and exits([st]) and i + 1 < len(body):
                del body[i + 1:]
                changed = True
                break
    return changed


def _fix_empty(body, i):
    """body[i] is an If (pure test) one or both of whose arms may have become empty."""
    st = body[i]
    if not st.body and not st.orelse:
        del body[i]
    elif not st.body:
        st.test = negate(st.test)
        st.body, st.orelse = st.orelse, []


_ss_counter = [0]


def _sink_common_store(scope):
    """An if / elif chain every arm of which either leaves (raise / return) or ends with a store into the SAME slot
    `B[k] = e_i`: the arms bind a temporary and the store is written once after the chain."""
    changed = False
    for owner, fld in _scope_blocks(scope):
        body = getattr(owner, fld)
        for i, st in enumerate(body):
            if not isinstance(st, ast.If) or not st.orelse:
                continue
            arms = []
            node = st
            while True:
                arms.append(node.body)
                if len(node.orelse) == 1 and isinstance(node.orelse[0], ast.If):
                    node = node.orelse[0]
                else:
                    arms.append(node.orelse)
                    break
            stores = []
            ok = True
            for a in arms:
                if not a:
                    ok = False
                    break
                last = a[-1]
                if isinstance(last, ast.Assign) and len(last.targets) == 1 and isinstance(last.targets[0], ast.Subscript) \
                        and isinstance(last.targets[0].value, ast.Name) and isinstance(last.targets[0].slice, ast.Name):
                    stores.append(last)
                elif exits(a) and isinstance(last, (ast.Raise, ast.Return)):
                    continue
                else:
                    ok = False
                    break
            if not ok or len(stores) < 2 or len({ast.dump(x.targets[0]) for x in stores}) != 1:
                continue
            tgt = stores[0].targets[0]
            names = {tgt.value.id, tgt.slice.id}
            if any(isinstance(n, ast.Name) and n.id in names and isinstance(n.ctx, (ast.Store, ast.Del)) for a in arms for z in a for n in ast.walk(z)):
                continue
            _ss_counter[0] += 1
            tmp = "__ss%d" % _ss_counter[0]
            for x in stores:
                x.targets = [ast.Name(id=tmp, ctx=ast.Store())]
            body.insert(i + 1, ast.copy_location(ast.Assign(targets=[copy.deepcopy(tgt)], value=ast.Name(id=tmp, ctx=ast.Load())), st))
            changed = True
            break
    return changed


def _merge_tail_returns(scope):
    """`if c: A; return e` followed by `B; return e` (the same expression, evaluated last in both)  ->
    `if c: A else: B` followed by `return e`."""
    changed = False
    for owner, fld in _scope_blocks(scope):
        body = getattr(owner, fld)
        for i, st in enumerate(body):
            rest = body[i + 1:]
            if isinstance(st, ast.If) and not st.orelse and len(st.body) > 1 and isinstance(st.body[-1], ast.Return) and rest \
                    and isinstance(rest[-1], ast.Return) and len(rest) > 1 \
                    and ast.dump(st.body[-1]) == ast.dump(rest[-1]) \
                    and not any(isinstance(n, (ast.Return, ast.Break, ast.Continue)) for z in st.body[:-1] + rest[:-1] for n in ast.walk(z)):
                ret = rest[-1]
                new = ast.copy_location(ast.If(test=st.test, body=st.body[:-1], orelse=rest[:-1]), st)
                body[i:] = [new, ret]
                changed = True
                break
    return changed


def _hoist_common(scope):
    """`if c: S; A else: S; B` -> `S; if c: A else: B` when c is pure and S cannot change c (and the same for a common
    last statement)."""
    changed = False
    again = True
    while again:
        again = False
        for owner, fld in _blocks_of(scope):
            body = getattr(owner, fld)
            for i, st in enumerate(body):
                if isinstance(st, ast.If) and st.body and not st.orelse and is_pure(st.test) and exits(st.body) and len(st.body) > 1 \
                        and i + 1 < len(body):
                    # the same with the else-arm already flattened: `if c: S; A(exits)` followed by `S; B`
                    a, b = st.body[0], body[i + 1]
                    if isinstance(a, (ast.Assign, ast.AugAssign, ast.Expr)) and ast.dump(a) == ast.dump(b) \
                            and not _invalidates(_mutations(a), st.test, "?"):
                        st.body.pop(0)
                        body.pop(i + 1)
                        body.insert(i, a)
                        changed = again = True
                        break
                if not (isinstance(st, ast.If) and st.body and st.orelse and is_pure(st.test)):
                    continue
                a, b = st.body[0], st.orelse[0]
                if isinstance(a, (ast.Assign, ast.AugAssign, ast.Expr)) \
                        and ast.dump(a) == ast.dump(b) and not _invalidates(_mutations(a), st.test, "?"):
                    st.body.pop(0)
                    st.orelse.pop(0)
                    body.insert(i, a)
                    _fix_empty(body, i + 1)
                    changed = again = True
                    break
                a, b = st.body[-1], st.orelse[-1]
                if isinstance(a, (ast.Assign, ast.AugAssign, ast.Expr)) and ast.dump(a) == ast.dump(b):
                    st.body.pop()
                    st.orelse.pop()
                    body.insert(i + 1, a)
                    _fix_empty(body, i)
                    changed = again = True
                    break
            if again:
                break
    return changed


def _flatten_else(scope):
    changed = True
    while changed:
        changed = False
        for owner, fld in _blocks_of(scope):
            body = getattr(owner, fld)
            new = []
            for st in body:
                if isinstance(st, ast.If) and st.orelse and exits(st.body) and not (len(st.orelse) == 1 and isinstance(st.orelse[0], ast.If) and False):
                    tail = st.orelse
                    st.orelse = []
                    new.append(st)
                    new.extend(tail)
                    changed = True
                else:
                    new.append(st)
            setattr(owner, fld, new)


def _guard_to_nested(f):
    # only when the function never returns a value
    for n in _scope_nodes(f):
        if isinstance(n, ast.Return) and n.value is not None and not (isinstance(n.value, ast.Constant) and n.value.value is None):
            return
    body = f.body
    i = 0
    while i < len(body):
        st = body[i]
        if isinstance(st, ast.If) and not st.orelse and len(st.body) == 1 and isinstance(st.body[0], ast.Return) and body[i + 1:]:
            rest = body[i + 1:]
            del body[i:]
            body.append(ast.If(test=negate(st.test), body=rest, orelse=[]))
            body = rest
            i = 0
            continue
        i += 1
    # trailing bare return
    for owner, fld in _blocks_of(f):
        b = getattr(owner, fld)
        if owner is f and b and isinstance(b[-1], ast.Return) and b[-1].value is None and len(b) > 1:
            b.pop()


def _scope_blocks(scope):
    """(owner, field) of every statement list that belongs to the function `scope` itself (not to nested functions)."""
    out = [(scope, "body")]
    stack = list(scope.body)
    while stack:
        n = stack.pop()
        if isinstance(n, (ast.FunctionDef, ast.AsyncFunctionDef, ast.ClassDef, ast.Lambda)):
            continue
        for fld in ("body", "orelse", "finalbody"):
            b = getattr(n, fld, None)
            if isinstance(b, list) and b and isinstance(b[0], ast.stmt):
                out.append((n, fld))
        if isinstance(n, ast.Try):
            for h in n.handlers:
                out.append((h, "body"))
        stack.extend(ast.iter_child_nodes(n))
    return out


def _owner_function(root, node):
    best = root
    for fn in ast.walk(root):
        if isinstance(fn, (ast.FunctionDef, ast.Lambda)) and fn is not root:
            if any(x is node for x in ast.walk(fn)):
                best = fn
    return best


# ---------------------------------------------------------------------------------------------------- C6
def _stores(node):
    """Base names that `node` may rebind or mutate (deep)."""
    from .flow import _assigned_names
    out = set()
    for p in _assigned_names(node):
        out.add(p.split(".")[0])
    # anything handed to (or receiving) a call that is not known to be harmless may be mutated
    for n in ast.walk(node):
        if isinstance(n, ast.Call):
            ch = _chain(n.func) or ""
            meth = n.func.attr if isinstance(n.func, ast.Attribute) else None
            pure_pkg = SIGNATURES[0].get("\0pure", ()) if isinstance(SIGNATURES[0], dict) else ()
            harmless = (ch in pure_pkg or (ch.startswith("EoN.") and ch[4:] in pure_pkg)) or \
                ch in PURE_FUNCS or (ch.startswith(PURE_PREFIX) and not ch.startswith(IMPURE_PREFIX)) or \
                ch.startswith(IMPURE_PREFIX) or \
                (meth is not None and meth in PURE_METHODS | {"add", "append", "choose_random", "format", "EoNError"}) or \
                ch in ("EoN.EoNError", "EoNError", "Exception", "TypeError", "ValueError", "print")
            if not harmless:
                for a in list(n.args) + [k.value for k in n.keywords]:
                    for m in ast.walk(a):
                        if isinstance(m, ast.Name):
                            out.add(m.id)
                if meth is not None:
                    b = n.func.value
                    while isinstance(b, (ast.Attribute, ast.Subscript)):
                        b = b.value
                    if isinstance(b, ast.Name):
                        out.add(b.id)
    return out


def _names(e):
    return {n.id for n in ast.walk(e) if isinstance(n, ast.Name)}


def _scope_nodes(scope):
    stack = list(scope.body)
    while stack:
        n = stack.pop()
        yield n
        if isinstance(n, (ast.FunctionDef, ast.ClassDef, ast.Lambda)):
            continue
        stack.extend(ast.iter_child_nodes(n))


def _path(e):
    """('a', '.b', '[k]') for chains of names / attributes / subscripts with name or constant indexes; else None."""
    toks = []
    while True:
        if isinstance(e, ast.Attribute):
            toks.append("." + e.attr)
            e = e.value
        elif isinstance(e, ast.Subscript):
            sl = e.slice
            if isinstance(sl, ast.Name):
                toks.append("[%s]" % sl.id)
            elif isinstance(sl, ast.Constant):
                toks.append("[%r]" % (sl.value,))
            else:
                return None
            e = e.value
        elif isinstance(e, ast.Name):
            toks.append(e.id)
            return tuple(reversed(toks))
        else:
            return None


def _index_names(path):
    out = set()
    for t in path[1:]:
        if t.startswith("[") and t[1:-1].isidentifier():
            out.add(t[1:-1])
    return out


def _mutations(node):
    """What `node` (deep) may change: list of (kind, payload)."""
    from .flow import MUTATORS
    out = []

    def tgt(t):
        if isinstance(t, ast.Name):
            out.append(("bind", t.id))
        elif isinstance(t, (ast.Tuple, ast.List)):
            for x in t.elts:
                tgt(x)
        elif isinstance(t, ast.Starred):
            tgt(t.value)
        elif isinstance(t, ast.Subscript):
            p = _path(t.value)
            sl = t.slice
            slot = "[%s]" % sl.id if isinstance(sl, ast.Name) else ("[%r]" % (sl.value,) if isinstance(sl, ast.Constant) else "[?]")
            if p is None:
                b = t
                while isinstance(b, (ast.Subscript, ast.Attribute)):
                    b = b.value
                out.append(("unknown", b.id if isinstance(b, ast.Name) else "?"))
            else:
                out.append(("slot", p + (slot,)))
        elif isinstance(t, ast.Attribute):
            p = _path(t.value)
            if p is None:
                out.append(("unknown", "?"))
            else:
                out.append(("slot", p + ("." + t.attr,)))

    for n in ast.walk(node):
        if isinstance(n, (ast.FunctionDef, ast.ClassDef)) and n is not node:
            out.append(("bind", n.name))
        if isinstance(n, ast.Assign):
            for t in n.targets:
                tgt(t)
        elif isinstance(n, (ast.AugAssign, ast.AnnAssign)):
            tgt(n.target)
        elif isinstance(n, (ast.For, ast.AsyncFor)):
            tgt(n.target)
        elif isinstance(n, ast.With):
            for it in n.items:
                if it.optional_vars is not None:
                    tgt(it.optional_vars)
        elif isinstance(n, ast.Delete):
            for t in n.targets:
                tgt(t)
        elif isinstance(n, ast.NamedExpr):
            tgt(n.target)
        elif isinstance(n, ast.Call):
            ch = _chain(n.func) or ""
            meth = n.func.attr if isinstance(n.func, ast.Attribute) else None
            shallow_pkg = SIGNATURES[0].get("\0shallow", ()) if isinstance(SIGNATURES[0], dict) else ()
            if meth is not None and (meth in MUTATORS or (meth in shallow_pkg and meth not in PURE_METHODS | {"choose_random", "format"})) \
                    and ch.split(".")[0] not in ("heapq", "random", "np", "nx", "numpy"):
                p = _path(n.func.value)
                if p is None:
                    b = n.func.value
                    while isinstance(b, (ast.Subscript, ast.Attribute, ast.Call)):
                        b = b.func if isinstance(b, ast.Call) else b.value
                    out.append(("unknown", b.id if isinstance(b, ast.Name) else "?"))
                else:
                    out.append(("call", p))
                continue
            pure_pkg = SIGNATURES[0].get("\0pure", ()) if isinstance(SIGNATURES[0], dict) else ()
            harmless = (ch in pure_pkg or (ch.startswith("EoN.") and ch[4:] in pure_pkg)) or \
                ch in PURE_FUNCS or (ch.startswith(PURE_PREFIX) and not ch.startswith(IMPURE_PREFIX)) or \
                ch.startswith(IMPURE_PREFIX) or (meth is not None and meth in PURE_METHODS | {"choose_random", "format"}) or \
                ch in ("EoN.EoNError", "EoNError", "Exception", "TypeError", "ValueError", "print")
            if not harmless:
                for a in list(n.args) + [k.value for k in n.keywords]:
                    for m in ast.walk(a):
                        if isinstance(m, ast.Name):
                            out.append(("unknown", m.id))
                if meth is not None:
                    b = n.func.value
                    while isinstance(b, (ast.Attribute, ast.Subscript)):
                        b = b.value
                    if isinstance(b, ast.Name):
                        out.append(("unknown", b.id))
    return out


_NONLOCAL = [False]   # the function in work declares nonlocal / global names
_ALIAS = [{}]      # name -> frozenset of local names that may denote (part of) the same object, for the function in work


def alias_classes(fn):
    """Names related by `a = b`, `a = b.attr`, `a = b[i]`, `a = b if c else d`, tuple unpacking of such, and `for a in b`
    (an element of b) may denote the same object or a part of it.  Parameters are taken to be distinct objects."""
    parent = {}

    def find(x):
        while parent.get(x, x) != x:
            parent[x] = parent.get(parent[x], parent[x])
            x = parent[x]
        return x

    def union(a, b):
        a, b = find(a), find(b)
        if a != b:
            parent[a] = b

    held = []

    def hold(cs, xs):
        for c in cs:
            for x in xs:
                held.append((c, x))

    def roots(e):
        if isinstance(e, ast.Name):
            return [e.id]
        if isinstance(e, (ast.Attribute, ast.Subscript, ast.Starred)):
            return roots(e.value)
        if isinstance(e, ast.IfExp):
            return roots(e.body) + roots(e.orelse)
        if isinstance(e, ast.BoolOp):
            return [r for v in e.values for r in roots(v)]
        if isinstance(e, (ast.Tuple, ast.List)):
            return [r for v in e.elts for r in roots(v)]
        if isinstance(e, ast.Call) and isinstance(e.func, ast.Attribute) and e.func.attr in ("get", "items", "values", "keys", "pop", "setdefault", "__getitem__"):
            return roots(e.func.value)
        if isinstance(e, ast.Call) and _chain(e.func) in ("iter", "next", "reversed", "enumerate", "zip", "sorted", "list", "tuple", "max", "min"):
            return [r for a in e.args for r in roots(a)]       # elements are shared
        return []
    def part_of(e):
        """e denotes something reached THROUGH its roots (an element, an attribute), never a root itself"""
        if isinstance(e, (ast.Attribute, ast.Subscript)):
            return True
        if isinstance(e, ast.Call):
            return True
        if isinstance(e, ast.IfExp):
            return part_of(e.body) and part_of(e.orelse)
        if isinstance(e, ast.BoolOp):
            return all(part_of(v) for v in e.values)
        return False
    for n in ast.walk(fn):
        tgts = val = None
        if isinstance(n, ast.Assign):
            tgts, val = n.targets, n.value
        elif isinstance(n, ast.For):
            tgts, val = [n.target], n.iter
        elif isinstance(n, ast.comprehension):
            tgts, val = [n.target], n.iter
        elif isinstance(n, ast.NamedExpr):
            tgts, val = [n.target], n.value
        elif isinstance(n, ast.withitem) and n.optional_vars is not None:
            tgts, val = [n.optional_vars], n.context_expr
        if tgts is None:
            if isinstance(n, ast.Call):
                # an object handed to a method that may keep it: Q.add(t, f, args=(times, S)) / L.append(x) / d.update(e) /
                # heappush(h, (t, x)).  The receiver then HOLDS the object (directed: the objects held do not hold each
                # other).  Free functions are trusted not to make one argument hold another (new helpers are inlined, so
                # their bodies are seen).
                ch = _chain(n.func) or ""
                meth = n.func.attr if isinstance(n.func, ast.Attribute) else None
                args = list(n.args) + [k.value for k in n.keywords]
                if ch in ("heapq.heappush", "heappush") and len(n.args) == 2:
                    hold(roots(n.args[0]), roots(n.args[1]))
                elif meth is not None and ch.split(".")[0] not in ("heapq", "random", "np", "nx", "numpy", "math", "scipy", "EoN"):
                    keeps = meth in ("add", "append", "insert", "update", "extend", "setdefault", "appendleft", "put", "push", "__setitem__")
                    known = meth in (PURE_METHODS | IMMUTABLE_METHODS | {"choose_random", "format", "remove", "discard", "pop", "random_removal",
                                                                      "clear", "sort", "reverse", "get", "items", "values", "keys", "copy"})
                    if keeps or not known:
                        hold(roots(n.func.value), [r for a in args for r in roots(a)])
            continue
        rs = roots(val)
        # `a = b`, `a = b if c else d`, displays: a may BE the object; `a = b[i]`, `a = b.attr`, `a = b.get(k)`, `for a in b`:
        # a is (at most) a PART of b - b holds a, and what happens to a does not change which object `b[i]` denotes
        part = isinstance(n, (ast.For, ast.comprehension)) or part_of(val)
        for t in tgts:
            for x in ast.walk(t):
                if isinstance(x, ast.Name) and isinstance(x.ctx, ast.Store):
                    if part:
                        hold(rs, [x.id])
                    else:
                        for r in rs:
                            union(x.id, r)
            if isinstance(t, (ast.Subscript, ast.Attribute)):
                hold(roots(t), rs)          # d[k] = v / obj.a = v: the container now holds v
    classes = {}
    for x in list(parent):
        r = find(x)
        classes.setdefault(r, set()).update((x, r))        # the representative belongs to its class as well
    out = {}
    for c in classes.values():
        fc = frozenset(c)
        for x in c:
            out[x] = fc
    holds = {}
    for a, b in held:
        if a != b:
            holds.setdefault(a, set()).add(b)
    out["\0holds"] = holds
    return out


def _aliased(name):
    return _ALIAS[0].get(name, (name,))


def _affected(kind, base, identity=False):
    """Names whose (deep) value an effect on the object called `base` may change (identity=True: names for which a
    path read `n[k]` / `n.a` may come to denote a different object - a change of the content of something n merely holds
    does not do that, so there is no upward step).
    bind: the name itself.  A shallow effect (a known mutator, a slot store): the names that may denote the object and, upwards,
    everything that holds it.  An unknown call: in addition everything the object holds, downwards (`Q.pop_and_run()` runs
    events that write the lists handed to `Q.add`), and the holders of that."""
    if kind == "bind":
        return {base}
    A = _ALIAS[0]
    holds = A.get("\0holds") or {}
    if not holds:
        return set(A.get(base, (base,)))

    def eq(n):
        return A.get(n, (n,))

    def up(start):
        out, work = set(start), list(start)
        while work:
            n = work.pop()
            for h, inner in holds.items():
                if n in inner:
                    for m in eq(h):
                        if m not in out:
                            out.add(m)
                            work.append(m)
        return out
    start = set(eq(base))
    if kind != "unknown":
        return start if identity else up(start)
    down, work = set(start), list(start)
    while work:
        n = work.pop()
        for c in holds.get(n, ()):
            for m in eq(c):
                if m not in down:
                    down.add(m)
                    work.append(m)
    return down if identity else up(down)


def _affected_writes(st):
    out = set()
    for kind, pay in _mutations(st):
        base = pay if kind in ("bind", "unknown") else pay[0]
        out |= _affected("bind" if kind == "bind" else ("unknown" if kind == "unknown" else "shallow"), base)
    return out


def _invalidates(muts, e, x):
    """May the effects `muts` change what expression e (bound to name x) evaluates to, or rebind x?"""
    if _simple_tuple(e):
        # a display of names denotes the same objects until one of the names is rebound: what happens to the CONTENT of
        # those objects does not change the tuple
        ns = _names(e) | {x}
        # ("unknown" effects are content mutations by calls; only a function with nonlocal / global declarations can
        # have a name rebound by a call)
        return any((kind == "bind" and pay in ns) or (kind == "unknown" and _NONLOCAL[0]) for kind, pay in muts)
    if _ALIAS[0]:
        # an effect on an object reached through another name of the same alias class counts as an effect on every name
        # of the class (coarse: any read rooted at an aliased name is taken to be affected)
        en = _names(e)
        ident = _path(e) is not None      # an alias of an existing object: b, b[i], b.a
        for kind, pay in muts:
            base = pay if kind in ("bind", "unknown") else pay[0]
            if kind == "bind":
                continue
            for other in _affected("unknown" if kind == "unknown" else "shallow", base, identity=ident):
                if other != base and other in en:
                    return True
    pe = _path(e)
    if pe is None and not isinstance(e, ast.Name):
        # a compound expression changes only if one of the maximal name/attribute/subscript paths it reads does
        subs = []

        def collect(n):
            if isinstance(n, (ast.Name, ast.Attribute, ast.Subscript)) and _path(n) is not None:
                subs.append(n)
                if isinstance(n, ast.Subscript) and not isinstance(n.slice, (ast.Name, ast.Constant)):
                    collect(n.slice)
                return
            if isinstance(n, (ast.Lambda, ast.ListComp, ast.SetComp, ast.DictComp, ast.GeneratorExp)):
                subs.append(None)
                return
            for c in ast.iter_child_nodes(n):
                collect(c)
        collect(e)
        if None not in subs and subs:
            if any(kind == "bind" and pay == x for kind, pay in muts):
                return True
            # the VALUE computed from the objects read matters here (len(b), b[0] + 1, ...): a change of the content of an
            # object on, above or below a path that is read invalidates, not only a change of which object the path denotes
            for sub in subs:
                sp = _path(sub)
                for kind, pay in muts:
                    if kind in ("call", "slot"):
                        k = min(len(pay), len(sp))
                        if tuple(pay[:k]) == tuple(sp[:k]):
                            return True
                        if kind == "slot" and len(pay) >= 2 and tuple(pay[:len(pay) - 1])[:len(sp)] == tuple(sp)[:len(pay) - 1]:
                            # slots compare by text; `[k]` vs `[j]` with name indexes may be the same slot
                            a, b = (sp[len(pay) - 1] if len(sp) >= len(pay) else None), pay[-1]
                            if a is None or a == b or (a.startswith("[") and b.startswith("[")):
                                return True
                if _invalidates(muts, sub, "\0"):
                    return True
            return False
    names = _names(e) | {x}
    for kind, pay in muts:
        if kind == "bind":
            if pay in names:
                return True
        elif kind == "unknown":
            if pay in names or pay == "?":
                return True
        elif kind == "slot":
            # store into slot pay[-1] of the object at pay[:-1]
            if pe is None:
                if pay[0] in names:
                    return True
                continue
            k = len(pay) - 1
            if pay[0] != pe[0] and pay[0] not in names:
                continue
            if len(pe) > k and pe[:k] == pay[:k]:
                a, b = pe[k], pay[k]
                if a == b or "?" in b or (a.startswith("[") and b.startswith("[") and (a[1:-1].isidentifier() or b[1:-1].isidentifier())):
                    return True
            elif pay[0] in _index_names(pe):
                return True
        elif kind == "call":
            if pe is None:
                if pay[0] in names:
                    return True
                continue
            # mutator on a container that the path traverses (proper prefix), or on the object itself when e is used for
            # its value; sibling / deeper objects do not change which object the path denotes
            if len(pay) < len(pe) and pe[:len(pay)] == pay:
                return True
            if pay == pe:
                continue
    return False


IDENTITY_CALLS = {"list", "dict", "set", "defaultdict", "Counter", "myQueue", "_ListDict_", "zeros", "ones", "array", "copy",
                  "Graph", "DiGraph", "linspace", "arange", "concatenate", "zeros_like", "ones_like", "sorted", "frozenset"}


def _value_like(e):
    """Expressions that denote a value (or an alias of an existing object), not a freshly allocated mutable object."""
    if isinstance(e, (ast.List, ast.Dict, ast.Set, ast.ListComp, ast.DictComp, ast.SetComp, ast.GeneratorExp)):
        return False
    if isinstance(e, ast.Call) and (_chain(e.func) or (e.func.attr if isinstance(e.func, ast.Attribute) else "")).split(".")[-1] in IDENTITY_CALLS:
        return False
    return True


IMMUTABLE_FUNCS = {"len", "float", "int", "round", "min", "max", "abs", "bool", "str", "sum", "isinstance", "type", "hasattr",
                   "repr", "tuple", "frozenset", "range"}
IMMUTABLE_METHODS = {"order", "total_weight", "number_of_nodes", "number_of_edges", "has_node", "has_edge", "count", "index",
                     "is_directed", "is_multigraph", "__contains__", "lower", "upper", "format", "size"}


NUMERIC_FUNCS = {"len", "float", "int", "round", "abs", "bool", "sum"}
NUMERIC_METHODS = {"order", "total_weight", "number_of_nodes", "number_of_edges", "count", "index", "size"}


def _numeric(e):
    """e certainly evaluates to a Python number / bool (never an array or another mutable object)."""
    if isinstance(e, ast.Constant):
        return isinstance(e.value, (int, float, bool))
    if isinstance(e, ast.Call):
        ch = _chain(e.func) or ""
        meth = e.func.attr if isinstance(e.func, ast.Attribute) else None
        return ch in NUMERIC_FUNCS or ch.startswith("math.") or ch in ("random.random", "random.expovariate", "random.uniform") \
            or (meth is not None and meth in NUMERIC_METHODS)
    if isinstance(e, ast.BinOp):
        return _numeric(e.left) and _numeric(e.right)
    if isinstance(e, ast.UnaryOp):
        return isinstance(e.op, ast.Not) or _numeric(e.operand)
    if isinstance(e, ast.Compare):
        return False          # numpy comparisons give arrays
    if isinstance(e, ast.IfExp):
        return _numeric(e.body) and _numeric(e.orelse)
    return False


def _immutable_result(e):
    """Evaluating e twice gives the SAME object or equal immutable values: names, constants, attribute / subscript reads
    (existing objects), tuples of such, calls known to return numbers / strings / tuples, arithmetic on certain numbers.
    Arithmetic on anything else may allocate (a numpy array), displays and other calls do allocate."""
    if isinstance(e, (ast.Name, ast.Constant)):
        return True
    if isinstance(e, ast.Attribute):
        return _immutable_result(e.value)
    if isinstance(e, ast.Subscript):
        return not isinstance(e.slice, ast.Slice) and _immutable_result(e.value) and _immutable_result(e.slice)
    if isinstance(e, ast.Tuple):
        return all(_immutable_result(x) for x in e.elts)
    if isinstance(e, ast.IfExp):
        return _immutable_result(e.test) and _immutable_result(e.body) and _immutable_result(e.orelse)
    if isinstance(e, ast.BoolOp):
        return all(_immutable_result(x) for x in e.values)
    if isinstance(e, ast.UnaryOp) and isinstance(e.op, ast.Not):
        return _immutable_result(e.operand)
    if isinstance(e, ast.Compare):
        # identity / membership tests give bools; ordering comparisons of certain numbers too
        if all(isinstance(o, (ast.Is, ast.IsNot, ast.In, ast.NotIn)) for o in e.ops):
            return _immutable_result(e.left) and all(_immutable_result(c) for c in e.comparators)
        return _numeric(e.left) and all(_numeric(c) for c in e.comparators)
    if isinstance(e, ast.Call):
        ch = _chain(e.func) or ""
        meth = e.func.attr if isinstance(e.func, ast.Attribute) else None
        if ch in IMMUTABLE_FUNCS or ch.startswith("math.") or (meth is not None and meth in IMMUTABLE_METHODS):
            return all(_immutable_result(a) or True for a in e.args)
        return False
    if isinstance(e, (ast.BinOp, ast.UnaryOp)):
        return _numeric(e)
    return False


def _total(e):
    """Evaluating e cannot raise in a type-correct program and has no effect: names, constants, + - *, comparisons,
    boolean connectives, tuples, len()/bool()/isinstance().  Subscripts (KeyError / IndexError), attribute reads,
    division and other calls are not total: such an expression must not become evaluated under fewer or more conditions."""
    for n in ast.walk(e):
        if isinstance(n, (ast.Name, ast.Constant, ast.Load, ast.Tuple, ast.Compare, ast.BoolOp, ast.And, ast.Or, ast.Not,
                          ast.UnaryOp, ast.USub, ast.UAdd, ast.IfExp, ast.Add, ast.Sub, ast.Mult, ast.cmpop, ast.operator, ast.boolop,
                          ast.unaryop, ast.expr_context)):
            if isinstance(n, ast.BinOp):
                pass
            continue
        if isinstance(n, ast.BinOp):
            if isinstance(n.op, (ast.Add, ast.Sub, ast.Mult)):
                continue
            return False
        if isinstance(n, ast.Call) and isinstance(n.func, ast.Name) and n.func.id in ("len", "bool", "isinstance", "float", "int", "abs") \
                and not n.keywords:
            continue
        if isinstance(n, ast.Call) and isinstance(n.func, ast.Name) and n.func.id == "dict" and not n.args \
                and all(k.arg is not None for k in n.keywords):
            continue                      # dict(k=v, ...) builds a dict; cannot fail
        if isinstance(n, ast.keyword):
            continue
        if isinstance(n, ast.Attribute) and isinstance(n.value, ast.Name):
            continue                      # an attribute of a named object (self.items): present in a type-correct program
        if isinstance(n, ast.Subscript) and isinstance(n.slice, ast.Slice):
            continue                      # slicing a sequence never raises (x[1:] of an empty list is [])
        if isinstance(n, ast.Slice):
            continue
        if isinstance(n, ast.Name):
            continue
        return False
    return True


_CONSUMERS = ("random.", "np.random.", "numpy.random.", "math.")


def _value_only(scope, x):
    """Every read of x in scope only consumes its VALUE (operand of arithmetic / comparison, index, condition, argument of
    a function that neither keeps nor changes it): which object carries the value is then unobservable."""
    parent = {}
    for n in ast.walk(scope):
        for c in ast.iter_child_nodes(n):
            parent[id(c)] = n
    for n in ast.walk(scope):
        if not (isinstance(n, ast.Name) and n.id == x and isinstance(n.ctx, ast.Load)):
            continue
        cur = n
        ok = None
        while ok is None:
            p = parent.get(id(cur))
            if p is None:
                ok = False
            elif isinstance(p, (ast.BinOp, ast.Compare)) or (isinstance(p, ast.UnaryOp)):
                ok = True
            elif isinstance(p, ast.BoolOp) or (isinstance(p, ast.IfExp) and cur is not p.test):
                cur = p                      # the result may be x itself: look further up
            elif isinstance(p, ast.IfExp):
                ok = True
            elif isinstance(p, ast.Subscript):
                ok = cur is p.slice
            elif isinstance(p, (ast.If, ast.While)):
                ok = cur is p.test
            elif isinstance(p, (ast.For, ast.comprehension)):
                ok = cur is p.iter                       # iterating reads the elements, nothing keeps the container
            elif isinstance(p, ast.AugAssign):
                ok = cur is p.value
            elif isinstance(p, ast.keyword):
                if p.arg is None:
                    ok = True                # f(**x): the callee gets a dict of its own
                else:
                    cur = p
            elif isinstance(p, ast.Call):
                if cur is p.func:
                    ok = False
                else:
                    ch = _chain(p.func) or ""
                    ok = ch in PURE_FUNCS or ch in IMMUTABLE_FUNCS or ch.startswith(_CONSUMERS) or \
                        (ch.startswith(PURE_PREFIX) and not ch.startswith(IMPURE_PREFIX))
            elif isinstance(p, (ast.FunctionDef, ast.Lambda, ast.ListComp, ast.SetComp, ast.DictComp, ast.GeneratorExp)):
                ok = False
            else:
                ok = False
        if not ok:
            return False
    return True


def split_tuples(fn):
    """a, b = (x, y) -> a = x; b = y   and   a, b = X -> a = X[0]; b = X[1]  (X a pure name/subscript/attribute)."""
    for owner, fld in _blocks_of(fn):
        body = getattr(owner, fld)
        new = []
        for st in body:
            if isinstance(st, ast.Assign) and len(st.targets) == 1 and isinstance(st.targets[0], ast.Tuple) \
                    and all(isinstance(t, ast.Name) for t in st.targets[0].elts):
                tg = st.targets[0].elts
                v = st.value
                if isinstance(v, (ast.Tuple, ast.List)) and len(v.elts) == len(tg) and len({t.id for t in tg}) == len(tg) \
                        and not any(isinstance(x, ast.Starred) for x in v.elts) and all(
                        tg[i].id not in _names(v.elts[j]) for i in range(len(tg)) for j in range(i + 1, len(tg))):
                    # no value reads a name bound to its left: one after the other is the same as all at once
                    # (`times, S = times[n:], S[n:]`)
                    for t, e in zip(tg, v.elts):
                        new.append(ast.copy_location(ast.Assign(targets=[t], value=e), st))
                    continue
                if isinstance(v, (ast.Name, ast.Subscript, ast.Attribute)) and is_pure(v) and not ({t.id for t in tg} & _names(v)):
                    for k, t in enumerate(tg):
                        new.append(ast.copy_location(ast.Assign(
                            targets=[t], value=ast.Subscript(value=copy.deepcopy(v), slice=ast.Constant(k), ctx=ast.Load())), st))
                    continue
            new.append(st)
        setattr(owner, fld, new)
    ast.fix_missing_locations(fn)


def _subst_in_simple(s, m):
    """Substitute into the parts of a simple statement that are evaluated before its own effect."""
    sub = _Subst(m)
    if isinstance(s, ast.Assign):
        s.value = sub.visit(s.value)
        for t in s.targets:
            for n in ast.walk(t):
                if isinstance(n, ast.Subscript):
                    n.slice = sub.visit(n.slice)
                    if not isinstance(n.value, ast.Name):
                        n.value = sub.visit(n.value)
    elif isinstance(s, ast.AugAssign):
        s.value = sub.visit(s.value)
        for n in ast.walk(s.target):
            if isinstance(n, ast.Subscript):
                n.slice = sub.visit(n.slice)
                if not isinstance(n.value, ast.Name):
                    n.value = sub.visit(n.value)
    elif isinstance(s, (ast.Expr, ast.Return)):
        if s.value is not None:
            s.value = sub.visit(s.value)
    elif isinstance(s, ast.Raise):
        if s.exc is not None:
            s.exc = sub.visit(s.exc)


_ra_counter = [0]


def rename_apart(fn):
    """A local that is bound several times (by `x = e` or as a `for` target), each binding being read only in the
    statements that follow it in its own block (for a loop target: in the loop body) before anything rebinds it, is split
    into one name per binding."""
    for scope in [n for n in ast.walk(fn) if isinstance(n, ast.FunctionDef)]:
        params = {a.arg for a in scope.args.posonlyargs + scope.args.args + scope.args.kwonlyargs}
        captured = set()
        for n in _scope_nodes(scope):
            # list / set / dict comprehensions are evaluated where they stand (their own variables were renamed apart before):
            # a name read inside one is read at that statement; generators, lambdas and nested functions may run later
            if isinstance(n, (ast.FunctionDef, ast.Lambda, ast.GeneratorExp)) and n is not scope:
                captured |= _names(n)
        blocks = _scope_blocks(scope)
        store_kinds = {}
        for n in _scope_nodes(scope):
            if isinstance(n, ast.Name) and isinstance(n.ctx, (ast.Store, ast.Del)):
                store_kinds.setdefault(n.id, 0)
                store_kinds[n.id] += 1
        loads = {}
        for n in _scope_nodes(scope):
            if isinstance(n, ast.Name) and isinstance(n.ctx, ast.Load):
                loads[n.id] = loads.get(n.id, 0) + 1
        defs = {}        # name -> [(binding Name node, region statements)]
        for o, f in blocks:
            body = getattr(o, f)
            for i, st in enumerate(body):
                if isinstance(st, ast.Assign) and len(st.targets) == 1 and isinstance(st.targets[0], ast.Name):
                    defs.setdefault(st.targets[0].id, []).append((st.targets[0], body[i + 1:]))
                elif isinstance(st, ast.For) and not st.orelse:
                    tg = [st.target] if isinstance(st.target, ast.Name) else \
                        (list(st.target.elts) if isinstance(st.target, ast.Tuple) and all(isinstance(e, ast.Name) for e in st.target.elts) else [])
                    for t in tg:
                        if t.id in _names(st.iter):
                            defs.setdefault(t.id, []).append(None)
                        else:
                            defs.setdefault(t.id, []).append((t, st.body))
        for x, ds in defs.items():
            if len(ds) < 2 or x in params or x in captured or store_kinds.get(x, 0) != len(ds) or any(d is None for d in ds):
                continue
            plan = []
            covered = 0
            for name_node, region in ds:
                # the region ends before the first statement that binds x somewhere inside it: loads in that statement
                # and after it must be covered by the region of another binding (the count below checks that)
                extra = []
                for j, s2 in enumerate(region):
                    if any(isinstance(n, ast.Name) and n.id == x and isinstance(n.ctx, (ast.Store, ast.Del)) for n in ast.walk(s2)):
                        if isinstance(s2, ast.Assign) and len(s2.targets) == 1 and isinstance(s2.targets[0], ast.Name) and s2.targets[0].id == x:
                            # `x = f(x)`: the right-hand side still reads THIS binding
                            extra = [n for n in ast.walk(s2.value) if isinstance(n, ast.Name) and n.id == x and isinstance(n.ctx, ast.Load)]
                        region = region[:j]
                        break
                uses = [n for s2 in region for n in ast.walk(s2) if isinstance(n, ast.Name) and n.id == x and isinstance(n.ctx, ast.Load)] + extra
                covered += len(uses)
                plan.append((name_node, uses))
            if covered != loads.get(x, 0):
                continue
            for name_node, uses in plan:
                _ra_counter[0] += 1
                nm = "%s__%d" % (x, _ra_counter[0])
                name_node.id = nm
                for u in uses:
                    u.id = nm


def _range_indexed(e, owner, fld):
    """e is X[i] directly in the body of `for i in range(len(X))` whose body neither rebinds i or X nor changes X: the
    subscript cannot fail, so it may be evaluated under more or fewer conditions."""
    if not (fld == "body" and isinstance(owner, ast.For) and isinstance(owner.target, ast.Name) and not owner.orelse
            and isinstance(e, ast.Subscript) and isinstance(e.value, ast.Name) and isinstance(e.slice, ast.Name)
            and e.slice.id == owner.target.id):
        return False
    it = owner.iter
    if not (isinstance(it, ast.Call) and isinstance(it.func, ast.Name) and it.func.id == "range" and len(it.args) == 1 and not it.keywords
            and isinstance(it.args[0], ast.Call) and isinstance(it.args[0].func, ast.Name) and it.args[0].func.id == "len"
            and len(it.args[0].args) == 1 and isinstance(it.args[0].args[0], ast.Name) and it.args[0].args[0].id == e.value.id):
        return False
    X, i = e.value.id, e.slice.id
    for st in owner.body:
        for kind, pay in _mutations(st):
            base = pay if kind in ("bind", "unknown") else pay[0]
            if base in (X, i) or base == "?" or (kind != "bind" and X in _affected("unknown" if kind == "unknown" else "shallow", base)):
                return False
    return True


def propagate(fn, only_paths=False, only_names=None):
    """Block-local forward substitution of pure definitions `x = e` into the statements that follow in the same block,
    until x is reassigned or something e reads may change; then dead pure stores are removed.
    only_paths: only definitions whose right-hand side is a name / attribute / subscript chain (a local alias of an
    existing object, e.g. `candidates = potential_transitions[transition]`) are expanded."""
    changed_any = False
    still_evaluated = set()      # names whose definition was written into a position that is evaluated whenever it was
    for scope in [n for n in ast.walk(fn) if isinstance(n, ast.FunctionDef)]:
        captured = set()
        for n in _scope_nodes(scope):
            if isinstance(n, (ast.FunctionDef, ast.Lambda)) and n is not scope:
                captured |= _names(n)
        params = {a.arg for a in scope.args.posonlyargs + scope.args.args + scope.args.kwonlyargs}
        for owner, fld in _scope_blocks(scope):
            body = getattr(owner, fld)
            for i, st in enumerate(body):
                if not (isinstance(st, ast.Assign) and len(st.targets) == 1 and isinstance(st.targets[0], ast.Name)):
                    continue
                x = st.targets[0].id
                e = st.value
                depth = [0]
                if x in captured or not is_pure(e) or x in _names(e):
                    continue
                if not _value_like(e) and not (isinstance(e, ast.Call) and _total(e) and _value_only(scope, x)):
                    continue            # a freshly built container: only when nothing but its value is ever used (f(**kw))
                if only_paths and (_path(e) is None or isinstance(e, ast.Name)):
                    continue
                if only_names is not None and x not in only_names:
                    continue
                if isinstance(e, ast.Constant) and not isinstance(e.value, (int, float, str, bool, type(None))):
                    continue
                shareable = _immutable_result(e) or _value_only(scope, x)
                if not shareable:
                    # the value may be a fresh mutable object (nx.get_edge_attributes(...), np.array(...), 0*Nk): every use
                    # must see the SAME object, so it is only moved when it is used exactly once in the whole function
                    if sum(1 for n in _scope_nodes(scope) if isinstance(n, ast.Name) and n.id == x and isinstance(n.ctx, ast.Load)) != 1:
                        continue
                m = {x: e}

                total = _total(e) or _range_indexed(e, owner, fld)
                # evaluated once per iteration instead of once: fine for the same object / a number, and for a freshly built but
                # equal value whose every use only consumes the value -- never for something that may be a one-shot iterator
                stable = _immutable_result(e) or (shareable and not any(
                    isinstance(n, ast.GeneratorExp) or (isinstance(n, ast.Call) and not _immutable_result(n)) for n in ast.walk(e)))

                def push(stmts):
                    """substitute into a statement sequence; False when the definition is dead (x or an input changed).
                    Into the arms of an `if` only an expression that cannot raise may move (it would otherwise be evaluated
                    under a condition it was not under); into a loop body only one that, in addition, yields the same
                    object / number every time (a one-shot iterator or a fresh array evaluated per iteration is different)."""
                    nonlocal changed_any
                    for s in stmts:
                        uses = any(isinstance(n, ast.Name) and n.id == x and isinstance(n.ctx, ast.Load) for n in ast.walk(s))
                        if isinstance(s, ast.If):
                            if uses:
                                before = ast.dump(s.test)
                                s.test = _Subst(m).visit(s.test)
                                if before != ast.dump(s.test):
                                    changed_any = True
                                    if depth[0] == 0:
                                        still_evaluated.add(x)
                            if _invalidates(_mutations(s.test), e, x):
                                return False
                            # re-evaluating a pure e inside an arm is harmless while the definition itself is still evaluated
                            # before the `if`; the definition is only dropped when an unconditional occurrence remains
                            depth[0] += 1
                            a_ = push(s.body)
                            b_ = push(s.orelse)
                            depth[0] -= 1
                            if not (a_ and b_):
                                return False
                            continue
                        hit = _invalidates(_mutations(s), e, x)
                        if isinstance(s, ast.While) and isinstance(s.test, ast.Constant) and s.test.value is True and not hit and uses \
                                and stable and depth[0] == 0 and s.body \
                                and any(isinstance(n, ast.Name) and n.id == x for n in ast.walk(s.body[0])) \
                                and not isinstance(s.body[0], (ast.If, ast.For, ast.While, ast.Try, ast.With)):
                            still_evaluated.add(x)       # the first statement of a `while True` body always runs
                        if isinstance(s, (ast.For, ast.While, ast.Try, ast.With, ast.FunctionDef)):
                            if isinstance(s, ast.For) and uses:
                                before = ast.dump(s.iter)
                                s.iter = _Subst(m).visit(s.iter)
                                if before != ast.dump(s.iter):
                                    changed_any = True
                                    if depth[0] == 0:
                                        still_evaluated.add(x)
                                uses = any(isinstance(n, ast.Name) and n.id == x and isinstance(n.ctx, ast.Load) for n in ast.walk(s))
                            if hit:
                                return False
                            if uses:
                                if not stable:
                                    return False
                                _Subst(m).visit(s)
                                changed_any = True
                        else:
                            if uses:
                                before = ast.dump(s)
                                _subst_in_simple(s, m)
                                if before != ast.dump(s):
                                    changed_any = True
                                    if depth[0] == 0:
                                        still_evaluated.add(x)
                            # common subexpression: a later definition with the same right-hand side becomes a copy of x
                            if (not uses) and isinstance(s, ast.Assign) and len(s.targets) == 1 and isinstance(s.targets[0], ast.Name) \
                                    and s.targets[0].id != x and not isinstance(e, (ast.Name, ast.Constant)) and ast.dump(s.value) == ast.dump(e) \
                                    and (_immutable_result(e) or (shareable and _value_only(scope, s.targets[0].id))):
                                s.value = ast.Name(id=x, ctx=ast.Load())
                                changed_any = True
                            if hit:
                                return False
                            if isinstance(s, (ast.Return, ast.Raise, ast.Break, ast.Continue)):
                                return True
                    return True
                push(body[i + 1:])
        # dead pure stores
        loads = {}
        for n in _scope_nodes(scope):
            if isinstance(n, ast.Name) and isinstance(n.ctx, ast.Load):
                loads[n.id] = loads.get(n.id, 0) + 1
        for owner, fld in _scope_blocks(scope):
            body = getattr(owner, fld)
            keep = []
            for st in body:
                if isinstance(st, ast.Assign) and len(st.targets) == 1 and isinstance(st.targets[0], ast.Name) \
                        and st.targets[0].id not in loads and st.targets[0].id not in params and st.targets[0].id not in captured \
                        and is_pure(st.value) and (_total(st.value) or st.targets[0].id.startswith("__")
                                                   or st.targets[0].id in still_evaluated or _range_indexed(st.value, owner, fld)):
                    changed_any = True
                    continue
                keep.append(st)
            if not keep and fld == "body":
                keep = [ast.Pass()]
            setattr(owner, fld, keep)
    ast.fix_missing_locations(fn)
    return changed_any


def _sub_key(node):
    """dump of B[k] / B.a[k] subscripts used as store-to-load patterns"""
    return ast.dump(node)


_sr_counter = [0]


def split_self_referential_stores(fn):
    """`B[k] = f(B[k])`  ->  `t = f(B[k]); B[k] = t`  (so that later reads of B[k] can be forwarded to t)."""
    for owner, fld in _blocks_of(fn):
        body = getattr(owner, fld)
        new = []
        for st in body:
            if isinstance(st, ast.Assign) and len(st.targets) == 1 and isinstance(st.targets[0], ast.Subscript) \
                    and _path(st.targets[0]) is not None and is_pure(st.value) and not isinstance(st.value, ast.Name):
                load = copy.deepcopy(st.targets[0])
                for n in ast.walk(load):
                    if hasattr(n, "ctx"):
                        n.ctx = ast.Load()
                pat = ast.dump(load)
                if any(isinstance(n, ast.Subscript) and ast.dump(n) == pat for n in ast.walk(st.value)):
                    _sr_counter[0] += 1
                    t = "__sr%d" % _sr_counter[0]
                    new.append(ast.copy_location(ast.Assign(targets=[ast.Name(id=t, ctx=ast.Store())], value=st.value), st))
                    new.append(ast.copy_location(ast.Assign(targets=st.targets, value=ast.Name(id=t, ctx=ast.Load())), st))
                    continue
            new.append(st)
        setattr(owner, fld, new)
    ast.fix_missing_locations(fn)


def forward_stores(fn):
    """`B[k] = e` (B a name or attribute chain, k a name, e pure and value-like) followed, in the same block, by reads of
    `B[k]`: the reads become e until B, k or an input of e may change."""
    changed = False
    for owner, fld in _blocks_of(fn):
        body = getattr(owner, fld)
        for i, st in enumerate(body):
            if not (isinstance(st, ast.Assign) and len(st.targets) == 1 and isinstance(st.targets[0], ast.Subscript)):
                continue
            tgt = st.targets[0]
            if not (isinstance(tgt.slice, ast.Name) and _chain(tgt.value) and is_pure(st.value)):
                continue
            if isinstance(st.value, (ast.Tuple, ast.Constant)):
                continue
            load = copy.deepcopy(tgt)
            for n in ast.walk(load):
                if hasattr(n, "ctx"):
                    n.ctx = ast.Load()
            pat = ast.dump(load)
            if not isinstance(st.value, ast.Name):
                # the stored object is first given a name (one evaluation, one object); reads of B[k] then become that name
                if not any(isinstance(n, ast.Subscript) and isinstance(n.ctx, ast.Load) and ast.dump(n) == pat
                           for s2 in body[i + 1:] for n in ast.walk(s2)):
                    continue
                _sr_counter[0] += 1
                t = "__st%d" % _sr_counter[0]
                body.insert(i, ast.copy_location(ast.Assign(targets=[ast.Name(id=t, ctx=ast.Store())], value=st.value), st))
                st.value = ast.Name(id=t, ctx=ast.Load())
                changed = True
            val = st.value

            class F(ast.NodeTransformer):
                hit = False

                def visit_Subscript(self, n):
                    self.generic_visit(n)
                    if isinstance(n.ctx, ast.Load) and ast.dump(n) == pat:
                        F.hit = True
                        return copy.deepcopy(val)
                    return n
            def fwd(stmts):
                """replace loads of B[k] by the stored name; False once B, k or the name may have changed"""
                for s in stmts:
                    if isinstance(s, ast.If):
                        s.test = F().visit(s.test)
                        if _invalidates(_mutations(s.test), st.value, "\0") or _invalidates(_mutations(s.test), load, "\0"):
                            return False
                        a_ = fwd(s.body)
                        b_ = fwd(s.orelse)
                        if not (a_ and b_):
                            return False
                        continue
                    muts = _mutations(s)
                    hit = _invalidates(muts, st.value, "\0") or _invalidates(muts, load, "\0")
                    if isinstance(s, (ast.For, ast.While, ast.Try, ast.With, ast.FunctionDef)):
                        if hit:
                            if isinstance(s, ast.For):
                                s.iter = F().visit(s.iter)
                            return False
                        F().visit(s)
                    else:
                        if isinstance(s, (ast.Assign, ast.AugAssign)):
                            s.value = F().visit(s.value)
                        elif isinstance(s, (ast.Expr, ast.Return)) and s.value is not None:
                            s.value = F().visit(s.value)
                        if hit:
                            return False
                        if isinstance(s, (ast.Return, ast.Raise, ast.Break, ast.Continue)):
                            return True
                return True
            fwd(body[next(k for k, z in enumerate(body) if z is st) + 1:])
            changed |= F.hit
    ast.fix_missing_locations(fn)
    return changed


# ---------------------------------------------------------------------------------------------------- C7
def _impure(st):
    for n in ast.walk(st):
        if isinstance(n, ast.Call) and not is_pure(n):
            return True
    return False


def _writes(st):
    out = set()
    for kind, pay in _mutations(st):
        if kind in ("bind", "unknown"):
            out.add(pay)
        else:
            out.add(pay[0])
    return out


class _Blank(ast.NodeTransformer):
    def visit_Name(self, n):
        return ast.Name(id="_", ctx=n.ctx)

    def visit_arg(self, n):
        return ast.arg(arg="_")


def _blind_key(st):
    return ast.dump(_Blank().visit(copy.deepcopy(st)))


def _movable(st):
    return not isinstance(st, (ast.Return, ast.Raise, ast.Break, ast.Continue, ast.FunctionDef, ast.ClassDef,
                               ast.Import, ast.ImportFrom, ast.Global, ast.Nonlocal, ast.Pass, ast.Try, ast.With)) \
        and not any(isinstance(n, (ast.Return, ast.Raise, ast.Break, ast.Continue, ast.Yield, ast.YieldFrom, ast.Await))
                    for n in ast.walk(st))


def commute(a, b):
    """May the adjacent statements a; b be executed as b; a?  (disjoint effects, at most one of them impure)"""
    if not (_movable(a) and _movable(b)) or (_impure(a) and _impure(b)):
        return False
    wa, wb = _writes(a), _writes(b)
    if "?" in wa or "?" in wb:
        return False
    wa, wb = _affected_writes(a), _affected_writes(b)
    return not (wa & (_names(b) | wb) or wb & _names(a))


def sort_commuting(fn):
    """Adjacent statements that commute (disjoint effects, at most one of them impure) are put in a name-blind order."""
    for owner, fld in _blocks_of(fn):
        body = getattr(owner, fld)
        if len(body) < 2:
            continue
        info = {}

        def inf(st):
            k = id(st)
            if k not in info:
                movable = not isinstance(st, (ast.Return, ast.Raise, ast.Break, ast.Continue, ast.FunctionDef, ast.ClassDef,
                                              ast.Import, ast.ImportFrom, ast.Global, ast.Nonlocal, ast.Pass, ast.Try, ast.With)) \
                    and not any(isinstance(n, (ast.Return, ast.Raise, ast.Break, ast.Continue, ast.Yield, ast.YieldFrom, ast.Await))
                                for n in ast.walk(st))
                info[k] = (movable, _writes(st), _names(st), _impure(st), _blind_key(st), _affected_writes(st))
            return info[k]
        changed = True
        rounds = 0
        while changed and rounds < 60:
            changed = False
            rounds += 1
            for i in range(len(body) - 1):
                a, b = body[i], body[i + 1]
                ma, wa, ra, ia, ka, wa2 = inf(a)
                mb, wb, rb, ib, kb, wb2 = inf(b)
                if not (ma and mb) or (ia and ib):
                    continue
                if "?" in wa or "?" in wb:
                    continue
                if wa2 & (rb | wb2) or wb2 & ra:
                    continue
                if kb < ka:
                    body[i], body[i + 1] = b, a
                    changed = True


# ---------------------------------------------------------------------------------------------------- C9 single use
_INERT, _EFFECT, _FOUND, _BLOCKED = "inert", "effect", "found", "blocked"


_REACH_MUTS = [None]       # effects of the definition being moved (set by forward_single_use)


def _reach(node, x):
    """Walk `node` in evaluation order looking for the single load of x.  FOUND: x is reached and everything evaluated
    before it only passes references around (names, constants, displays of those, the lookup of a method on a name);
    BLOCKED: something else is evaluated first, or x is evaluated conditionally / repeatedly / later (lambda)."""
    if isinstance(node, ast.Name):
        return _FOUND if node.id == x else _INERT
    if isinstance(node, ast.Constant):
        return _INERT
    if x not in _names(node):
        if isinstance(node, (ast.Tuple, ast.List)) and all(_reach(e, x) == _INERT for e in node.elts):
            return _INERT
        # a pure read that the moved definition cannot change (same no-alias reading of distinct names as `commute`)
        if _REACH_MUTS[0] is not None and is_pure(node) and not _invalidates(_REACH_MUTS[0], node, "\0"):
            return _INERT
        return _EFFECT
    if isinstance(node, ast.Call):
        kids = []
        f = node.func
        if isinstance(f, ast.Attribute) and isinstance(f.value, ast.Name) and f.value.id != x:
            pass          # method lookup on a name: inert
        else:
            kids.append(f)
        kids += list(node.args) + [k.value for k in node.keywords]
        own = _EFFECT
    elif isinstance(node, ast.BinOp):
        kids, own = [node.left, node.right], _EFFECT
    elif isinstance(node, ast.Compare):
        kids, own = [node.left] + list(node.comparators), _EFFECT
    elif isinstance(node, ast.UnaryOp):
        kids, own = [node.operand], _EFFECT
    elif isinstance(node, ast.BoolOp):
        if x in _names(ast.BoolOp(op=node.op, values=node.values[1:])):
            return _BLOCKED
        kids, own = [node.values[0]], _EFFECT
    elif isinstance(node, ast.IfExp):
        if x in _names(node.body) | _names(node.orelse):
            return _BLOCKED
        kids, own = [node.test], _EFFECT
    elif isinstance(node, ast.Subscript):
        kids, own = [node.value, node.slice], _EFFECT
    elif isinstance(node, ast.Attribute):
        kids, own = [node.value], _EFFECT
    elif isinstance(node, (ast.Tuple, ast.List, ast.Set)):
        kids, own = list(node.elts), _INERT
    elif isinstance(node, ast.Starred):
        kids, own = [node.value], _EFFECT
    elif isinstance(node, ast.keyword):
        kids, own = [node.value], _INERT
    else:
        return _BLOCKED
    for k in kids:
        r = _reach(k, x)
        if r in (_FOUND, _BLOCKED):
            return r
        if r == _EFFECT:
            return _BLOCKED       # x comes later (it is somewhere in this node)
    return _BLOCKED


def _first_evaluated(st):
    """The expressions of a statement that are evaluated once, first, unconditionally, in order."""
    if isinstance(st, (ast.Expr, ast.Return)):
        return [st.value] if st.value is not None else []
    if isinstance(st, ast.Assign):
        return [st.value]
    if isinstance(st, ast.AugAssign):
        return [st.value] if isinstance(st.target, ast.Name) else []
    if isinstance(st, ast.If):
        return [st.test]
    if isinstance(st, ast.For):
        return [st.iter]
    if isinstance(st, ast.Raise):
        return [st.exc] if st.exc is not None else []
    return []


def forward_single_use(fn):
    """`x = e` (e of any kind) immediately followed by the only statement that reads x, once, at a position that is
    evaluated before anything else of that statement could observe or disturb e: e moves to that position."""
    changed = False
    for scope in [n for n in ast.walk(fn) if isinstance(n, ast.FunctionDef)]:
        params = {a.arg for a in scope.args.posonlyargs + scope.args.args + scope.args.kwonlyargs}
        stores, loads = {}, {}
        for n in _scope_nodes(scope):
            if isinstance(n, ast.Name):
                d = loads if isinstance(n.ctx, ast.Load) else stores
                d[n.id] = d.get(n.id, 0) + 1
        captured = set()
        for n in _scope_nodes(scope):
            if isinstance(n, (ast.FunctionDef, ast.Lambda, ast.ListComp, ast.SetComp, ast.DictComp, ast.GeneratorExp)) and n is not scope:
                captured |= _names(n)
        for owner, fld in _scope_blocks(scope):
            body = getattr(owner, fld)
            i = 0
            while i + 1 < len(body):
                st, nx = body[i], body[i + 1]
                if isinstance(st, ast.Assign) and len(st.targets) == 1 and isinstance(st.targets[0], ast.Name):
                    x = st.targets[0].id
                    # the definition may first move down over statements it commutes with
                    j = i + 1
                    while j < len(body) and x not in _names(body[j]) and commute(st, body[j]):
                        j += 1
                    if j >= len(body):
                        i += 1
                        continue
                    nx = body[j]
                    if x not in params and x not in captured and stores.get(x) == 1 and loads.get(x) == 1 \
                            and x not in _names(st.value) and not isinstance(st.value, (ast.Lambda, ast.Yield, ast.YieldFrom, ast.Await)):
                        exprs = _first_evaluated(nx)
                        hit = None
                        _REACH_MUTS[0] = _mutations(st) if _impure(st) else []
                        try:
                            for e in exprs:
                                r = _reach(e, x)
                                if r == _FOUND:
                                    hit = e
                                if r != _INERT:
                                    break
                        finally:
                            _REACH_MUTS[0] = None
                        if hit is not None:
                            _subst_in_first(nx, {x: st.value})
                            del body[i]
                            loads[x] = 0
                            changed = True
                            i = max(i - 1, 0)
                            continue
                i += 1
    return changed


def _subst_in_first(st, m):
    sub = _Subst(m)
    if isinstance(st, (ast.Expr, ast.Return, ast.Assign, ast.AugAssign)):
        st.value = sub.visit(st.value)
    elif isinstance(st, ast.If):
        st.test = sub.visit(st.test)
    elif isinstance(st, ast.For):
        st.iter = sub.visit(st.iter)
    elif isinstance(st, ast.Raise):
        st.exc = sub.visit(st.exc)


# ---------------------------------------------------------------------------------------------------- C10 comprehensions
_cx_counter = [0]


def expand_comprehensions(fn, only=None):
    """`x = [e for t in it if c]` -> `x = []` + loop with `x.append(e)` (likewise sets and dicts) when the comprehension
    does not read x; comprehension variables get fresh names (they do not leak in the comprehension form and are not
    read after the loop in the loop form of a refactoring that is equivalent).  `return <comprehension>` first binds it."""
    for owner, fld in _blocks_of(fn):
        body = getattr(owner, fld)
        pre = []
        for st in body:
            if isinstance(st, ast.Return) and isinstance(st.value, (ast.ListComp, ast.SetComp, ast.DictComp)) \
                    and (only is None or only(st.value)):
                _cx_counter[0] += 1
                t = "__ret%d" % _cx_counter[0]
                pre.append(ast.copy_location(ast.Assign(targets=[ast.Name(id=t, ctx=ast.Store())], value=st.value), st))
                st.value = ast.Name(id=t, ctx=ast.Load())
            pre.append(st)
        body[:] = pre
        new = []
        for st in body:
            v = st.value if isinstance(st, ast.Assign) and len(st.targets) == 1 and isinstance(st.targets[0], ast.Name) else None
            if isinstance(v, (ast.ListComp, ast.SetComp, ast.DictComp)) and st.targets[0].id not in _names(v) \
                    and (only is None or only(v)) \
                    and not any(g.is_async for g in v.generators) \
                    and not (isinstance(v, ast.DictComp) and not is_pure(v.key) and not is_pure(v.value)):
                x = st.targets[0].id
                ren = {}
                for g in v.generators:
                    for t in ast.walk(g.target):
                        if isinstance(t, ast.Name):
                            _cx_counter[0] += 1
                            ren[t.id] = "%s__c%d" % (t.id, _cx_counter[0])
                vv = copy.deepcopy(v)
                # rename comprehension variables (the first iterable is evaluated outside their scope)
                first_iter = vv.generators[0].iter
                for n in ast.walk(vv):
                    if isinstance(n, ast.Name) and n.id in ren:
                        n.id = ren[n.id]
                for n in ast.walk(first_iter):
                    if isinstance(n, ast.Name):
                        for a, b in ren.items():
                            if n.id == b:
                                n.id = a
                if isinstance(vv, ast.ListComp):
                    init = ast.List(elts=[], ctx=ast.Load())
                    leaf = ast.Expr(value=ast.Call(func=ast.Attribute(value=ast.Name(id=x, ctx=ast.Load()), attr="append", ctx=ast.Load()),
                                                   args=[vv.elt], keywords=[]))
                elif isinstance(vv, ast.SetComp):
                    init = ast.Call(func=ast.Name(id="set", ctx=ast.Load()), args=[], keywords=[])
                    leaf = ast.Expr(value=ast.Call(func=ast.Attribute(value=ast.Name(id=x, ctx=ast.Load()), attr="add", ctx=ast.Load()),
                                                   args=[vv.elt], keywords=[]))
                else:
                    init = ast.Dict(keys=[], values=[])
                    leaf = ast.Assign(targets=[ast.Subscript(value=ast.Name(id=x, ctx=ast.Load()), slice=vv.key, ctx=ast.Store())],
                                      value=vv.value)
                inner = [leaf]
                for g in reversed(vv.generators):
                    for c in reversed(g.ifs):
                        inner = [ast.If(test=c, body=inner, orelse=[])]
                    for t in ast.walk(g.target):
                        if isinstance(t, ast.Name):
                            t.ctx = ast.Store()
                    inner = [ast.For(target=g.target, iter=g.iter, body=inner, orelse=[], type_comment=None)]
                new.append(ast.copy_location(ast.Assign(targets=[st.targets[0]], value=init), st))
                for z in inner:
                    new.append(ast.copy_location(z, st))
            else:
                new.append(st)
        setattr(owner, fld, new)
    ast.fix_missing_locations(fn)


def _touches(nodes):
    """(reads, writes) as sets of names, with 'RNG' for the random streams; None when something unknown may be affected."""
    reads, writes = set(), set()
    for n in nodes:
        reads |= _names(n)
        w = _writes(n) if isinstance(n, ast.stmt) else _writes(ast.Expr(value=n))
        if "?" in w:
            return None
        writes |= w
        for c in ast.walk(n):
            if isinstance(c, ast.Call):
                ch = _chain(c.func) or ""
                if ch.startswith(IMPURE_PREFIX):
                    writes.add("RNG")
                    reads.add("RNG")
                elif not is_pure(c) and not (isinstance(c.func, ast.Attribute) and isinstance(c.func.value, ast.Name)):
                    return None          # a call of something unknown
    return reads, writes


def _independent(comp, body, target):
    a = _touches([g.iter for g in comp.generators] + [c for g in comp.generators for c in g.ifs] + [comp.elt])
    b = _touches(body)
    if a is None or b is None:
        return False
    ra, wa = a
    rb, wb = b
    tn = _names(target)
    wa = {y for x in wa for y in _affected("unknown", x)}
    wb = {y for x in wb for y in _affected("unknown", x)} - tn
    return not (wa & (rb | wb)) and not (wb & ra)


_EDGE_FN = [None]


def _edge_pairs(it):
    """'pairs' when the elements handed to add_edges_from are certainly 2-tuples (a display (u, v), or the elements of
    X.edges() without arguments), 'triples' when they are displays (u, v, {...}); None when that cannot be seen."""
    if isinstance(it, (ast.GeneratorExp, ast.ListComp)):
        e = it.elt
        if isinstance(e, ast.Tuple) and len(e.elts) == 2:
            return "pairs"
        if isinstance(e, ast.Tuple) and len(e.elts) == 3 and isinstance(e.elts[2], ast.Dict) \
                and all(isinstance(k, ast.Constant) and isinstance(k.value, str) for k in e.elts[2].keys):
            return "triples"
        if isinstance(e, ast.Name) and len(it.generators) == 1 and isinstance(it.generators[0].target, ast.Name) \
                and it.generators[0].target.id == e.id:
            return _edge_pairs(it.generators[0].iter)
        return None
    if isinstance(it, ast.Call) and isinstance(it.func, ast.Attribute) and it.func.attr == "edges" and not it.args and not it.keywords:
        return "pairs"
    if isinstance(it, ast.Name) and _EDGE_FN[0] is not None:
        # a list filled by one `L.append(e)` where e is a pair display or the variable of a loop over X.edges()
        L = it.id
        fn = _EDGE_FN[0]
        stores = [n for n in ast.walk(fn) if isinstance(n, ast.Assign) and len(n.targets) == 1 and isinstance(n.targets[0], ast.Name)
                  and n.targets[0].id == L]
        if len(stores) == 1 and isinstance(stores[0].value, ast.List) and not stores[0].value.elts:
            for loop in [n for n in ast.walk(fn) if isinstance(n, ast.For)]:
                apps = [c for c in ast.walk(loop) if isinstance(c, ast.Call) and isinstance(c.func, ast.Attribute) and c.func.attr == "append"
                        and _chain(c.func.value) == L and len(c.args) == 1]
                if len(apps) == 1:
                    e = apps[0].args[0]
                    if isinstance(e, ast.Tuple) and len(e.elts) == 2:
                        return "pairs"
                    if isinstance(e, ast.Name) and isinstance(loop.target, ast.Name) and loop.target.id == e.id:
                        return _edge_pairs(loop.iter)
    return None


_ep_counter = [0]


def edge_pair_loops(fn):
    """networkx: `G.edges()` (no arguments) yields pairs.  `for u, v in G.edges(): ... u ... v` and
    `for e in G.edges(): ... f(*e)` are both written with one loop variable and its two components e[0], e[1]."""
    changed = False
    outside_cache = {}
    # `for n, k in G.degree(): ...` is `for n in G: k = G.degree(n); ...` (the degree view follows node order)
    for lp in [n for n in ast.walk(fn) if isinstance(n, ast.For)]:
        it = lp.iter
        if isinstance(it, ast.Call) and isinstance(it.func, ast.Attribute) and it.func.attr == "degree" and not it.args and not it.keywords \
                and isinstance(it.func.value, ast.Name) and not lp.orelse \
                and isinstance(lp.target, ast.Tuple) and len(lp.target.elts) == 2 and all(isinstance(x, ast.Name) for x in lp.target.elts) \
                and lp.target.elts[0].id != lp.target.elts[1].id:
            nd, k = lp.target.elts
            G_ = it.func.value
            lp.body.insert(0, ast.Assign(targets=[ast.Name(id=k.id, ctx=ast.Store())], value=ast.Call(
                func=ast.Attribute(value=ast.Name(id=G_.id, ctx=ast.Load()), attr="degree", ctx=ast.Load()),
                args=[ast.Name(id=nd.id, ctx=ast.Load())], keywords=[])))
            lp.target = ast.Name(id=nd.id, ctx=ast.Store())
            lp.iter = ast.Name(id=G_.id, ctx=ast.Load())
            changed = True
    for lp in [n for n in ast.walk(fn) if isinstance(n, ast.For)]:
        it = lp.iter
        if not (isinstance(it, ast.Call) and isinstance(it.func, ast.Attribute) and it.func.attr == "edges" and not it.args
                and not it.keywords and not lp.orelse):
            continue
        if isinstance(lp.target, ast.Tuple) and len(lp.target.elts) == 2 and all(isinstance(x, ast.Name) for x in lp.target.elts):
            a, b = (x.id for x in lp.target.elts)
            if a == b:
                continue
            inside = {id(n) for st in lp.body for n in ast.walk(st)} | {id(n) for n in ast.walk(lp.target)}
            used_elsewhere = any(isinstance(n, ast.Name) and n.id in (a, b) and id(n) not in inside for n in ast.walk(fn))
            rebound = any(isinstance(n, ast.Name) and n.id in (a, b) and isinstance(n.ctx, ast.Store) for st in lp.body for n in ast.walk(st))
            captured = any(isinstance(n, (ast.Lambda, ast.FunctionDef)) for st in lp.body for n in ast.walk(st))
            if used_elsewhere or rebound or captured:
                continue
            _ep_counter[0] += 1
            e = "__ep%d" % _ep_counter[0]
            m = {a: ast.Subscript(value=ast.Name(id=e, ctx=ast.Load()), slice=ast.Constant(0), ctx=ast.Load()),
                 b: ast.Subscript(value=ast.Name(id=e, ctx=ast.Load()), slice=ast.Constant(1), ctx=ast.Load())}
            lp.body = [_Subst(m).visit(st) for st in lp.body]
            lp.target = ast.Name(id=e, ctx=ast.Store())
            changed = True
        elif isinstance(lp.target, ast.Name):
            e = lp.target.id
            for st in lp.body:
                for c in ast.walk(st):
                    if isinstance(c, ast.Call) and any(isinstance(x, ast.Starred) and isinstance(x.value, ast.Name) and x.value.id == e for x in c.args):
                        new = []
                        for x in c.args:
                            if isinstance(x, ast.Starred) and isinstance(x.value, ast.Name) and x.value.id == e:
                                new.append(ast.Subscript(value=ast.Name(id=e, ctx=ast.Load()), slice=ast.Constant(0), ctx=ast.Load()))
                                new.append(ast.Subscript(value=ast.Name(id=e, ctx=ast.Load()), slice=ast.Constant(1), ctx=ast.Load()))
                            else:
                                new.append(x)
                        c.args = new
                        changed = True
    if changed:
        ast.fix_missing_locations(fn)
    return changed


def networkx_bulk_calls(fn):
    """networkx: `H.add_edges_from(it)` is `for e in it: H.add_edge(*e)`, `H.add_nodes_from(it)` is `for n in it: H.add_node(n)`
    (no attribute keywords), and iterating `G.nodes()` is iterating `G`.  A `for` over a generator expression is the nested
    loops it abbreviates (a generator is consumed lazily, so the interleaving is the same)."""
    changed = False
    _EDGE_FN[0] = fn
    for owner, fld in _blocks_of(fn):
        body = getattr(owner, fld)
        new = []
        for st in body:
            c = st.value if isinstance(st, ast.Expr) and isinstance(st.value, ast.Call) else None
            if c is not None and isinstance(c.func, ast.Attribute) and c.func.attr == "add_edges_from" and isinstance(c.func.value, ast.Name) \
                    and len(c.args) == 1 and not c.keywords and isinstance(c.args[0], ast.GeneratorExp) \
                    and isinstance(c.args[0].elt, ast.Tuple) and _edge_pairs(c.args[0]) is not None:
                # the elements are displays: write the call with the components themselves
                g = c.args[0]
                el = g.elt.elts
                kws = []
                if len(el) == 3:
                    kws = [ast.keyword(arg=k.value, value=v) for k, v in zip(el[2].keys, el[2].values)]
                call = ast.Call(func=ast.Attribute(value=c.func.value, attr="add_edge", ctx=ast.Load()), args=[el[0], el[1]], keywords=kws)
                inner = [ast.Expr(value=call)]
                for gen in reversed(g.generators):
                    for cnd in reversed(gen.ifs):
                        inner = [ast.If(test=cnd, body=inner, orelse=[])]
                    for t in ast.walk(gen.target):
                        if isinstance(t, ast.Name):
                            t.ctx = ast.Store()
                    inner = [ast.For(target=gen.target, iter=gen.iter, body=inner, orelse=[], type_comment=None)]
                new.append(ast.copy_location(inner[0], st))
                changed = True
                continue
            if c is not None and isinstance(c.func, ast.Attribute) and c.func.attr in ("add_edges_from", "add_nodes_from") \
                    and isinstance(c.func.value, ast.Name) and len(c.args) == 1 and not c.keywords \
                    and (c.func.attr == "add_nodes_from" or _edge_pairs(c.args[0]) is not None):
                _cx_counter[0] += 1
                v = "__b%d" % _cx_counter[0]
                kws = []
                if c.func.attr == "add_edges_from":
                    kind = _edge_pairs(c.args[0])
                    if kind == "pairs":
                        args_ = [ast.Starred(value=ast.Name(id=v, ctx=ast.Load()), ctx=ast.Load())]
                    else:
                        # elements are (u, v, {'key': value}) displays: the dict holds the edge attributes
                        args_ = [ast.Subscript(value=ast.Name(id=v, ctx=ast.Load()), slice=ast.Constant(0), ctx=ast.Load()),
                                 ast.Subscript(value=ast.Name(id=v, ctx=ast.Load()), slice=ast.Constant(1), ctx=ast.Load())]
                        kws = [ast.keyword(arg=None, value=ast.Subscript(value=ast.Name(id=v, ctx=ast.Load()), slice=ast.Constant(2), ctx=ast.Load()))]
                else:
                    args_ = [ast.Name(id=v, ctx=ast.Load())]
                call = ast.Call(func=ast.Attribute(value=c.func.value, attr="add_edge" if c.func.attr == "add_edges_from" else "add_node",
                                                   ctx=ast.Load()), args=args_, keywords=kws)
                new.append(ast.copy_location(ast.For(target=ast.Name(id=v, ctx=ast.Store()), iter=c.args[0],
                                                     body=[ast.Expr(value=call)], orelse=[], type_comment=None), st))
                changed = True
            else:
                new.append(st)
        setattr(owner, fld, new)
    for loop in [n for n in ast.walk(fn) if isinstance(n, ast.For)]:
        it = loop.iter
        if isinstance(it, ast.Call) and isinstance(it.func, ast.Attribute) and it.func.attr == "nodes" and not it.args and not it.keywords \
                and isinstance(it.func.value, ast.Name):
            loop.iter = it.func.value
            changed = True
        if isinstance(loop.iter, ast.ListComp) and not loop.orelse and _independent(loop.iter, loop.body, loop.target):
            # the list is built completely before the first iteration; when building it and the loop body do not touch the
            # same things (e.g. random draws on one side, additions to a graph on the other) the interleaving is immaterial
            loop.iter = ast.GeneratorExp(elt=loop.iter.elt, generators=loop.iter.generators)
            changed = True
        if isinstance(loop.iter, ast.GeneratorExp) and not loop.orelse and not any(g.is_async for g in loop.iter.generators):
            g = copy.deepcopy(loop.iter)
            ren = {}
            for gen in g.generators:
                for t in ast.walk(gen.target):
                    if isinstance(t, ast.Name) and t.id not in ren:
                        _cx_counter[0] += 1
                        ren[t.id] = "%s__g%d" % (t.id, _cx_counter[0])
            skip = {id(n) for n in ast.walk(g.generators[0].iter)}
            for n in ast.walk(g):
                if isinstance(n, ast.Name) and n.id in ren and id(n) not in skip:
                    n.id = ren[n.id]
            inner = [ast.Assign(targets=[loop.target], value=g.elt)] + loop.body
            for gen in reversed(g.generators):
                for c in reversed(gen.ifs):
                    inner = [ast.If(test=c, body=inner, orelse=[])]
                for t in ast.walk(gen.target):
                    if isinstance(t, ast.Name):
                        t.ctx = ast.Store()
                inner = [ast.For(target=gen.target, iter=gen.iter, body=inner, orelse=[], type_comment=None)]
            outer = inner[0]
            loop.target, loop.iter, loop.body = outer.target, outer.iter, outer.body
            changed = True
    if changed:
        ast.fix_missing_locations(fn)
    return changed


def unroll_literal_loops(fn):
    """`for a, b in ((x1, y1), (x2, y2)): body` over a short literal display of names / constants is the body written once per
    element (body without break / continue, loop variables not rebound in it and not read afterwards)."""
    changed = False
    for owner, fld in _blocks_of(fn):
        body = getattr(owner, fld)
        new = []
        for st in body:
            ok = isinstance(st, ast.For) and not st.orelse and isinstance(st.iter, (ast.Tuple, ast.List)) and 1 <= len(st.iter.elts) <= 4
            if ok:
                tg = [st.target] if isinstance(st.target, ast.Name) else (
                    list(st.target.elts) if isinstance(st.target, ast.Tuple) and all(isinstance(e, ast.Name) for e in st.target.elts) else None)
                ok = tg is not None
            if ok:
                rows = []
                for el in st.iter.elts:
                    vals = [el] if isinstance(st.target, ast.Name) else (list(el.elts) if isinstance(el, ast.Tuple) and len(el.elts) == len(tg) else None)
                    if vals is None or not all(isinstance(v, (ast.Name, ast.Constant)) for v in vals):
                        ok = False
                        break
                    rows.append(vals)
            if ok:
                names = {t.id for t in tg}
                if any(isinstance(n, (ast.Break, ast.Continue)) for z in st.body for n in ast.walk(z)) or \
                        any(isinstance(n, ast.Name) and n.id in names and isinstance(n.ctx, (ast.Store, ast.Del)) for z in st.body for n in ast.walk(z)) or \
                        any(isinstance(n, (ast.Lambda, ast.FunctionDef)) for z in st.body for n in ast.walk(z)):
                    ok = False
                total = sum(1 for n in ast.walk(fn) if isinstance(n, ast.Name) and n.id in names and isinstance(n.ctx, ast.Load))
                inside = sum(1 for z in st.body for n in ast.walk(z) if isinstance(n, ast.Name) and n.id in names and isinstance(n.ctx, ast.Load))
                ok = ok and total == inside
            if ok:
                for vals in rows:
                    m = {t.id: v for t, v in zip(tg, vals)}
                    for z in st.body:
                        zz = copy.deepcopy(z)

                        class S(ast.NodeTransformer):
                            def visit_Name(self, n):
                                if n.id in m and isinstance(n.ctx, ast.Load):
                                    return copy.deepcopy(m[n.id])
                                return n
                        new.append(S().visit(zz))
                changed = True
            else:
                new.append(st)
        setattr(owner, fld, new)
    if changed:
        ast.fix_missing_locations(fn)
    return changed


def fuse_list_loops(fn):
    """`L = []`, a loop whose only use of L is one `L.append(e)`, then `for w in L: body` and nothing else mentions L:
    the body runs where the element is produced (`w = e; body`) when producing the elements and the body touch different
    things, so that doing all of one before all of the other is the same as interleaving them."""
    changed = False
    for scope in [n for n in ast.walk(fn) if isinstance(n, ast.FunctionDef)]:
        for owner, fld in _scope_blocks(scope):
            body = getattr(owner, fld)
            for i, st in enumerate(body):
                if not (isinstance(st, ast.Assign) and len(st.targets) == 1 and isinstance(st.targets[0], ast.Name)
                        and isinstance(st.value, ast.List) and not st.value.elts):
                    continue
                L = st.targets[0].id
                mentions = [n for n in ast.walk(scope) if isinstance(n, ast.Name) and n.id == L]
                if len(mentions) != 3:
                    continue
                prod = cons = None
                for j in range(i + 1, len(body)):
                    z = body[j]
                    if isinstance(z, ast.For) and prod is None and any(isinstance(n, ast.Name) and n.id == L for n in ast.walk(z)) \
                            and not (isinstance(z.iter, ast.Name) and z.iter.id == L):
                        prod = j
                    elif isinstance(z, ast.For) and prod is not None and isinstance(z.iter, ast.Name) and z.iter.id == L and not z.orelse:
                        cons = j
                        break
                if prod is None or cons is None or cons != prod + 1:
                    continue
                P, C = body[prod], body[cons]
                apps = []
                for owner2, fld2 in _blocks_of(P):
                    b2 = getattr(owner2, fld2)
                    for k, y in enumerate(b2):
                        if isinstance(y, ast.Expr) and isinstance(y.value, ast.Call) and isinstance(y.value.func, ast.Attribute) \
                                and y.value.func.attr == "append" and isinstance(y.value.func.value, ast.Name) and y.value.func.value.id == L \
                                and len(y.value.args) == 1:
                            apps.append((b2, k, y))
                if len(apps) != 1 or any(isinstance(n, (ast.Break, ast.Continue, ast.Return)) for z in C.body for n in ast.walk(z)):
                    continue
                b2, k, y = apps[0]
                # producing the elements (everything in P except the append) vs the consumer body
                shadow = copy.deepcopy(P)
                for owner3, fld3 in _blocks_of(shadow):
                    setattr(owner3, fld3, [q for q in getattr(owner3, fld3) if not (
                        isinstance(q, ast.Expr) and isinstance(q.value, ast.Call) and isinstance(q.value.func, ast.Attribute)
                        and q.value.func.attr == "append" and _chain(q.value.func.value) == L)] or [ast.Pass()])
                a = _touches([shadow, y.value.args[0]])
                b = _touches(C.body)
                if a is None or b is None:
                    continue
                ra, wa = a
                rb, wb = b
                tn = _names(C.target)
                wa = {q for x in wa for q in _affected("unknown", x)} - {L}
                wb = {q for x in wb for q in _affected("unknown", x)} - tn
                if wa & (rb | wb) or wb & (ra - {L}):
                    continue
                b2[k:k + 1] = [ast.Assign(targets=[C.target], value=y.value.args[0])] + C.body
                del body[cons]
                del body[i]
                changed = True
                break
    if changed:
        ast.fix_missing_locations(fn)
    return changed


def mapping_loops(fn):
    """Axiom (mappings): an object that is iterated and subscripted with the iterated element is a mapping.
    `for k, v in D.items(): B`  ->  `for k in D: B[v := D[k]]`   (v, k, D and D's slots not rebound in B);
    `for k in D: B` where k is read only as `D[k]`  ->  `for v in D.values(): B[D[k] := v]`."""
    changed = False
    for loop in [n for n in ast.walk(fn) if isinstance(n, ast.For)]:
        it = loop.iter
        # items -> keys
        if isinstance(it, ast.Call) and isinstance(it.func, ast.Attribute) and it.func.attr == "items" and not it.args and not it.keywords \
                and isinstance(it.func.value, ast.Name) and isinstance(loop.target, ast.Tuple) and len(loop.target.elts) == 2 \
                and all(isinstance(e, ast.Name) for e in loop.target.elts):
            D = it.func.value.id
            k, v = loop.target.elts[0].id, loop.target.elts[1].id
            if _mapping_body_ok(loop.body, D, {k, v}) and _only_in(fn, loop, v) and D not in (k, v):
                for st in loop.body:
                    _Subst({v: ast.Subscript(value=ast.Name(id=D, ctx=ast.Load()), slice=ast.Name(id=k, ctx=ast.Load()), ctx=ast.Load())}).visit(st)
                loop.target = ast.Name(id=k, ctx=ast.Store())
                loop.iter = ast.Name(id=D, ctx=ast.Load())
                changed = True
                it = loop.iter
        # keys -> values
        if isinstance(it, ast.Name) and isinstance(loop.target, ast.Name):
            D, k = it.id, loop.target.id
            if not _mapping_body_ok(loop.body, D, {k}) or not _only_in(fn, loop, k) or D == k:
                continue
            idx = []
            other = 0
            for st in loop.body:
                for n in ast.walk(st):
                    if isinstance(n, ast.Subscript) and isinstance(n.value, ast.Name) and n.value.id == D and isinstance(n.slice, ast.Name) \
                            and n.slice.id == k and isinstance(n.ctx, ast.Load):
                        idx.append(n)
            nk = sum(1 for st in loop.body for n in ast.walk(st) if isinstance(n, ast.Name) and n.id == k)
            nd = sum(1 for st in loop.body for n in ast.walk(st) if isinstance(n, ast.Name) and n.id == D)
            if idx and nk == len(idx) and nd == len(idx) and not any(isinstance(n, (ast.Lambda, ast.FunctionDef)) for st in loop.body for n in ast.walk(st)):
                class R(ast.NodeTransformer):
                    def visit_Subscript(self, n):
                        if any(n is y for y in idx):
                            return ast.Name(id=k, ctx=ast.Load())
                        self.generic_visit(n)
                        return n
                loop.body = [R().visit(st) for st in loop.body]
                loop.iter = ast.Call(func=ast.Attribute(value=ast.Name(id=D, ctx=ast.Load()), attr="values", ctx=ast.Load()), args=[], keywords=[])
                changed = True
    if changed:
        ast.fix_missing_locations(fn)
    return changed


def _only_in(fn, loop, name):
    """Every read of `name` in fn is in the body of `loop`, outside any closure."""
    inside = sum(1 for st in loop.body for n in ast.walk(st) if isinstance(n, ast.Name) and n.id == name and isinstance(n.ctx, ast.Load))
    total = sum(1 for n in ast.walk(fn) if isinstance(n, ast.Name) and n.id == name and isinstance(n.ctx, ast.Load))
    closures = any(name in _names(n) for st in loop.body for n in ast.walk(st) if isinstance(n, (ast.Lambda, ast.FunctionDef)))
    return inside == total and not closures


def _mapping_body_ok(body, D, bound):
    """Nothing in the loop body rebinds D or the loop variables, stores into / deletes a slot of D itself, or calls a
    mutator on D itself (changing the objects stored IN D is fine)."""
    for st in body:
        for kind, pay in _mutations(st):
            if kind == "bind" and (pay == D or pay in bound):
                return False
            if kind == "unknown" and (pay == D or pay == "?"):
                return False
            if kind == "slot" and pay[0] == D and len(pay) == 2:
                return False
            if kind == "call" and pay == (D,):
                return False
    return True


def coalesce_copies(fn):
    """`y = e; ...; x = y` in one block, y bound only there, every read of y between its definition and the copy, x neither
    read nor written in between: y is x from the start (`x = e; ...` with y's reads written as x) and the copy disappears.
    (This is what an inlined helper leaves behind: `__h_total = ...; total = __h_total`.)"""
    changed = False
    for scope in [n for n in ast.walk(fn) if isinstance(n, ast.FunctionDef)]:
        params = {a.arg for a in scope.args.posonlyargs + scope.args.args + scope.args.kwonlyargs}
        captured = set()
        for n in _scope_nodes(scope):
            if isinstance(n, (ast.FunctionDef, ast.Lambda, ast.ListComp, ast.SetComp, ast.DictComp, ast.GeneratorExp)) and n is not scope:
                captured |= _names(n)
        stores, loads = {}, {}
        for n in _scope_nodes(scope):
            if isinstance(n, ast.Name):
                d = loads if isinstance(n.ctx, ast.Load) else stores
                d[n.id] = d.get(n.id, 0) + 1
        for owner, fld in _scope_blocks(scope):
            body = getattr(owner, fld)
            j = 0
            while j < len(body):
                st = body[j]
                j += 1
                if not (isinstance(st, ast.Assign) and len(st.targets) == 1 and isinstance(st.targets[0], ast.Name)
                        and isinstance(st.value, ast.Name)):
                    continue
                x, y = st.targets[0].id, st.value.id
                if x == y or y in params or x in captured or y in captured or stores.get(y) != 1:
                    continue
                k = j - 1
                d = None
                for i in range(k - 1, -1, -1):
                    z = body[i]
                    if isinstance(z, ast.Assign) and len(z.targets) == 1 and isinstance(z.targets[0], ast.Name) and z.targets[0].id == y:
                        d = i
                        break
                if d is None:
                    continue
                between = body[d + 1:k]
                if any(isinstance(n, ast.Name) and n.id == x for z in between for n in ast.walk(z)) or x in _names(body[d].value):
                    continue
                ny = sum(1 for z in between for n in ast.walk(z) if isinstance(n, ast.Name) and n.id == y and isinstance(n.ctx, ast.Load))
                if ny + 1 != loads.get(y, 0):
                    continue
                if any(isinstance(z, (ast.FunctionDef, ast.ClassDef)) for z in between):
                    continue
                body[d].targets[0].id = x
                for z in between:
                    for n in ast.walk(z):
                        if isinstance(n, ast.Name) and n.id == y:
                            n.id = x
                del body[k]
                j = k
                loads[y] = 0
                stores[y] = 0
                stores[x] = stores.get(x, 0)      # one store replaced by another
                loads[x] = loads.get(x, 0) + ny
                changed = True
    return changed


def takeover_copies(fn):
    """`x = y` outside any loop, x not mentioned before it and y never mentioned after it (in source order): x simply
    continues under y's name (what inlining a helper that rebinds its own parameter leaves behind:
    `__h_kwargs = kwargs; if __h_kwargs is None: __h_kwargs = {}`)."""
    changed = False
    for scope in [n for n in ast.walk(fn) if isinstance(n, ast.FunctionDef)]:
        captured = set()
        for n in _scope_nodes(scope):
            if isinstance(n, (ast.FunctionDef, ast.Lambda, ast.ListComp, ast.SetComp, ast.DictComp, ast.GeneratorExp)) and n is not scope:
                captured |= _names(n)
        in_loop = set()
        for n in ast.walk(scope):
            if isinstance(n, (ast.For, ast.While)):
                for m in ast.walk(n):
                    in_loop.add(id(m))
        order = []

        def dfs(n):
            if isinstance(n, ast.Name):
                order.append(n)
            for c in ast.iter_child_nodes(n):
                dfs(c)
        for st in scope.body:
            dfs(st)
        for owner, fld in _scope_blocks(scope):
            body = getattr(owner, fld)
            for st in list(body):
                if not (isinstance(st, ast.Assign) and len(st.targets) == 1 and isinstance(st.targets[0], ast.Name)
                        and isinstance(st.value, ast.Name)) or id(st) in in_loop:
                    continue
                x, y = st.targets[0].id, st.value.id
                if x == y or x in captured or y in captured:
                    continue
                pos = next(i for i, n in enumerate(order) if n is st.value)
                if any(n.id == x for n in order[:pos] if n is not st.targets[0]) or any(n.id == y for n in order[pos + 1:]):
                    continue
                for n in order[pos + 1:]:
                    if n.id == x:
                        n.id = y
                body.remove(st)
                if not body:
                    body.append(ast.Pass())
                order = [n for n in order if n is not st.value and n is not st.targets[0]]
                changed = True
    return changed


def merge_copies(fn):
    """`x = y` (two local names): from here to the end of the block, as long as neither is rebound, x and y are the same
    object.  When every other read of y lies in that region, those reads are written as x, which leaves y with the copy as
    its only use (its definition then moves into the copy)."""
    changed = False
    for scope in [n for n in ast.walk(fn) if isinstance(n, ast.FunctionDef)]:
        params = {a.arg for a in scope.args.posonlyargs + scope.args.args + scope.args.kwonlyargs}
        captured = set()
        for n in _scope_nodes(scope):
            if isinstance(n, (ast.FunctionDef, ast.Lambda, ast.ListComp, ast.SetComp, ast.DictComp, ast.GeneratorExp)) and n is not scope:
                captured |= _names(n)
        loads = {}
        for n in _scope_nodes(scope):
            if isinstance(n, ast.Name) and isinstance(n.ctx, ast.Load):
                loads[n.id] = loads.get(n.id, 0) + 1
        for owner, fld in _scope_blocks(scope):
            body = getattr(owner, fld)
            for i, st in enumerate(body):
                if not (isinstance(st, ast.Assign) and len(st.targets) == 1 and isinstance(st.targets[0], ast.Name)
                        and isinstance(st.value, ast.Name)):
                    continue
                x, y = st.targets[0].id, st.value.id
                if x == y or y in params or x in captured or y in captured:
                    continue
                region = []
                for s2 in body[i + 1:]:
                    if any(isinstance(n, ast.Name) and n.id in (x, y) and isinstance(n.ctx, (ast.Store, ast.Del)) for n in ast.walk(s2)):
                        break
                    region.append(s2)
                uses = [n for s2 in region for n in ast.walk(s2) if isinstance(n, ast.Name) and n.id == y and isinstance(n.ctx, ast.Load)]
                if uses and len(uses) + 1 == loads.get(y, 0):
                    for u in uses:
                        u.id = x
                    loads[y] = 1
                    loads[x] = loads.get(x, 0) + len(uses)
                    changed = True
    return changed


# ---------------------------------------------------------------------------------------------------- C11 single assignment
def propagate_single_assignment_copies(fn):
    """`x = y` where both x and y are bound exactly once in the function (y may be a parameter that is never rebound):
    x is y wherever x is bound at all, also inside closures."""
    changed = False
    for scope in [n for n in ast.walk(fn) if isinstance(n, ast.FunctionDef)]:
        params = {a.arg for a in scope.args.posonlyargs + scope.args.args + scope.args.kwonlyargs}
        if scope.args.vararg:
            params.add(scope.args.vararg.arg)
        if scope.args.kwarg:
            params.add(scope.args.kwarg.arg)
        stores = {}
        for n in ast.walk(scope):
            if n is scope:
                continue
            if isinstance(n, ast.Name) and isinstance(n.ctx, (ast.Store, ast.Del)):
                stores[n.id] = stores.get(n.id, 0) + 1
            elif isinstance(n, (ast.FunctionDef, ast.ClassDef)):
                stores[n.name] = stores.get(n.name, 0) + 1
            elif isinstance(n, ast.arg):
                stores[n.arg] = stores.get(n.arg, 0) + 1     # a nested function's parameter of the same name shadows
            elif isinstance(n, ast.ExceptHandler) and n.name:
                stores[n.name] = stores.get(n.name, 0) + 1
            elif isinstance(n, (ast.Global, ast.Nonlocal)):
                for nm in n.names:
                    stores[nm] = stores.get(nm, 0) + 5
        in_loop = set()
        for n in ast.walk(scope):
            if isinstance(n, (ast.For, ast.While, ast.ListComp, ast.SetComp, ast.DictComp, ast.GeneratorExp)):
                for m in ast.walk(n):
                    if m is not n:
                        in_loop.add(id(m))
        bound_in_loop = {n.id for n in ast.walk(scope) if isinstance(n, ast.Name) and isinstance(n.ctx, (ast.Store, ast.Del)) and id(n) in in_loop}
        for owner, fld in _scope_blocks(scope):
            body = getattr(owner, fld)
            for i, st in enumerate(list(body)):
                if isinstance(st, ast.Assign) and len(st.targets) == 1 and isinstance(st.targets[0], ast.Name) and isinstance(st.value, ast.Name):
                    x, y = st.targets[0].id, st.value.id
                    if x == y or x in params or id(st) in in_loop or y in bound_in_loop:
                        continue
                    ys = stores.get(y, 0)
                    if stores.get(x, 0) != 1 or ys != 1:
                        continue
                    # y: a parameter of this scope (its one `arg` store) or a local bound once
                    for n in ast.walk(scope):
                        if isinstance(n, ast.Name) and n.id == x and isinstance(n.ctx, ast.Load):
                            n.id = y
                    body.remove(st)
                    if not body:
                        body.append(ast.Pass())
                    stores[x] = 0
                    changed = True
    return changed


# ---------------------------------------------------------------------------------------------------- pipeline
_cv_counter = [0]


def rename_comprehension_vars(fn):
    """Comprehension variables live in the comprehension's own scope: give each a name of its own, so that a function
    local of the same spelling is not mistaken for it (innermost comprehensions first)."""
    comps = [n for n in ast.walk(fn) if isinstance(n, (ast.ListComp, ast.SetComp, ast.DictComp, ast.GeneratorExp))]
    for c in reversed(comps):
        ren = {}
        for g in c.generators:
            for t in ast.walk(g.target):
                if isinstance(t, ast.Name) and t.id not in ren:
                    _cv_counter[0] += 1
                    ren[t.id] = "%s__v%d" % (t.id, _cv_counter[0])
        first = c.generators[0].iter
        skip = {id(n) for n in ast.walk(first)}
        for n in ast.walk(c):
            if isinstance(n, ast.Name) and n.id in ren and id(n) not in skip:
                n.id = ren[n.id]


def expand_star_tuples(fn):
    """f(*t) where t is bound once, outside any loop, to a tuple/list display of names that are themselves never rebound
    afterwards (parameters that are not assigned, or single non-loop assignments), and t is used for nothing else:
    the display's elements are written at the call.  `f(*(a, b))` -> `f(a, b)`."""
    for scope in [n for n in ast.walk(fn) if isinstance(n, ast.FunctionDef)]:
        stores = {}
        in_loop = set()
        for n in _scope_nodes(scope):
            if isinstance(n, (ast.For, ast.While)):
                for m in ast.walk(n):
                    in_loop.add(id(m))
        for n in _scope_nodes(scope):
            if isinstance(n, ast.Name) and isinstance(n.ctx, (ast.Store, ast.Del)):
                stores.setdefault(n.id, []).append(n)
        loads = {}
        for n in ast.walk(scope):
            if isinstance(n, ast.Name) and isinstance(n.ctx, ast.Load):
                loads[n.id] = loads.get(n.id, 0) + 1
        cands = {}
        for owner, fld in _scope_blocks(scope):
            for st in getattr(owner, fld):
                if isinstance(st, ast.Assign) and len(st.targets) == 1 and isinstance(st.targets[0], ast.Name) \
                        and isinstance(st.value, (ast.Tuple, ast.List)) and id(st) not in in_loop:
                    t = st.targets[0].id
                    if len(stores.get(t, [])) != 1:
                        continue
                    if all(isinstance(e, ast.Constant) or (isinstance(e, ast.Name) and (len(stores.get(e.id, [])) == 0 or
                           (len(stores.get(e.id, [])) == 1 and id(stores[e.id][0]) not in in_loop))) for e in st.value.elts):
                        cands[t] = (st, owner, fld)
        if cands:
            star_uses = {}
            for n in ast.walk(scope):
                if isinstance(n, ast.Call):
                    for a in n.args:
                        if isinstance(a, ast.Starred) and isinstance(a.value, ast.Name) and a.value.id in cands:
                            star_uses[a.value.id] = star_uses.get(a.value.id, 0) + 1
                # (a, b) + t  /  t + (a, b): concatenation with a tuple display builds a new tuple of the same elements
                if isinstance(n, ast.BinOp) and isinstance(n.op, ast.Add):
                    for side, other in ((n.left, n.right), (n.right, n.left)):
                        if isinstance(side, ast.Name) and side.id in cands and isinstance(cands[side.id][0].value, ast.Tuple) \
                                and isinstance(other, ast.Tuple):
                            star_uses[side.id] = star_uses.get(side.id, 0) + 1
            for t, (st, owner, fld) in cands.items():
                if star_uses.get(t, 0) and star_uses[t] == loads.get(t, 0):
                    class CC(ast.NodeTransformer):
                        def visit_BinOp(self, n):
                            self.generic_visit(n)
                            if isinstance(n.op, ast.Add) and isinstance(st.value, ast.Tuple):
                                if isinstance(n.left, ast.Name) and n.left.id == t and isinstance(n.right, ast.Tuple):
                                    n.left = copy.deepcopy(st.value)
                                elif isinstance(n.right, ast.Name) and n.right.id == t and isinstance(n.left, ast.Tuple):
                                    n.right = copy.deepcopy(st.value)
                            return n
                    CC().visit(scope)
                    for n in ast.walk(scope):
                        if isinstance(n, ast.Call):
                            new = []
                            for a in n.args:
                                if isinstance(a, ast.Starred) and isinstance(a.value, ast.Name) and a.value.id == t:
                                    new.extend(copy.deepcopy(e) for e in st.value.elts)
                                else:
                                    new.append(a)
                            n.args = new
                    body = getattr(owner, fld)
                    body.remove(st)
                    if not body:
                        body.append(ast.Pass())
    class TC(ast.NodeTransformer):
        def visit_Subscript(self, n):
            self.generic_visit(n)
            return _project_tuple(n)

        def visit_BinOp(self, n):
            self.generic_visit(n)
            if isinstance(n.op, ast.Add) and isinstance(n.left, ast.Tuple) and isinstance(n.right, ast.Tuple):
                return ast.copy_location(ast.Tuple(elts=list(n.left.elts) + list(n.right.elts), ctx=ast.Load()), n)
            return n
    TC().visit(fn)
    for n in ast.walk(fn):
        if isinstance(n, ast.Call) and any(isinstance(a, ast.Starred) and isinstance(a.value, (ast.Tuple, ast.List)) for a in n.args):
            new = []
            for a in n.args:
                if isinstance(a, ast.Starred) and isinstance(a.value, (ast.Tuple, ast.List)):
                    new.extend(a.value.elts)
                else:
                    new.append(a)
            n.args = new


def local_helpers(fn):
    """Nested functions of fn that are only ever CALLED by name (never passed around, returned or stored), are not
    recursive, take no */** parameters and declare nothing nonlocal/global: a call of such a closure is its body."""
    out = {}
    for st in _scope_nodes(fn):
        if not isinstance(st, ast.FunctionDef) or st.decorator_list or st.args.vararg or st.args.kwarg:
            continue
        nm = st.name
        if any(isinstance(n, (ast.Nonlocal, ast.Global, ast.Yield, ast.YieldFrom)) for n in ast.walk(st)):
            continue
        if any(isinstance(n, ast.Name) and n.id == nm for n in ast.walk(st)):
            continue                      # recursive
        uses = [n for n in ast.walk(fn) if isinstance(n, ast.Name) and n.id == nm]
        called = [n for n in ast.walk(fn) if isinstance(n, ast.Call) and isinstance(n.func, ast.Name) and n.func.id == nm]
        defs = [n for n in _scope_nodes(fn) if isinstance(n, ast.FunctionDef) and n.name == nm]
        if len(defs) == 1 and uses and len(uses) == len(called):
            out[nm] = st
    return out


class _Dunder(ast.NodeTransformer):
    """Inside a method of a class whose __len__ / __contains__ is a single `return <expr>` (and that has no __bool__):
    len(self), `x in self` and the truth value of self are written out."""

    def __init__(self, cls):
        self.len = self.contains = None
        has_bool = False
        for b in cls.body:
            if isinstance(b, ast.FunctionDef):
                bb = copy.deepcopy(b)
                strip(bb)
                if b.name == "__bool__":
                    has_bool = True
                if len(bb.body) == 1 and isinstance(bb.body[0], ast.Return) and bb.body[0].value is not None and not b.decorator_list:
                    ps = [a.arg for a in b.args.args]
                    if b.name == "__len__" and len(ps) == 1:
                        self.len = (ps[0], bb.body[0].value)
                    if b.name == "__contains__" and len(ps) == 2 and is_pure(bb.body[0].value):
                        self.contains = (ps[0], ps[1], bb.body[0].value)
        if has_bool:
            self.len = None
        self.truth = self.len is not None

    def _len(self):
        return _Subst({self.len[0]: ast.Name(id="self", ctx=ast.Load())}).visit(copy.deepcopy(self.len[1]))

    def _truth(self, e):
        if self.truth and isinstance(e, ast.Name) and e.id == "self":
            return ast.Compare(left=self._len(), ops=[ast.Gt()], comparators=[ast.Constant(0)])
        return e

    def visit_Call(self, n):
        self.generic_visit(n)
        if self.len and isinstance(n.func, ast.Name) and n.func.id == "len" and len(n.args) == 1 and isinstance(n.args[0], ast.Name) \
                and n.args[0].id == "self":
            return self._len()
        if self.len and isinstance(n.func, ast.Attribute) and n.func.attr == "__len__" and isinstance(n.func.value, ast.Name) \
                and n.func.value.id == "self" and not n.args:
            return self._len()
        if self.contains and isinstance(n.func, ast.Attribute) and n.func.attr == "__contains__" and isinstance(n.func.value, ast.Name) \
                and n.func.value.id == "self" and len(n.args) == 1 and is_pure(n.args[0]):
            return _Subst({self.contains[0]: ast.Name(id="self", ctx=ast.Load()), self.contains[1]: n.args[0]}).visit(copy.deepcopy(self.contains[2]))
        return n

    def visit_Compare(self, n):
        self.generic_visit(n)
        if self.contains and len(n.ops) == 1 and isinstance(n.ops[0], (ast.In, ast.NotIn)) and isinstance(n.comparators[0], ast.Name) \
                and n.comparators[0].id == "self" and is_pure(n.left):
            e = _Subst({self.contains[0]: ast.Name(id="self", ctx=ast.Load()), self.contains[1]: n.left}).visit(copy.deepcopy(self.contains[2]))
            return e if isinstance(n.ops[0], ast.In) else negate(e)
        return n

    def visit_If(self, n):
        self.generic_visit(n)
        n.test = self._truth(n.test)
        return n

    def visit_While(self, n):
        self.generic_visit(n)
        n.test = self._truth(n.test)
        return n

    def visit_BoolOp(self, n):
        self.generic_visit(n)
        n.values = [self._truth(v) for v in n.values]
        return n

    def visit_UnaryOp(self, n):
        self.generic_visit(n)
        if isinstance(n.op, ast.Not):
            n.operand = self._truth(n.operand)
        return n


def canonical(fn, helpers, sigs=None, cls=None):
    SIGNATURES[0] = sigs or {}
    f = copy.deepcopy(fn)
    _NONLOCAL[0] = any(isinstance(n, (ast.Nonlocal, ast.Global)) for n in ast.walk(f))
    strip(f)
    if cls is not None and f.name not in ("__len__", "__contains__", "__bool__"):
        _Dunder(cls).visit(f)
        ast.fix_missing_locations(f)
    rename_comprehension_vars(f)
    _Idioms().visit(f)
    ast.fix_missing_locations(f)
    expand_star_tuples(f)
    loc = local_helpers(f)
    if helpers or loc:
        hs = dict(helpers)
        hs.update(loc)
        inl0 = Inliner(hs)
        # a helper called inside `x = {k: h(k) for k in ...}` can be inlined as a statement once the comprehension is a loop
        expand_comprehensions(f, only=lambda v: any(isinstance(c, ast.Call) and inl0.lookup(c)[0] is not None for c in ast.walk(v)))
        Inliner(hs).run(f)
        # closures that are no longer referenced disappear
        for owner, fld in _blocks_of(f):
            body = getattr(owner, fld)
            keep = [x for x in body if not (isinstance(x, ast.FunctionDef) and x.name in loc
                                            and not any(isinstance(n, ast.Name) and n.id == x.name for n in ast.walk(f)))]
            if len(keep) != len(body):
                setattr(owner, fld, keep or [ast.Pass()])
        strip(f)
        expand_star_tuples(f)
        takeover_copies(f)
    _Idioms().visit(f)
    ast.fix_missing_locations(f)
    control_flow(f)
    _Idioms().visit(f)
    split_tuples(f)
    split_self_referential_stores(f)
    expand_comprehensions(f)
    unroll_literal_loops(f)
    networkx_bulk_calls(f)
    networkx_bulk_calls(f)
    edge_pair_loops(f)
    fuse_list_loops(f)
    split_tuples(f)
    rename_apart(f)
    mapping_loops(f)
    _ALIAS[0] = alias_classes(f)
    for _ in range(8):
        a = forward_stores(f)
        b = propagate(f)
        c = forward_single_use(f)
        d = propagate_single_assignment_copies(f)
        e = merge_copies(f) | coalesce_copies(f) | takeover_copies(f)
        if not (a or b or c or d or e):
            break
    expand_star_tuples(f)
    edge_pair_loops(f)
    _Idioms().visit(f)
    control_flow(f)
    _ALIAS[0] = alias_classes(f)
    sort_commuting(f)
    _ALIAS[0] = {}
    ast.fix_missing_locations(f)
    digest, _ = A.alpha_form(f)
    return digest, f


_SIGS_MEMO = [None, None]


def _sigs_once(trees):
    if _SIGS_MEMO[0] is not trees:
        _SIGS_MEMO[0], _SIGS_MEMO[1] = trees, signatures_of(trees)
    return _SIGS_MEMO[1]


def inlined_only(fn, helpers, ref_fn=None, sigs=None):
    # the effect tables that depend on the analysed tree (pure package functions, shallow methods) are those of THIS tree,
    # not whatever an earlier canonicalisation in the same process left behind
    saved = SIGNATURES[0]
    SIGNATURES[0] = sigs or {}
    _NONLOCAL[0] = any(isinstance(n, (ast.Nonlocal, ast.Global)) for n in ast.walk(fn))
    try:
        return _inlined_only(fn, helpers, ref_fn)
    finally:
        SIGNATURES[0] = saved


def _inlined_only(fn, helpers, ref_fn=None):
    """fn with the calls of `helpers` (functions the reference does not have) and of its own only-called closures replaced
    by their bodies; nothing else is rewritten.  Used for functions that are NOT refactorings of the reference: the rules
    then see the code the call executes instead of a call they know nothing about.  None if nothing was inlined."""
    f = copy.deepcopy(fn)
    before = ast.dump(f)
    expand_star_tuples(f)
    loc = local_helpers(f)
    hs = dict(helpers)
    hs.update(loc)
    inl = Inliner(hs)
    if hs:
        inl.run(f)
    for owner, fld in _blocks_of(f):
        body = getattr(owner, fld)
        keep = [x for x in body if not (isinstance(x, ast.FunctionDef) and x.name in loc
                                        and not any(isinstance(n, ast.Name) and n.id == x.name for n in ast.walk(f)))]
        if len(keep) != len(body):
            setattr(owner, fld, keep or [ast.Pass()])
    expand_star_tuples(f)
    # temporaries and local aliases under names the reference function does not use (`cands = table[key]`, `n_inf = len(I)`)
    # are written out (same propagation rules as in the canonical form), so that rules anchored on `table[key].remove(...)` or
    # `I.append(len(infecteds))` still see their constructs
    known = {n.id for n in ast.walk(ref_fn) if isinstance(n, ast.Name)} if ref_fn is not None else set()
    fresh = {n.id for n in ast.walk(f) if isinstance(n, ast.Name) and isinstance(n.ctx, ast.Store)} - known
    _ALIAS[0] = alias_classes(f)
    try:
        for _ in range(3):
            if not fresh or not propagate(f, only_names=fresh):
                break
    finally:
        _ALIAS[0] = {}
    # `flag = bool(x)` written out leaves `if bool(x):`, which is `if x:`
    for n in ast.walk(f):
        if isinstance(n, (ast.If, ast.While, ast.IfExp)) and isinstance(n.test, ast.Call) and isinstance(n.test.func, ast.Name) \
                and n.test.func.id == "bool" and len(n.test.args) == 1 and not n.test.keywords and not isinstance(n.test.args[0], ast.Starred):
            n.test = n.test.args[0]
    if ast.dump(f) == before:
        return None
    ast.fix_missing_locations(f)
    return f


def load_reference():
    """module -> normalised ast of the reference copy (None when no reference is frozen)."""
    import warnings
    from .core import MODULES, normalise, canonicalise_calls
    if not os.path.isdir(REFDIR):
        return None
    trees = {}
    for m in MODULES:
        p = os.path.join(REFDIR, m + ".py")
        if not os.path.exists(p):
            return None
        with warnings.catch_warnings():
            warnings.simplefilter("ignore")
            trees[m] = normalise(ast.parse(open(p, encoding="utf-8").read()))
    canonicalise_calls(trees)
    return trees


def _function_slots(tree):
    """[(qual, container list, index, node)] for module-level functions and methods."""
    out = []
    for i, st in enumerate(tree.body):
        if isinstance(st, ast.FunctionDef):
            out.append((st.name, tree.body, i, st))
        elif isinstance(st, ast.ClassDef):
            for j, b in enumerate(st.body):
                if isinstance(b, ast.FunctionDef):
                    out.append(("%s.%s" % (st.name, b.name), st.body, j, b))
                elif isinstance(b, ast.ClassDef):
                    for k, c in enumerate(b.body):
                        if isinstance(c, ast.FunctionDef):
                            out.append(("%s.%s.%s" % (st.name, b.name, c.name), b.body, k, c))
    return out


def _callee_names(fn):
    """(module-level names called, self-method names called) in fn."""
    top, meth = set(), set()
    for n in ast.walk(fn):
        if isinstance(n, ast.Call):
            f = n.func
            if isinstance(f, ast.Name):
                top.add(f.id)
            elif isinstance(f, ast.Attribute) and isinstance(f.value, ast.Name):
                if f.value.id == "EoN":
                    top.add(f.attr)
                elif f.value.id == "self":
                    meth.add(f.attr)
    return top, meth


def _small(fn):
    return sum(1 for n in ast.walk(fn) if isinstance(n, ast.stmt)) <= 25


def changed_functions(trees, ref):
    """For every function of `trees` that also exists in the reference and is not identical to it:
    (module, qual, container, index, node, reference node, helpers for the current side, helpers for the reference side).
    Helpers of a side are the functions it may inline: functions the other tree does not have at all, and (small)
    package functions / methods of the same class that this side's version calls and the other side's version does not."""
    out = []
    for m, tree in trees.items():
        if m not in ref:
            continue
        rslots = {q: node for q, _, _, node in _function_slots(ref[m])}
        cslots = _function_slots(tree)
        cmap = {q: node for q, _, _, node in cslots}
        new_helpers = {}
        for q, _, _, node in cslots:
            if q not in rslots:
                new_helpers[("self", q.split(".")[-1]) if "." in q else q] = node
        for q, container, idx, node in cslots:
            r = rslots.get(q)
            if r is None or ast.dump(node) == ast.dump(r):
                continue
            hc, hr = dict(new_helpers), {}
            ct, cm = _callee_names(node)
            rt, rm = _callee_names(r)
            cls = q.rsplit(".", 1)[0] if "." in q else None
            own = q.split(".")[-1]
            for nm in ct - rt:
                if nm in cmap and nm != own and _small(cmap[nm]) and nm not in _callee_names(cmap[nm])[0]:
                    hc.setdefault(nm, cmap[nm])
            for nm in rt - ct:
                if nm in rslots and nm != own and _small(rslots[nm]) and nm not in _callee_names(rslots[nm])[0]:
                    hr.setdefault(nm, rslots[nm])
            if cls:
                for nm in cm - rm:
                    qq = "%s.%s" % (cls, nm)
                    if qq in cmap and nm != own and _small(cmap[qq]) and nm not in _callee_names(cmap[qq])[1]:
                        hc.setdefault(("self", nm), cmap[qq])
                for nm in rm - cm:
                    qq = "%s.%s" % (cls, nm)
                    if qq in rslots and nm != own and _small(rslots[qq]) and nm not in _callee_names(rslots[qq])[1]:
                        hr.setdefault(("self", nm), rslots[qq])
            out.append((m, q, container, idx, node, r, hc, hr))
    return out


def _classes(trees):
    out = {}
    for m, t in trees.items():
        for st in t.body:
            if isinstance(st, ast.ClassDef):
                out[(m, st.name)] = st
    return out


def _cls_of(classes, m, q):
    return classes.get((m, q.split(".")[0])) if "." in q else None


def _code_key():
    """Digest of the analysis code that defines the canonical form and of the frozen reference."""
    h = hashlib.sha256()
    for name in ("canon.py", "alpha.py", "core.py", "flow.py"):
        h.update(open(os.path.join(HERE, name), "rb").read())
    for name in sorted(os.listdir(REFDIR)):
        if name.endswith(".py"):
            h.update(open(os.path.join(REFDIR, name), "rb").read())
    return h.hexdigest()


DIGESTS = os.path.join(HERE, "reference", "digests.json")
CACHEDIR = os.path.join(os.path.dirname(HERE), ".cache")


def _reference_digests(key):
    import json
    try:
        d = json.load(open(DIGESTS))
        if d.get("key") == key:
            return d["digests"]
    except (OSError, ValueError):
        pass
    return {}


def _quick_form(fn):
    f = copy.deepcopy(fn)
    strip(f)
    return A.alpha_form(f)[0]


def _canon_job(job):
    node, helpers, sigs, cls = job
    try:
        return canonical(node, helpers, sigs, cls)[0]
    except RecursionError:
        return None


def _digests(jobs):
    """Canonical digests of many functions; in parallel when there are enough of them to pay for the processes."""
    if len(jobs) < 6:
        return [_canon_job(j) for j in jobs]
    import multiprocessing as mp
    try:
        ctx = mp.get_context("fork")
        with ctx.Pool(min(16, os.cpu_count() or 1, len(jobs))) as pool:
            return pool.map(_canon_job, jobs, chunksize=1)
    except (OSError, ValueError):
        return [_canon_job(j) for j in jobs]


def _names_of_reference(ref, m):
    return {q.split(".")[-1] for q, _, _, _ in _function_slots(ref[m])}


def restore_equivalent(trees, tree_digest=None):
    """Replace every function that is a refactoring of its reference counterpart by the reference function.
    Returns {module: [names replaced]}.  `tree_digest` (digest of the analysed sources) keys an on-disk memo under
    /verif/.cache so that the 18 checks of one run canonicalise a changed tree once."""
    import json
    ref = load_reference()
    replaced = {}
    if ref is None:
        return replaced
    changed = changed_functions(trees, ref)
    if not changed:
        return replaced
    key = _code_key()
    memo = None
    if tree_digest:
        memo = os.path.join(CACHEDIR, "equiv-%s.json" % hashlib.sha256((key + tree_digest).encode()).hexdigest()[:32])
    equal = None
    if memo and os.path.exists(memo):
        try:
            equal = {tuple(x) for x in json.load(open(memo))}
        except (OSError, ValueError):
            equal = None
    if equal is None:
        equal = set()
        refd = _reference_digests(key)
        csigs, rsigs = signatures_of(trees), signatures_of(ref)
        ccls, rcls = _classes(trees), _classes(ref)
        jobs, slots = [], []
        for m, q, container, idx, node, r, hc, hr in changed:
            if _quick_form(node) == _quick_form(r):
                equal.add((m, q))
                continue
            jobs.append((node, hc, csigs, _cls_of(ccls, m, q)))
            slots.append((m, q, "c"))
            if hr or ("%s:%s" % (m, q)) not in refd:
                jobs.append((r, hr, rsigs, _cls_of(rcls, m, q)))
                slots.append((m, q, "r"))
        got = {}
        for slot, d in zip(slots, _digests(jobs)):
            got[slot] = d
        for m, q, container, idx, node, r, hc, hr in changed:
            if (m, q) in equal:
                continue
            dc = got.get((m, q, "c"))
            dr = got.get((m, q, "r"), refd.get("%s:%s" % (m, q)))
            if dc is not None and dc == dr:
                equal.add((m, q))
        if memo:
            try:
                os.makedirs(CACHEDIR, exist_ok=True)
                tmp = "%s.%d" % (memo, os.getpid())
                json.dump(sorted(equal), open(tmp, "w"))
                os.replace(tmp, memo)
            except OSError:
                pass
    for m, q, container, idx, node, r, hc, hr in changed:
        if (m, q) in equal:
            new = copy.deepcopy(r)
            ast.copy_location(new, node)
            container[container.index(node)] = new
            replaced.setdefault(m, []).append(q)
        else:
            # not a refactoring of the reference: analysed as written, except that calls of newly extracted helpers /
            # closures are replaced by their bodies (behaviour preserving) so that the rules see what the call does
            try:
                new = inlined_only(node, {k: v for k, v in hc.items() if (k if isinstance(k, str) else k[1]) not in _names_of_reference(ref, m)}, r,
                                   sigs=_sigs_once(trees))
            except RecursionError:
                new = None
            if new is not None:
                container[container.index(node)] = new
                replaced.setdefault(m + ":inlined", []).append(q)
    for m, tree in trees.items():
        # helpers that are no longer referenced are dropped from the analysed tree
        if replaced.get(m) or replaced.get(m + ":inlined"):
            rq = {q for q, _, _, _ in _function_slots(ref[m])}
            for q, container, idx, node in sorted(_function_slots(tree), key=lambda t: -t[2]):
                if q not in rq:
                    nm = q.split(".")[-1]
                    others = sum(1 for n in ast.walk(tree) if (isinstance(n, ast.Name) and n.id == nm) or (isinstance(n, ast.Attribute) and n.attr == nm))
                    if others == 0:
                        del container[container.index(node)]
            ast.fix_missing_locations(tree)
    return replaced


def freeze(root):
    import json
    os.makedirs(REFDIR, exist_ok=True)
    from .core import MODULES
    for m in MODULES:
        shutil.copy(os.path.join(root, "EoN", m + ".py"), os.path.join(REFDIR, m + ".py"))
    write_digests()
    print("reference frozen from", root)


def write_digests():
    import json
    ref = load_reference()
    rsigs = signatures_of(ref)
    rcls = _classes(ref)
    jobs, names = [], []
    for m, t in ref.items():
        for q, _, _, n in _function_slots(t):
            jobs.append((n, {}, rsigs, _cls_of(rcls, m, q)))
            names.append("%s:%s" % (m, q))
    ds = _digests(jobs)
    json.dump({"key": _code_key(), "digests": {k: d for k, d in zip(names, ds) if d is not None}}, open(DIGESTS, "w"), indent=0, sort_keys=True)
    print("wrote", len(ds), "reference digests")


if __name__ == "__main__":
    import sys
    if "--freeze" in sys.argv:
        freeze(os.environ.get("EON_REPO", "/repo"))
    elif "--digests" in sys.argv:
        write_digests()
